/*
 * C35 -- protocol model of the pkgcore Python <-> bash ebuild-daemon command loops.
 *
 * Two sequential processes joined by two FIFO channels of *line* messages:
 *   Py      : pkgcore.ebuild.processor.EbuildProcessor (+ ebd.run_generic_phase,
 *             ebd_ipc.IpcCommand.__call__, processor.inherit_handler, ebd._request_bashrcs)
 *   Daemon  : data/lib/pkgcore/ebd/ebuild-daemon.bash (__ebd_main_loop,
 *             __ebd_process_ebuild_phases, __ebd_process_metadata), ebuild-daemon-lib.bash
 *             (__ebd_ipc_cmd, __internal_inherit, __source_bashrcs), exit-handling.bash (die),
 *             ebuild.bash (__execute_phases for setup / depend / generate_env)
 *
 * Message *texts that matter for matching* are mtype constants.  Where the two sides name
 * the "same" reply, the Python-side expectation (X_P) and the daemon-side text (X_D) are
 * separate symbols; the build (verif/engines/proto.py) reads both strings from the real
 * source files and passes -DEQ_X=1 only if they are byte-identical, so a disagreement
 * between the sides is visible in the model and is never repaired here.
 * Two behavioural facts are measured on the real pair by probes and passed in the same way:
 *   -DFAIL_EXTRA=k      lines left in the pipe after the reply to a gen_metadata whose
 *                       ebuild wrote two lines to stderr and exited 1
 *   -DSHUTDOWN_KILLS=b  shutdown_processor() kills a daemon that did not answer "alive"
 *
 * Every line carries ghost fields: seq (number of the Python request that caused it) and,
 * daemon->Python, ack (the daemon means "this request succeeded").
 *
 * Build modes:
 *   (default)  safety: exhaustive search, ghost violation flags asserted at session end,
 *              deadlocks = invalid end states
 *   -DENUM     every nondeterministic choice is appended to the history h[]; each complete
 *              path ends in assert(false) so that `pan -e -c0` writes one trail per history
 *   -DOBS      (with trace.h) accept/reject one observed Python-side event sequence
 */

#ifndef NREQ
#define NREQ 2      /* Python requests per session */
#endif
#ifndef NEV
#define NEV 2       /* daemon-side events per phase (after the fixed setup prologue) */
#endif
#ifndef CAP
#define CAP 4       /* channel capacity (lines) */
#endif
#ifndef FAIL_EXTRA
#define FAIL_EXTRA 1
#endif
#ifndef SHUTDOWN_KILLS
#define SHUTDOWN_KILLS 0
#endif

mtype = {
	/* Python -> daemon */
	ALIVE, PRELOAD, CLEAR, SETPATH, GENMETA, GENENV, PROCESS, RECVENV, SANDBOX, STARTP,
	SHUTDOWN, BOGUSP, INHPATH, TEXTP, ENDREQ,
	/* daemon -> Python */
	YEP_D, PRELOAD_OK_D, PRELOAD_FAILED, CLEARED_D, PATHRCVD_D, ENVRCVD_D, PH_OK, PH_FAIL,
	KEY, RECEIVE_ENV, REQ_INHERIT, REQ_BASHRCS, IPC, TEXT, DYING, DEAD, SIGTERM_N, SIGINT_N,
	BOGUSD, ENVFAILED, EOF,
	/* what Python compares against when its string differs from the daemon's */
	YEP_X, PRELOAD_OK_X, CLEARED_X, PATHRCVD_X, ENVRCVD_X
};

#ifdef EQ_YEP
#define YEP_P YEP_D
#else
#define YEP_P YEP_X
#endif
#ifdef EQ_PRELOAD
#define PRELOAD_OK_P PRELOAD_OK_D
#else
#define PRELOAD_OK_P PRELOAD_OK_X
#endif
#ifdef EQ_CLEAR
#define CLEARED_P CLEARED_D
#else
#define CLEARED_P CLEARED_X
#endif
#ifdef EQ_PATHRCVD
#define PATHRCVD_P PATHRCVD_D
#else
#define PATHRCVD_P PATHRCVD_X
#endif
#ifdef EQ_ENVRCVD
#define ENVRCVD_P ENVRCVD_D
#else
#define ENVRCVD_P ENVRCVD_X
#endif

chan p2d = [CAP] of { mtype, byte, bit };   /* text, seq, arg */
chan d2p = [CAP] of { mtype, byte, bit };   /* text, seq, ack */

/* ---- shared ghost / environment state ---------------------------------- */
byte dstate = 0;        /* 0 running, 1 idle at the main-loop read, 2 exited */
bit killed = 0;         /* Python sent SIGKILL to the process group */
bit pclosed = 0;        /* Python closed its pipe ends */
byte sigpend = 0;       /* 1 SIGTERM / 2 SIGINT delivered to the main daemon process */
bit ipc_bad = 0;        /* ghost: the helper request just written has arguments Python rejects */

/* violation flags (ghost) */
#define V_STALE   1     /* a line accepted as reply/command was caused by another command */
#define V_TEXT    2     /* daemon acknowledged this very request, Python's comparison failed */
#define V_AFTERR  4     /* a line was accepted as a reply after an unknown command ended the request */
byte viol = 0;

/* Python exceptions */
#define X_NONE     0
#define X_EBDERR   1    /* EbdError via chuck_DyingInterrupt (processor force-killed) */
#define X_KBI      2    /* KeyboardInterrupt via SIGINT notice */
#define X_UNHANDLED 3   /* UnhandledCommand */
#define X_INTERNAL 4    /* InternalError (empty line / EOF in generic_handler) */
#define X_PROCERR  5    /* ProcessorError: "phases failed ..." */
#define X_IPCERR   6    /* IpcCommandError raised by a helper */
#define X_EPIPE    7    /* RuntimeError / OSError(EPIPE) from write() */
#define X_GBE      8    /* GenericBuildError: run_phase returned False */

/* request codes (history / REQ lines) */
#define R_ALIVE 1
#define R_PRELOAD_OK 2
#define R_PRELOAD_BAD 3
#define R_CLEAR 4
#define R_SETPATH 5
#define R_GENMETA 6
#define R_GENENV 7
#define R_PHASE 8
#define R_SHUTDOWN 9
#define R_BOGUS 10
#define R_SIGTERM 11    /* SIGTERM to the idle daemon between two requests */
#define R_SIGINT 12

/* daemon-side event codes (history / DEV lines) */
#define E_OK 20         /* metadata: keys + success; phase: function returns */
#define E_INHERIT 21    /* metadata: ebuild inherits an eclass */
#define E_DIE 22
#define E_FAIL1 23      /* one-line stderr, exit 1 */
#define E_FAIL2 24      /* two-line stderr, exit 1 */
#define E_BOGUS 25      /* writes an unknown command line, carries on */
#define E_IPC_OK 26     /* helper request Python answers with status 0 */
#define E_IPC_ERR 27    /* helper request with arguments Python rejects */
#define E_EXIT1 28      /* exit 1 inside the phase function */
#define E_KILLTERM 29   /* kill -TERM <main daemon pid> from inside the phase */
#define E_KILLINT 30
#define E_ENVFAIL 31    /* the transferred environment does not evaluate */
#define E_NFDIE 32      /* `nonfatal die -n msg || :` -- returns non-zero, writes no protocol line, phase goes on */

#ifndef FULLREQ
#define FULLREQ NREQ
#endif
#define G3 (nreq <= FULLREQ)   /* requests after the FULLREQ-th are control requests (no daemon-side events) */

/* gen_ebuild_env + inherit makes pkgcore add a QA notice line to the captured stderr, which only
 * changes how many stale lines a failing run leaves; enumerated sessions inherit in gen_metadata only */
#ifdef OBS
#define INH_OK true
#else
#define INH_OK (mcmd == GENMETA)
#endif

#ifdef ENUM
#define HMAX 14
byte h[HMAX];
byte hn = 0;
#define HREC(c) h[hn] = c; hn++
#else
#define HREC(c) skip
#endif

#ifdef OBS
#include "trace.h"      /* #define OBSN n ; mtype-valued obs[], dir[] filled by init */
byte oi = 0;
#define OBSERVE(d, t) (oi < OBSN && odir[oi] == d && otyp[oi] == t) -> oi++
#else
#define OBSERVE(d, t) skip
#endif

/* ---- Python side ------------------------------------------------------- */
byte cur = 0;           /* number of the request being executed */
byte wseq = 0;          /* ghost: number of lines written so far; tags each written line */
byte gseq = 0;          /* ghost: tag of the command that started the running handler loop */
byte xc = X_NONE;       /* pending exception */
bit pdead = 0;          /* ebp.pid is None / False: processor shut down or killed */
bit perr = 0;           /* ghost: an unknown command ended the current request */
bit res = 0;
byte owant_n = 0;       /* outstanding async expects */
mtype owant[NREQ+1];
byte oseq[NREQ+1];
mtype rt; byte rs; bit ra;      /* last line read */

/* one traced write: `>` record */
inline p_write(t, a) {
	if
	:: xc == X_NONE ->
		printf("EV > %d\n", t);
		OBSERVE(1, t);
		if
		:: dstate == 2 -> xc = X_EPIPE
		:: else -> wseq++; p2d!t,wseq,a
		fi
	:: else -> skip
	fi
}

/* EbuildProcessor.readlines(1): one traced read incl. the in-line interrupt handlers */
inline p_readline() {
	if
	:: d2p?rt,rs,ra
	:: dstate == 2 && empty(d2p) -> rt = EOF; rs = 0; ra = 0
	fi;
	printf("EV < %d\n", rt);
	OBSERVE(0, rt);
	if
	:: rt == DYING ->           /* chuck_DyingInterrupt: read to "dead", force shutdown, raise */
		do
		:: d2p?rt,rs,ra -> printf("EV < %d\n", rt); OBSERVE(0, rt);
			if
			:: rt == DEAD -> break
			:: else -> skip
			fi
		:: dstate == 2 && empty(d2p) -> printf("EV < %d\n", EOF); OBSERVE(0, EOF)   /* spins in reality; not reachable */
		od;
		killed = 1; (dstate == 2); pdead = 1; xc = X_EBDERR
	:: rt == SIGINT_N ->        /* chuck_KeyboardInterrupt: force shutdown of all, raise */
		killed = 1; (dstate == 2); pdead = 1; xc = X_KBI
	:: rt == SIGTERM_N ->       /* chuck_TermInterrupt(ebp): drop + shutdown_processor() */
		(dstate == 2);          /* harness: the notice is handled after the daemon has exited */
		pdead = 1
	:: else -> skip
	fi
}

/* ghost check on a line that was *accepted* as the reply to / a command of the running request:
 * it must have been caused by that very command (a rejected line is detection, not misreading) */
inline chk(want_seq) {
	if
	:: rt != EOF && rt != SIGTERM_N && rt != SIGINT_N && rt != DYING && rt != DEAD && rs != want_seq ->
		viol = viol | V_STALE; printf("VIOL stale %d %d\n", cur, rt)
	:: else -> skip
	fi
}

/* _consume_async_expects(): whole batch, in issue order */
byte ci;
inline p_consume() {
	res = 1; ci = 0;
	do
	:: ci < owant_n && xc == X_NONE ->
		p_readline();
		if
		:: xc == X_NONE ->
			if
			:: rt != owant[ci] -> res = 0;
				if
				:: ra && rs == oseq[ci] -> viol = viol | V_TEXT; printf("VIOL text %d %d %d\n", cur, owant[ci], rt)
				:: else -> skip
				fi
			:: else ->
				chk(oseq[ci]);
				if
				:: perr -> viol = viol | V_AFTERR; printf("VIOL afterr %d %d\n", cur, rt)
				:: else -> skip
				fi
			fi
		:: else -> res = 0
		fi;
		ci++
	:: else -> break
	od;
	owant_n = 0
}

/* expect(want) synchronous */
inline p_expect(want) {
	if
	:: xc != X_NONE -> res = 0
	:: else ->
		owant[owant_n] = want; oseq[owant_n] = wseq; owant_n++;
		p_consume()
	fi
}

/* expect(want, async_req=True) */
inline p_expect_async(want) {
	if
	:: xc == X_NONE -> owant[owant_n] = want; oseq[owant_n] = wseq; owant_n++
	:: else -> skip
	fi
}

/* is_responsive: is_alive, write alive, expect yep! (10 s timer) */
inline p_responsive() {
	res = 0;
	if
	:: xc != X_NONE -> skip
	:: else ->
		if
		:: pdead || dstate == 2 -> skip      /* is_alive False (harness waits for exits) */
		:: else ->
			p_write(ALIVE, 0);
			p_expect(YEP_P)
		fi
	fi
}

/* shutdown_processor(force=False) */
bit kill_;
inline p_shutdown() {
	if
	:: pdead -> skip
	:: else ->
		kill_ = 0;
		p_responsive();
		if
		:: xc == X_EPIPE -> xc = X_NONE; kill_ = 1     /* except (OSError, ValueError) */
		:: xc != X_NONE && xc != X_EPIPE -> skip       /* EbdError / KeyboardInterrupt propagate */
		:: xc == X_NONE && res -> p_write(SHUTDOWN, 0);
			if
			:: xc == X_EPIPE -> xc = X_NONE; kill_ = 1
			:: else -> pclosed = 1
			fi
		:: xc == X_NONE && !res ->
#if SHUTDOWN_KILLS
			kill_ = 1
#else
			skip
#endif
		fi;
		if
		:: xc == X_NONE && !pdead ->
			if
			:: dstate == 2 -> skip                  /* is_alive reaped it: pid False */
			:: else ->
				if
				:: kill_ -> killed = 1
				:: else -> skip
				fi;
				(dstate == 2)                       /* os.waitpid(-pid, 0) */
			fi;
			pdead = 1
		:: else -> skip
		fi
	fi
}

/* generic_handler(); mode: 0 metadata (key), 1 env dump (receive_env), 2 phase */
byte gi;
inline p_generic(mode) {
	gseq = wseq;
	if
	:: xc == X_NONE && owant_n > 0 ->
		p_consume();
		if
		:: xc == X_NONE && !res -> xc = X_UNHANDLED      /* "expects out of alignment" */
		:: else -> skip
		fi
	:: else -> skip
	fi;
	do
	:: xc == X_NONE ->
		p_readline();
		if
		:: xc != X_NONE -> break
		:: else -> skip
		fi;
		if
		:: rt == PH_OK -> chk(gseq); break
		:: rt == PH_FAIL -> xc = X_PROCERR
		:: rt == KEY && mode == 0 -> skip
		:: rt == RECEIVE_ENV && mode == 1 -> skip       /* raw payload read is not a line */
		:: rt == REQ_INHERIT -> p_write(INHPATH, 0); p_write(TEXTP, 0)
		:: rt == REQ_BASHRCS && mode == 2 -> p_write(ENDREQ, 0)
		:: rt == IPC && mode == 2 ->                    /* IpcCommand.__call__: five more lines */
			gi = 0;
			do
			:: gi < 5 && xc == X_NONE -> p_readline(); gi++
			:: else -> break
			od;
			if
			:: xc != X_NONE -> skip
			:: ipc_bad -> xc = X_IPCERR
			:: else -> p_write(TEXTP, 0)
			fi
		:: rt == SIGTERM_N -> skip                      /* handler again: already shut down */
		:: rt == EOF -> xc = X_INTERNAL
		:: else -> xc = X_UNHANDLED; perr = 1
		fi;
		if
		:: xc != X_UNHANDLED && xc != X_INTERNAL -> chk(gseq)   /* the line was dispatched to a handler */
		:: else -> skip
		fi
	:: else -> break
	od
}

byte nreq = 0;
byte mpath = 0;         /* _metadata_paths: 0 None, 1 ("/dev/null",), 2 other */
byte xsave;

inline p_ensure_devnull() {
	if
	:: mpath == 1 -> skip
	:: else ->
		p_write(SETPATH, 0);
		p_expect(PATHRCVD_P);
		if
		:: xc == X_NONE && res -> mpath = 1
		:: else -> skip
		fi
	fi
}

proctype Py() {
	do
	:: nreq < NREQ && !pdead && xc == X_NONE ->
		nreq++; cur = nreq; perr = 0;
		if
		:: HREC(R_ALIVE); printf("REQ %d alive\n", cur);
			p_responsive();
			if
			:: xc == X_NONE && !res ->      /* request_ebuild_processor drops it; __del__ runs */
				printf("REQ %d drop\n", cur);
				p_responsive();
				if
				:: xc == X_NONE && res -> p_shutdown()
				:: else -> skip
				fi;
				break
			:: else -> skip
			fi
		:: HREC(R_PRELOAD_OK); printf("REQ %d preload_ok\n", cur);
			p_write(PRELOAD, 1); p_expect_async(PRELOAD_OK_P)
		:: HREC(R_PRELOAD_BAD); printf("REQ %d preload_bad\n", cur);
			p_write(PRELOAD, 0); p_expect_async(PRELOAD_OK_P)
		:: HREC(R_CLEAR); printf("REQ %d clear\n", cur);
			p_responsive();
			if
			:: xc == X_NONE && res ->
				p_write(CLEAR, 0);
				p_expect(CLEARED_P);
				if
				:: xc == X_NONE && !res -> p_shutdown()
				:: else -> skip
				fi
			:: else -> skip
			fi
		:: HREC(R_SETPATH); printf("REQ %d setpath\n", cur);
			p_write(SETPATH, 0);
			p_expect(PATHRCVD_P);
			if
			:: xc == X_NONE && res -> mpath = 2
			:: else -> skip
			fi
		:: G3 -> HREC(R_GENMETA); printf("REQ %d genmeta\n", cur);
			p_ensure_devnull();
			p_write(GENMETA, 0);
			p_generic(0);
			if
			:: xc == X_PROCERR -> xc = X_NONE       /* ebuild_src: MetadataException, ebp released */
			:: else -> skip
			fi
		:: G3 -> HREC(R_GENENV); printf("REQ %d genenv\n", cur);
			p_ensure_devnull();
			p_write(GENENV, 0);
			p_generic(1);
			if
			:: xc == X_PROCERR -> xc = X_NONE
			:: else -> skip
			fi
		:: G3 -> HREC(R_PHASE); printf("REQ %d phase\n", cur);
			/* ebd.run_generic_phase around EbuildProcessor.run_phase */
			p_write(PROCESS, 0);
			p_write(RECVENV, 0);
			p_expect(ENVRCVD_P);
			if
			:: xc == X_NONE && !res -> xc = X_GBE
			:: xc == X_NONE && res ->
				p_write(SANDBOX, 0);
				p_write(STARTP, 0);
				p_generic(2)
			:: else -> skip
			fi;
			if
			:: xc == X_NONE || xc == X_KBI -> skip   /* KeyboardInterrupt is not an Exception */
			:: else ->
				xsave = xc; xc = X_NONE;
				if
				:: xsave == X_IPCERR -> p_write(TEXTP, 0); /* ebd.write(e.ret) */
					if
					:: xc == X_EPIPE -> skip
					:: else -> skip
					fi
				:: else -> skip
				fi;
				if
				:: xc == X_NONE -> p_shutdown()
				:: else -> skip
				fi;
				if
				:: xc == X_NONE || xc == X_EBDERR -> xc = xsave   /* re-raised after release */
				:: else -> skip
				fi;
				break
			fi
		:: HREC(R_SHUTDOWN); printf("REQ %d shutdown\n", cur);
			p_shutdown()
		:: G3 -> HREC(R_BOGUS); printf("REQ %d bogus\n", cur);
			p_write(BOGUSP, 0);
			if
			:: xc == X_NONE -> (dstate == 2)    /* harness waits for the daemon to exit */
			:: else -> skip
			fi
		:: G3 && dstate != 2 -> HREC(R_SIGTERM); printf("REQ %d sigterm\n", cur);
			(dstate == 1 && empty(p2d)); sigpend = 1; (dstate == 2)
		:: G3 && dstate != 2 -> HREC(R_SIGINT); printf("REQ %d sigint\n", cur);
			(dstate == 1 && empty(p2d)); sigpend = 2; (dstate == 2)
		fi
	:: else -> break
	od;
	printf("END xc=%d pdead=%d viol=%d\n", xc, pdead, viol);
	/* a session that ended with an exception: its owner discards the processor by force
	 * (harness clean-up); the daemon may be anywhere, also blocked writing to a full pipe */
	if
	:: xc != X_NONE && !pdead -> killed = 1
	:: else -> skip
	fi;
	/* the session is over; wait until the daemon is quiescent so each history has one end state */
	((dstate == 1 && empty(p2d)) || dstate == 2);
#ifdef ENUM
	assert(h[0] == 0)       /* always violated (h[0] is a request code); reading h keeps spin from hiding it */
#else
#ifdef OBS
	assert(oi < OBSN)       /* violated <=> the whole observed sequence was produced */
#else
	assert(viol == 0)
#endif
#endif
}

/* ---- daemon side ------------------------------------------------------- */
mtype dt; byte ds; bit da;     /* last line read by the daemon */
mtype mcmd;                    /* the main-loop command being served */
byte dcur = 0;                 /* ghost: tag of the command line the daemon is answering */
byte nev;
bit sub_fail;                  /* exit status of the phase / metadata subshell */
bit sub_died;

inline d_write(t, ack) {
	d2p!t,dcur,ack
}

inline d_die() {               /* exit-handling.bash die(): dying, stderr lines, dead, exit 1 */
	d_write(DYING, 0); d_write(TEXT, 0); d_write(DEAD, 0)
}

inline d_read() {
	p2d?dt,ds,da
}

/* __ebd_ipc_cmd: six lines, one reply read with __ebd_read_array; non-zero status -> die */
inline d_ipc(bad) {
	ipc_bad = bad;
	d_write(IPC, 0); d_write(TEXT, 0); d_write(TEXT, 0); d_write(TEXT, 0); d_write(TEXT, 0); d_write(TEXT, 0);
	d_read();
	if
	:: dt == TEXTP && !bad -> skip
	:: else -> d_die(); sub_died = 1
	fi
}

/* __internal_inherit */
inline d_inherit() {
	d_write(REQ_INHERIT, 0);
	d_read();
	if
	:: dt == INHPATH -> d_read()        /* the eclass file; sourced */
	:: else -> d_die(); sub_died = 1
	fi
}

/* __source_bashrcs */
inline d_bashrcs() {
	d_write(REQ_BASHRCS, 0);
	d_read();
	do
	:: dt == ENDREQ -> break
	:: dt == INHPATH -> d_read(); d_write(TEXT, 0) /* "next" */; d_read()
	:: else -> d_write(TEXT, 0) /* "failed" */; d_die(); sub_died = 1; break
	od
}

proctype Daemon() {
	{
	do
	::	dstate = 1;
end_idle:	if
		:: p2d?dt,ds,da -> dstate = 0; dcur = ds; mcmd = dt
		:: sigpend == 1 -> dstate = 0; d_write(SIGTERM_N, 0); break
		:: sigpend == 2 -> dstate = 0; d_write(SIGINT_N, 0); break
		:: pclosed && empty(p2d) -> dstate = 0; break          /* read fails: shutdown_daemon */
		fi;
		if
		:: dt == ALIVE -> d_write(YEP_D, 1)
		:: dt == PRELOAD ->
			if
			:: da -> d_write(PRELOAD_OK_D, 1)
			:: else -> d_write(PRELOAD_FAILED, 0)
			fi
		:: dt == CLEAR -> d_write(CLEARED_D, 1)
		:: dt == SETPATH -> d_write(PATHRCVD_D, 1)
		:: dt == SHUTDOWN -> break
		:: dt == GENMETA || dt == GENENV ->
			/* error_output=$(__ebd_process_metadata ... 2>&1 1>/dev/null) */
			sub_fail = 0; sub_died = 0; nev = 0;
			do
			:: nev == 0 && INH_OK -> HREC(E_INHERIT); printf("DEV %d inherit\n", cur); nev++;
				d_inherit();
				if
				:: sub_died -> sub_fail = 1; break
				:: else -> skip
				fi
			:: nev < NEV -> HREC(E_BOGUS); printf("DEV %d bogus\n", cur); nev++;
				d_write(BOGUSD, 0)
			:: HREC(E_OK); printf("DEV %d ok\n", cur);
				if
				:: mcmd == GENMETA -> d_write(KEY, 0)
				:: else -> d_write(RECEIVE_ENV, 0)
				fi;
				break
			:: HREC(E_DIE); printf("DEV %d die\n", cur);
				d_die(); sub_fail = 1; sub_died = 1; break
			:: HREC(E_FAIL1); printf("DEV %d fail1\n", cur);
				sub_fail = 1; break
			:: HREC(E_FAIL2); printf("DEV %d fail2\n", cur);
				sub_fail = 1; nev = 100; break
			od;
			if
			:: !sub_fail -> d_write(PH_OK, 1)
			:: else -> d_write(PH_FAIL, 0);
				if
				:: nev == 100 ->
#if FAIL_EXTRA > 0
					d_write(TEXT, 0)
#else
					skip
#endif
				:: else -> skip
				fi
			fi
		:: dt == PROCESS ->
			/* __ebd_process_ebuild_phases (subshell) */
			sub_fail = 0; sub_died = 0;
			do
			:: d_read(); dcur = ds;
				if
				:: dt == RECVENV ->
					if
					:: HREC(E_OK); d_write(ENVRCVD_D, 1)
					:: HREC(E_ENVFAIL); printf("DEV %d envfail\n", cur);
						d_write(ENVFAILED, 0); sub_fail = 1; break
					fi
				:: dt == SANDBOX -> skip
				:: dt == ALIVE -> d_write(YEP_D, 1)
				:: dt == SHUTDOWN -> break
				:: dt == STARTP ->
					/* setup phase prologue: filter_env helper, inherit, bashrcs */
					d_ipc(0);
					if
					:: !sub_died -> d_inherit()
					:: else -> skip
					fi;
					if
					:: !sub_died -> d_bashrcs()
					:: else -> skip
					fi;
					/* pkg_setup body */
					nev = 0;
					do
					:: sub_died -> sub_fail = 1; break
					:: !sub_died && nev == 0 -> HREC(E_NFDIE); printf("DEV %d nfdie\n", cur); nev = NEV
						/* exit-handling.bash die(): the -n / PKGCORE_NONFATAL early return comes before
						 * the "dying" notification: nothing is written; only the terminal follows
						 * (keeps the session count down) */
					:: !sub_died && nev < NEV -> HREC(E_IPC_OK); printf("DEV %d ipc_ok\n", cur); nev++;
						d_ipc(0)
					:: !sub_died && nev < NEV -> HREC(E_IPC_ERR); printf("DEV %d ipc_err\n", cur); nev++;
						d_ipc(1)
					:: !sub_died && nev < NEV -> HREC(E_BOGUS); printf("DEV %d bogus\n", cur); nev++;
						d_write(BOGUSD, 0)
					:: !sub_died && nev < NEV && sigpend == 0 -> HREC(E_KILLTERM); printf("DEV %d killterm\n", cur); nev++;
						sigpend = 1
					:: !sub_died && nev < NEV && sigpend == 0 -> HREC(E_KILLINT); printf("DEV %d killint\n", cur); nev++;
						sigpend = 2
					:: !sub_died -> HREC(E_DIE); printf("DEV %d die\n", cur);
						d_die(); sub_died = 1
					:: !sub_died -> HREC(E_EXIT1); printf("DEV %d exit1\n", cur);
						sub_fail = 1; break
					:: !sub_died -> HREC(E_OK); printf("DEV %d ok\n", cur);
						break
					od;
					break
				:: else -> d_die(); sub_fail = 1; break     /* unknown phase processing com */
				fi
			od;
			/* back in the main process: a trapped signal runs before the next command.
			 * (ghost tag: the closing line answers the exchange opened by the last phase-loop command) */
			if
			:: sigpend == 1 -> d_write(SIGTERM_N, 0); break
			:: sigpend == 2 -> d_write(SIGINT_N, 0); break
			:: else -> skip
			fi;
			if
			:: !sub_fail -> d_write(PH_OK, 1)
			:: else -> d_write(PH_FAIL, 0)
			fi
		:: else ->                  /* die "unknown ebd com" in the main process */
			d_die(); break
		fi
	od
	} unless { killed };
	dstate = 2
}

init {
#ifdef OBS
	OBSINIT;
#endif
	atomic { run Py(); run Daemon() }
}
