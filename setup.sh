#!/bin/bash
# Run once after a fresh restore; offline. Builds only from files on disk.
cd "$(dirname "${BASH_SOURCE[0]}")" || exit 1
mkdir -p evidence replays
if [ -f models/ebd.pml ] && command -v spin >/dev/null; then
  mkdir -p models/_build && (cd models/_build && spin -a ../ebd.pml >/dev/null 2>&1 && gcc -O2 -DNOCLAIM -o pan pan.c >/dev/null 2>&1) || true
fi
# generated bash helper lists of the daemon (git-ignored build output of pkgcore)
root="${VERIF_PKGCORE_ROOT:-/repo}"
if [ -f "$root/data/lib/pkgcore/ebd/Makefile" ] && [ ! -d "$root/data/lib/pkgcore/ebd/.generated" ]; then
  make -C "$root/data/lib/pkgcore/ebd" >/dev/null 2>&1 || true
fi
exit 0
