#!/bin/bash
# tools/confirm_batch.sh "C01 2" "C02 1" ...   (parallelism $PAR, default 3)
printf '%s\n' "$@" | xargs -P "${PAR:-3}" -I{} bash -c 'set -- {}; /verif/tools/confirm_seed.sh $1 $2 > /tmp/confirm-$1-$2.log 2>&1'
