#!/bin/bash
# tools/confirm_seed.sh <Cnn> <n> [checks...]  -- confirm a seeded change from /tmp/seed-<Cnn>/out/<n> (or /verif/seeded/<Cnn>-<n>)
# in a scratch worktree: applies, demo fails; full test suite passes (only the 4 known failures); reverted -> demo passes;
# then runs the given checks (default: the property's own) against the patched worktree. Writes /verif/seeded/<Cnn>-<n>/.
id="$1"; n="$2"; shift 2
checks=("$@"); [ ${#checks[@]} -eq 0 ] && checks=("$id")
dst="/verif/seeded/$id-$n"; src="/tmp/seed-$id/out/$n"; [ "$n" -ge 3 ] && src="/tmp/seed2-$id/out/$((n-2))"
mkdir -p "$dst"
if [ -f "$src/patch.diff" ]; then cp "$src/patch.diff" "$src/meta.json" "$dst/" 2>/dev/null; cp "$src/demo_test.py" "$dst/demo_test.py"; fi
[ -f "$dst/patch.diff" ] || { echo "no patch for $id-$n"; exit 2; }
wt="/tmp/wt-confirm-$id-$n"; ev="/dev/shm/verif-confirm-$id-$n"
git -C /repo worktree remove --force "$wt" >/dev/null 2>&1; rm -rf "$wt" "$ev"
git -C /repo worktree add --detach "$wt" HEAD >/dev/null 2>&1 || { echo "worktree failed"; exit 2; }
cp -r /repo/data/lib/pkgcore/ebd/.generated "$wt/data/lib/pkgcore/ebd/" 2>/dev/null
res="$dst/confirm.txt"; : > "$res"
run() { (cd "$wt" && PYTHONPATH="$wt/src" PYTHONDONTWRITEBYTECODE=1 env -u PKGCORE_VERIF /venv/bin/python -m pytest -q -p no:cacheprovider --timeout=900 "$@" 2>&1 | tail -3); }
echo "head: $(git -C /repo rev-parse --short HEAD)" >> "$res"
d=$(run "$dst/demo_test.py" | tail -1); echo "demo_without_patch: $d" >> "$res"
if ! git -C "$wt" apply "$dst/patch.diff" 2>>"$res"; then echo "APPLY FAILED" >> "$res"; git -C /repo worktree remove --force "$wt"; cat "$res"; exit 3; fi
d=$(run "$dst/demo_test.py" | tail -1); echo "demo_with_patch: $d" >> "$res"
(cd "$wt" && PYTHONPATH="$wt/src" PYTHONDONTWRITEBYTECODE=1 env -u PKGCORE_VERIF /venv/bin/python -m pytest -q -p no:cacheprovider --timeout=900 -n 4 tests > "$ev.suite.log" 2>&1)
t=$(tail -1 "$ev.suite.log"); echo "suite_with_patch: $t" >> "$res"
f=$(grep -E "^FAILED|^ERROR" "$ev.suite.log" | grep -v -E "test_system_bash_supports_bundled_eapis|test_top_level_with_feature|test_license_groups|test_sym_perms" | head -5); rm -f "$ev.suite.log"
echo "unexpected_failures: ${f:-none}" >> "$res"
mkdir -p "$ev"
for c in "${checks[@]}"; do
  out=$(cd /verif && VERIF_PKGCORE_ROOT="$wt" VERIF_EVIDENCE_DIR="$ev/evidence" VERIF_REPLAY_DIR="$ev/replays" ./vcheck "$c" --tier "${TIER:-quick}" 2>&1); rc=$?
  echo "check $c rc=$rc: $(echo "$out" | grep -E "^C[0-9]+ tier" | cut -c1-200)" >> "$res"
  echo "$out" | grep -E "^VIOLATION" -A1 | head -4 | cut -c1-300 >> "$res"
done
git -C /repo worktree remove --force "$wt" >/dev/null 2>&1; rm -rf "$ev"
cat "$res"
