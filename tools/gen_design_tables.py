#!/venv/bin/python
"""Regenerates the machine-derived tables of DESIGN.md (between <!-- BEGIN x --> / <!-- END x --> markers):
findings (from known_findings.json) and seeded changes (from seeded/*/meta.json + confirm.txt + status.json)."""
import json, os, re, glob
HERE = "/verif"
d = json.load(open(f"{HERE}/known_findings.json"))
rows = ["| property | status | name | what failed | commit |", "|---|---|---|---|---|"]
for e in d["findings"]:
    what = e["what"]
    what = re.sub(r"^fixed: property=\S+ \S+ ", "", what)
    rows.append(f"| {e['property']} | {'fixed' if e['kind']=='fixed' else '**known finding**'} | `{e['name']}` | {what.replace('|','\\|')} | {e.get('commit','—')} |")
findings_md = "\n".join(rows)
nfix = sum(1 for e in d["findings"] if e["kind"] == "fixed"); nfind = len(d["findings"]) - nfix
findings_md = f"{nfix} defects repaired by `fix:` commits, {nfind} recorded as known findings.\n\n" + findings_md

rows = ["| seeded change | property | what it changes | needs to manifest | caught by | note |", "|---|---|---|---|---|---|"]
for m in sorted(glob.glob(f"{HERE}/seeded/*/meta.json")):
    sid = os.path.basename(os.path.dirname(m))
    try:
        meta = json.load(open(m))
    except Exception:
        meta = {}
    st = {}
    sp = os.path.join(os.path.dirname(m), "status.json")
    if os.path.exists(sp):
        st = json.load(open(sp))
    rows.append(f"| {sid} | {meta.get('property', sid.split('-')[0])} | {str(meta.get('summary',''))[:160].replace('|','/')} | {str(meta.get('needs_to_manifest',''))[:140].replace('|','/')} | {st.get('caught_by','?')} | {st.get('note','')} |")
seeded_md = "\n".join(rows)

rows = ["| property | level | engine | quick-tier bound (as built) | evals | outcome classes | other counters |", "|---|---|---|---|---|---|---|"]
import importlib, sys
sys.path.insert(0, HERE)
for ev in sorted(glob.glob(f"{HERE}/evidence/C*.json")):
    e = json.load(open(ev))
    pid = e["property_id"]
    try:
        mod = importlib.import_module("verif.checks." + pid.lower())
        eng = getattr(mod, "ENGINE", "enum")
        bound = getattr(mod, "BOUNDS", {}).get("quick", "")
    except Exception:
        eng, bound = "?", ""
    cov = e["coverage"]
    extra = ", ".join(f"{k}={v}" for k, v in cov.items() if isinstance(v, int) and k not in ("evaluations", "distinct_nontrivial", "tasks_total", "tasks_done") and not isinstance(v, bool))
    rows.append(f"| {pid} | {e['level']} | {eng} | {str(bound)[:300].replace('|','/')} | {cov.get('evaluations')} | {cov.get('distinct_nontrivial')} | {extra[:160]} |")
asbuilt_md = "Generated from the evidence files of the last quick run on the committed tree.\n\n" + "\n".join(rows)

s = open(f"{HERE}/DESIGN.md").read()
for name, body in (("findings", findings_md), ("seeded", seeded_md), ("asbuilt", asbuilt_md)):
    b, e = f"<!-- BEGIN {name} -->", f"<!-- END {name} -->"
    if b in s:
        s = s[: s.index(b) + len(b)] + "\n" + body + "\n" + s[s.index(e):]
open(f"{HERE}/DESIGN.md", "w").write(s)
print("ok", nfix, nfind)
