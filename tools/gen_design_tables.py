#!/venv/bin/python
"""Regenerates the machine-derived tables of DESIGN.md (between <!-- BEGIN x --> / <!-- END x --> markers):
findings (from known_findings.json) and seeded changes (from seeded/*/meta.json + confirm.txt + status.json)."""
import json, os, re, glob
HERE = "/verif"
d = json.load(open(f"{HERE}/known_findings.json"))
rows = ["| property | status | name | what failed | commit |", "|---|---|---|---|---|"]
for e in d["findings"]:
    what = e["what"]
    what = re.sub(r"^fixed: property=\S+ \S+ ", "", what)
    rows.append(f"| {e['property']} | {'fixed' if e['kind']=='fixed' else '**known finding**'} | `{e['name']}` | {what.replace('|','\\|')} | {e.get('commit','—')} |")
findings_md = "\n".join(rows)
nfix = sum(1 for e in d["findings"] if e["kind"] == "fixed"); nfind = len(d["findings"]) - nfix
findings_md = f"{nfix} defects repaired by `fix:` commits, {nfind} recorded as known findings.\n\n" + findings_md

rows = ["| seeded change | property | what it changes | needs to manifest | caught by | note |", "|---|---|---|---|---|---|"]
for m in sorted(glob.glob(f"{HERE}/seeded/*/meta.json")):
    sid = os.path.basename(os.path.dirname(m))
    try:
        meta = json.load(open(m))
    except Exception:
        meta = {}
    st = {}
    sp = os.path.join(os.path.dirname(m), "status.json")
    if os.path.exists(sp):
        st = json.load(open(sp))
    rows.append(f"| {sid} | {meta.get('property', sid.split('-')[0])} | {str(meta.get('summary',''))[:160].replace('|','/')} | {str(meta.get('needs_to_manifest',''))[:140].replace('|','/')} | {st.get('caught_by','?')} | {st.get('note','')} |")
seeded_md = "\n".join(rows)

s = open(f"{HERE}/DESIGN.md").read()
for name, body in (("findings", findings_md), ("seeded", seeded_md)):
    b, e = f"<!-- BEGIN {name} -->", f"<!-- END {name} -->"
    if b in s:
        s = s[: s.index(b) + len(b)] + "\n" + body + "\n" + s[s.index(e):]
open(f"{HERE}/DESIGN.md", "w").write(s)
print("ok", nfix, nfind)
