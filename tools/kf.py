#!/venv/bin/python
"""tools/kf.py <property> <kind:fixed|finding> <name> <commit-or-> <what> [example-json]  -- append/replace a known_findings entry"""
import json, sys
p = "/verif/known_findings.json"
d = json.load(open(p))
prop, kind, name, commit, what = sys.argv[1:6]
ex = json.loads(sys.argv[6]) if len(sys.argv) > 6 else None
d["findings"] = [e for e in d["findings"] if not (e["property"] == prop and e["name"] == name)]
e = {"property": prop, "kind": kind, "name": name, "predicate": name}
if commit != "-":
    e["commit"] = commit
    what = f"fixed: property={prop} {commit} {what}" if kind == "fixed" else what
e["what"] = what
if ex is not None:
    e["example"] = ex
d["findings"].append(e)
d["findings"].sort(key=lambda e: (e["property"], e["name"]))
json.dump(d, open(p, "w"), indent=1)
print("ok", prop, kind, name)
