#!/bin/bash
# tools/mkseed.sh <Cnn>  -> creates scratch worktree /tmp/seed-<Cnn> of /repo HEAD (with generated ebd files); property text in out/PROPERTY.txt
id="$1"; wt="/tmp/seed-$id"
[ -d "$wt" ] && git -C /repo worktree remove --force "$wt" >/dev/null 2>&1
rm -rf "$wt"
git -C /repo worktree add --detach "$wt" HEAD >/dev/null 2>&1 || exit 2
cp -r /repo/data/lib/pkgcore/ebd/.generated "$wt/data/lib/pkgcore/ebd/" 2>/dev/null
mkdir -p "$wt/out"
/venv/bin/python - "$id" > "$wt/out/PROPERTY.txt" <<'PY'
import json,sys
for l in open('/verif/properties.jsonl'):
    p=json.loads(l)
    if p['id']==sys.argv[1]:
        print(f"Property {p['id']}\nTitle: {p['title']}\nStatement: {p['statement']}\nQuantified over: {p['quantifier']['text']}\nMainly implemented in: {', '.join(p['anchors']['files'])}")
PY
echo "$wt ready"
