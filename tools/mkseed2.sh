#!/bin/bash
# round 2: worktree /tmp/seed2-<Cnn>, with out/PROPERTY.txt and out/PREVIOUS.txt (summaries of round-1 changes to avoid)
id="$1"; wt="/tmp/seed2-$id"
git -C /repo worktree remove --force "$wt" >/dev/null 2>&1; rm -rf "$wt"
git -C /repo worktree add --detach "$wt" HEAD >/dev/null 2>&1 || exit 2
cp -r /repo/data/lib/pkgcore/ebd/.generated "$wt/data/lib/pkgcore/ebd/" 2>/dev/null
mkdir -p "$wt/out"
cp "/tmp/seed-$id/out/PROPERTY.txt" "$wt/out/PROPERTY.txt" 2>/dev/null || /venv/bin/python - "$id" > "$wt/out/PROPERTY.txt" <<'PY'
import json,sys
for l in open('/verif/properties.jsonl'):
    p=json.loads(l)
    if p['id']==sys.argv[1]:
        print(f"Property {p['id']}\nTitle: {p['title']}\nStatement: {p['statement']}\nQuantified over: {p['quantifier']['text']}\nMainly implemented in: {', '.join(p['anchors']['files'])}")
PY
/venv/bin/python - "$id" > "$wt/out/PREVIOUS.txt" <<'PY'
import json,sys,glob
for m in sorted(glob.glob(f"/verif/seeded/{sys.argv[1]}-*/meta.json")):
    try:
        d=json.load(open(m)); print("-", str(d.get("summary",""))[:400])
    except Exception: pass
PY
echo "$wt ready"
