#!/bin/bash
# usage: tools/mutant_run.sh <patch.diff> <Cnn> [<Cnn>...]   (env TIER=quick|thorough)
# Applies the patch to a scratch worktree of /repo HEAD (outside /repo and /verif), runs the named checks against
# it with evidence/replays redirected to a scratch dir, prints each check's verdict line, removes the worktree.
patch="$(realpath "$1")"; shift
wt="/tmp/wt-mut-$$"
ev="/dev/shm/verif-mut-$$"
git -C /repo worktree add --detach "$wt" HEAD >/dev/null 2>&1 || { echo "worktree failed"; exit 2; }
trap 'git -C /repo worktree remove --force "$wt" >/dev/null 2>&1; rm -rf "$ev"' EXIT
if ! git -C "$wt" apply "$patch"; then echo "PATCH DOES NOT APPLY"; exit 2; fi
[ -d /repo/data/lib/pkgcore/ebd/.generated ] && cp -r /repo/data/lib/pkgcore/ebd/.generated "$wt/data/lib/pkgcore/ebd/" 2>/dev/null
mkdir -p "$ev"
rc_all=0
for c in "$@"; do
  out=$(cd /verif && VERIF_PKGCORE_ROOT="$wt" VERIF_EVIDENCE_DIR="$ev/evidence" VERIF_REPLAY_DIR="$ev/replays" ./vcheck "$c" --tier "${TIER:-quick}" 2>&1)
  rc=$?
  echo "== $c rc=$rc"; echo "$out" | grep -E "^(VIOLATION|KNOWN-FINDING|C[0-9]+ tier|ERROR|ENGINE)" | head -8
  [ $rc -ne 0 ] && rc_all=$rc
done
exit $rc_all
