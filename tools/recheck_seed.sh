#!/bin/bash
# tools/recheck_seed.sh <seed-id> <Cnn>...  re-run checks against a stored seeded patch (after strengthening); writes seeded/<id>/recheck.txt
id="$1"; shift
/verif/tools/mutant_run.sh "/verif/seeded/$id/patch.diff" "$@" > "/verif/seeded/$id/recheck.txt" 2>&1
grep -E "^== " "/verif/seeded/$id/recheck.txt"
