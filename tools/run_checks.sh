#!/bin/bash
# tools/run_checks.sh <Cnn>...   runs quick tier of each sequentially, prints verdict lines
for c in "$@"; do
  s=$(date +%s)
  out=$(cd /verif && ./vcheck "$c" --tier "${TIER:-quick}" 2>&1); rc=$?
  echo "== $c rc=$rc $(( $(date +%s) - s ))s"
  echo "$out" | grep -E "^(VIOLATION|KNOWN-FINDING|C[0-9]+ tier|ERROR|ENGINE)" | cut -c1-400 | head -12
  [ $rc -eq 2 ] && echo "$out" | tail -15
done
