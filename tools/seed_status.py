#!/venv/bin/python
"""Derive seeded/<id>/status.json from confirm.txt (+ recheck.txt written by tools/recheck_seed.sh)."""
import glob, json, os, re
INITIALLY_MISSED = {  # seeded change -> what the check lacked (strengthening done afterwards)
 "C02-4": "prefix-related category/package keys (a vs a-b, a+b, a.b ...) + reference order, min/max and sorted-chain oracles added to C02",
 "C04-3": "history dimension (every ordered pair of matches over equal-but-differently-spelled versions x revisions) added to C04",
 "C04-4": "glob atoms written on bare suffix names (_p, _alpha ...) and version letters + packages continuing there added to C04",
 "C07-3": "glob atoms over equal-but-differently-spelled versions + packages only one spelling matches added to C07",
 "C07-4": "depth-3 query sequences with a fresh restriction object per step (previous one freed) added to C07",
 "C08-4": "operation sequences (query / notify_add / notify_remove / stack+repo) before the judged query added to C08",
 "C13-4": "repo-level mask x profile '-atom' negation configurations added to C13 (exclusion removed, reference applies repo->profile->user order)",
 "C16-3": "revision-only bump universes (installed 1 vs available 1-r1 ...) added to C16 (family F9); reference order through verif.ref",
 "C18-3": "hand-built entries without dev/inode (identical metadata, different data) + 'undeclared files never share an inode' / st_nlink oracle added to C18",
 "C21-3": "depth-2 histories on one root (op1, in-place env.d rewrite, op2) added to C21",
 "C23-4": "real interpolating observers (file_handle_output / formatter_output) and format-special path names ('%', '{', backslash) through the real engine dispatch added to C23",
 "C25-3": "write histories (same on-disk tree written 2-3 times in one process, every archive judged) added to C25",
 "C24-3": "operation histories on one ContentsFile (open/create, add/remove/replace-at-same-path, flush, fresh read-back) added to C24",
 "C24-4": "line-break look-alike characters (U+2028, U+2029, U+0085, VT, FF, FS/GS/RS) added to the C24 path/target alphabet",
 "C27-3": "second-generation follow-up store (shorter/same/longer entry, same process) after every fault plan added to C27",
 "C27-4": "store/delete histories on one key with entries sharing _chf_ but differing in values/eclass data added to C27",
 "C28-3": "histories on one Manifest object (read, same-size change, update, read again; Manifest mtime pinned) added to C28",
 "C28-4": "non-ASCII AUX/MISC/DIST names + stricter idempotence oracle (returns False, inode/mtime_ns/size unchanged) added to C28",
 "C01-4": "ver_cmp called with plain-str / mixed / '' revisions (its documented signature) besides Revision objects added to C01",
 "C41-3": "two-call histories (an earlier call whose input raises while being fed, then the judged call) added to C41; module state reloaded per execution so executions stay independent",
 "C44-3": "single-'*' tokens with overlapping prefix/suffix ('a*a', 'ab*ba', '1.*.1') and values shorter than prefix+suffix in every glob position added to C44",
 "C03-3": "parse histories (same text under EAPI e1 then e2, all ordered pairs) added to C03; single-parse candidates carry the worker's earlier EAPI settings for that text so they reproduce",
 "C03-4": "every numbered EAPI up to the newest known one (9) passed explicitly for every gate added to C03",
 "C38-4": "'*' lines naming the same cat/pkg-ver under different operator/slot/sub-slot (both orders) and an atom-dependent suggestion function added to C38",
 "C40-4": "non-exact specs matching exactly one version (ranges, ~ver, =ver*, single-version packages) under stable=True added to C40",
 "C45-3": "eq globs with a revision in the base (1.2-r1*, 1-r1*) as vulnerable and unaffected ranges added to C45",
 "C45-4": "advisories with an untranslatable <package> entry first / in the middle / last next to ordinary entries added to C45",
 "C46-3": "installed side is a real repository object (SimpleTree) instead of a list (the seeded change crashed the harness: rc=2)",
 "C31-3": "histories transferring the SAME mapping object 2-3 times (inline/file) with the caller's mapping compared added to C31",
 "C31-4": "whole environments of 4/63/65/100/300 KiB (around and past the 64 KiB pipe capacity) x {inline, file} added to C31",
 "C32-3": "multi-target requests through the external install fallback with the failing target first / last added to C32",
 "C32-4": "unpack of missing / empty / absolute-path files WITHOUT an archive suffix (EAPI 5 for the path form) added to C32",
 "C33-3": "depth-2 request histories through one helper object (second option string omits an option the first had); owner and mtime now judged",
 "C33-4": "pre-existing destination states (dangling symlink with/without target dir, live symlink, regular file) added to C33",
 "C48-3": "packages inheriting two/three eclasses (also nested) so that every eclass event hits the first / middle / last recorded eclass",
 "C48-4": "event 'ebuild replaced by different content with an OLDER mtime' (flat/mtime backend) added to C48",
 "C49-3": "EXPORT_FUNCTIONS called before / after the phase function definitions (one or both eclasses) added to C49",
 "C03-1": "glob atoms with explicit -r0/-r0N revisions + wider match universe added to C03",
 "C03-2": "multi-flag USE lists with a default on a non-last flag added to C03",
 "C04-2": "atom slot form with sub-slot equal to slot (:0/0) added to C04 quick",
 "C07-2": "incremental-build histories (partial node inspected, then completed) added to C07",
 "C08-2": "universe with versions whose string and version order differ added to C08 sorted/multiplex modes",
 "C13-1": "C13 replay re-evaluates the whole configuration in the same order (order-dependent defect now reproduces)",
 "C15-1": "two packages carrying the same blocker atom, one abandoned via an any-of fallback (family F5) added to C15",
 "C15-2": "candidate refused at insertion with a lower fallback and a leftover dependency cycle (family F6) added to C15",
 "C16-1": "multi-target inputs through ONE resolver (add_atoms, per-target add_atom, pmerge retry loop) with the fresh-resolver differential oracle; DEPEND-cycle universes (F7)",
 "C16-2": "same; earlier-class success + later-class failure with a lower fallback version (F8)",
 "C17-2": "blocker registered under a key different from its own (.key) added to the C17 event alphabet; limiters compared by key",
 "C18-1": "tolerated symlink-over-directory overlap: other entries judged in full; hardlink group split around such a symlink",
 "C24-1": "write-fault plans (ENOSPC / KeyboardInterrupt raised from the n-th write after half the data) added to the C24/C27/C28/C30 sweeps",
 "C25-1": "symlink whose name is a strict string prefix of a sibling name (/l1 vs /l10, /l1x/f) added to the C25 universe",
 "C27-1": "crash_after plans (die right after the rename, before the buffer is flushed) added to the engine and the sweeps",
 "C28-1": "files/ entries sharing a base name in different sub-directories added to the C28 permutation alphabet",
 "C28-2": "write-fault plans (exception during write) added",
 "C29-1": "vdb replace by a revision bump (pkg-1 -> pkg-1-r1 and back) scenarios added",
 "C29-2": "binpkg same-version replace within the same integer mtime second added (Packages cache hit)",
 "C30-2": "write-fault plans (exception during write) added",
 "C32-1": "pre-existing image states (regular file / symlink / directory at the target) for the dir-creating and file-installing helpers",
 "C32-2": "follow-up requests of recursive/symlink variants are themselves recursive and force the external fallback",
 "C33-2": "install options combining special mode bits with -o/-g added",
 "C34-1": "variable values dumped as $'...' that end in a backslash added",
 "C34-2": "same name list applied in both modes in both orders within one process; replay repeats the dump's whole call sequence",
 "C35-2": "daemon-side event 'nonfatal die -n' added to the model and the real-pair harness",
 "C36-1": "exit status class 'killed by a signal' (N<<8) added to the outcome alphabet",
 "C37-2": "two splittable axes whose count order and width order disagree; the judged axis is the documented (widest) one",
 "C38-2": "trailing blanks/tabs after the comment on rewritten lines",
 "C40-1": "repositories where a version carries a keyword absent from known_arches, requested via * and ^ (also exposed a genuine defect, fixed)",
 "C41-2": "timer firing as a bounded deviation of blocking calls with a timeout (sched engine)",
 "C43-2": "config-source histories: collapse, add_config_source, collapse again vs all sources up front",
 "C44-1": "names and glob tokens containing '.' and '+' in every glob position added to C44",
 "C45-2": "C45 replay re-creates the whole advisory directory; slotted/unslotted ranges with equal (op, version) in one directory in both orders",
 "C46-1": "repository variant with a USE-conditional fetch restriction",
 "C47-1": "failing follow-up sync (404/truncated/corrupt) after each interruption, then a final good sync",
 "C48-1": "two packages with the identical eclass set read through one tree instance with live package objects",
 "C48-2": "ebuild content edit that keeps the mtime (md5 backend) in quick; runner no longer lets non-reproducing candidates mask reproducing ones",
 "C49-1": "statements (unset-then-assign) after the nested inherit in the outer eclass and the 'inherit outer flat' shape",
 "C06-3": "caught by C07 (equal restrictions must match alike); C06 builds its trees uncached, so the instance-cache aliasing itself is outside C06's seam",
 "C10-4": "NOT caught and left so: needs prefer_true and force_false to overlap, which C10 excludes (forcing and preference sets are pairwise disjoint; no in-tree caller passes overlapping sets)",
 "C11-4": "user package.use lines of the shape 'plain flag, plain in-line -*, USE_EXPAND group' added to the C11 domain tier",
 "C12-3": "caught by C13 after adding a two-repository variant (each repository with its own license groups, filtered through one domain in both orders)",
 "C14-3": "attributes mixing group conditionals with transitive USE-dep atoms, a fresh raw package per history and a second configured view added to C14",
 "C17-4": "replace between equal-cpv packages from two repositories (x-1[vdb] -> x-1[source]) added to the C17 alphabet",
 "C19-3": "caught by C18 (stale '#new' sibling state); C19 excludes pre-existing '#new' paths by design",
 "C22-3": "three-step family add_missing_directories / removing operation / add_missing_directories added to C22 quick",
 "C22-4": "iterator/generator arguments naming one normalised path twice added to every binary operation of C22",
 "C29-3": "second generation: every acceptable post-crash state is a start state from which the operation is re-run under every fault plan",
 "C29-4": "NOT caught and left so: needs a category directory on a different filesystem than the repository root (cross-filesystem shutil.move); outside the alphabet",
 "C36-4": "fetcher without a separate resume command and an outcome that appends the next chunk to the partial file added to C36",
 "C42-4": "file-ending dimension (unterminated last line, extra blank line) added to C42",
 "C49-2": "exclusion of the implicit RDEPEND=DEPEND rule (EAPI 0-3) lifted: PMS is explicit that eclass DEPEND never enters it",
}
# strengthened late in the session: the author's own mutant_run verdict stands in until tools/recheck_seed.sh is re-run
AUTHOR_CONFIRMED = {"C31-3": "C31", "C31-4": "C31", "C32-3": "C32", "C32-4": "C32", "C33-3": "C33", "C33-4": "C33",
                    "C48-3": "C48", "C48-4": "C48", "C49-3": "C49"}
for d in sorted(glob.glob("/verif/seeded/*/")):
    sid = os.path.basename(d.rstrip("/"))
    st = {"confirmed": None, "caught_by": "?", "note": ""}
    c = os.path.join(d, "confirm.txt")
    if os.path.exists(c):
        t = open(c).read()
        demo_ok = "failed" in (re.search(r"demo_with_patch: (.*)", t) or [None, ""])[1] and "passed" in (re.search(r"demo_without_patch: (.*)", t) or [None, ""])[1]
        suite = (re.search(r"suite_with_patch: (.*)", t) or [None, ""])[1]
        suite_ok = "4 failed, 1661 passed" in suite
        st["confirmed"] = bool(demo_ok and suite_ok)
        st["demo_and_suite"] = {"demo_fails_with_patch_passes_without": demo_ok, "suite_with_patch": suite.strip("= ")}
        m = re.findall(r"check (C\d+) rc=(\d)", t)
        caught = [p for p, rc in m if rc == "1"]
        st["caught_by"] = ", ".join(caught) if caught else "— (missed by quick tier at confirmation time)"
    r = os.path.join(d, "recheck.txt")
    if os.path.exists(r):
        t = open(r).read()
        m = re.findall(r"== (C\d+) rc=(\d)", t)
        caught = [p for p, rc in m if rc == "1"]
        if caught:
            st["caught_by"] = ", ".join(caught) + " (after strengthening)"
    if sid in AUTHOR_CONFIRMED and st["caught_by"].startswith("—"):
        how = "tools/mutant_run.sh run by the check's author, rc=1"
        st["caught_by"] = AUTHOR_CONFIRMED[sid] + f" (after strengthening; {how} — not re-run centrally)"
    if sid in INITIALLY_MISSED:
        st["note"] = "initially missed; " + INITIALLY_MISSED[sid]
    json.dump(st, open(os.path.join(d, "status.json"), "w"), indent=1)
print("ok")
