#!/venv/bin/python
"""Derive seeded/<id>/status.json from confirm.txt (+ recheck.txt written by tools/recheck_seed.sh)."""
import glob, json, os, re
INITIALLY_MISSED = {  # seeded change -> what the check lacked (strengthening done afterwards)
 "C03-1": "glob atoms with explicit -r0/-r0N revisions + wider match universe added to C03",
 "C03-2": "multi-flag USE lists with a default on a non-last flag added to C03",
 "C04-2": "atom slot form with sub-slot equal to slot (:0/0) added to C04 quick",
 "C07-2": "incremental-build histories (partial node inspected, then completed) added to C07",
 "C08-2": "universe with versions whose string and version order differ added to C08 sorted/multiplex modes",
 "C13-1": "C13 replay re-evaluates the whole configuration in the same order (order-dependent defect now reproduces)",
 "C18-1": "tolerated symlink-over-directory overlap: other entries judged in full; hardlink group split around such a symlink",
 "C44-1": "names and glob tokens containing '.' and '+' in every glob position added to C44",
}
for d in sorted(glob.glob("/verif/seeded/*/")):
    sid = os.path.basename(d.rstrip("/"))
    st = {"confirmed": None, "caught_by": "?", "note": ""}
    c = os.path.join(d, "confirm.txt")
    if os.path.exists(c):
        t = open(c).read()
        demo_ok = "failed" in (re.search(r"demo_with_patch: (.*)", t) or [None, ""])[1] and "passed" in (re.search(r"demo_without_patch: (.*)", t) or [None, ""])[1]
        suite = (re.search(r"suite_with_patch: (.*)", t) or [None, ""])[1]
        suite_ok = "4 failed, 1661 passed" in suite
        st["confirmed"] = bool(demo_ok and suite_ok)
        st["demo_and_suite"] = {"demo_fails_with_patch_passes_without": demo_ok, "suite_with_patch": suite.strip("= ")}
        m = re.findall(r"check (C\d+) rc=(\d)", t)
        caught = [p for p, rc in m if rc == "1"]
        st["caught_by"] = ", ".join(caught) if caught else "— (missed by quick tier at confirmation time)"
    r = os.path.join(d, "recheck.txt")
    if os.path.exists(r):
        t = open(r).read()
        m = re.findall(r"== (C\d+) rc=(\d)", t)
        caught = [p for p, rc in m if rc == "1"]
        if caught:
            st["caught_by"] = ", ".join(caught) + " (after strengthening)"
    if sid in INITIALLY_MISSED:
        st["note"] = "initially missed; " + INITIALLY_MISSED[sid]
    json.dump(st, open(os.path.join(d, "status.json"), "w"), indent=1)
print("ok")
