#!/bin/bash
# tools/thorough_sweep.sh <Cnn>...  runs thorough tiers sequentially with evidence redirected; appends verdict lines to /tmp/thorough.log
for c in "$@"; do
  s=$(date +%s)
  out=$(cd /verif && VERIF_EVIDENCE_DIR=/dev/shm/verif-thorough/evidence VERIF_REPLAY_DIR=/dev/shm/verif-thorough/replays ./vcheck "$c" --tier thorough 2>&1); rc=$?
  { echo "== $c rc=$rc $(( $(date +%s) - s ))s"; echo "$out" | grep -E "^(VIOLATION|KNOWN-FINDING|C[0-9]+ tier|ERROR|ENGINE)" | cut -c1-300 | head -6; } >> /tmp/thorough.log
done
