"""Crash-point / torn-write sweep shared by the C24, C27, C28 and C30 checks.

One *scenario* is (prepare, op, observe):

    prepare()   rebuilds the pre-state below ``root`` from nothing (injector off)
    op()        the write under test (runs with the injector armed)
    observe()   a JSON-able observation of the resulting tree (injector off)

``sweep`` first records the fault-free run (numbering the mutating events), then
re-executes the scenario once per plan of ``faults.plans_for`` -- a crash just
before every mutating event, and a torn write for every open-for-write event --
each time from a freshly prepared pre-state, and returns every observation.

A *sentinel* mutating event (``os.utime`` of a file next to, not inside, the data
directory) is appended to op(): a write path that consists of one single
``open(path, "w")`` would otherwise have no "next mutating event" at which the
engine cuts a torn write, and an in-place rewrite would go unseen.
"""

import os
import re
import shutil

from verif.engines import faults

_warm = False


def warm(*modules):
    """import the code under test, then move everything alive to the permanent generation: the engine runs
    gc.collect() after every execution (so that __del__ clean-up happens while 'dead'), and a full collection
    over all of pkgcore's module objects costs ~12 ms; garbage created by the executions is still collected."""
    global _warm
    import gc
    import importlib

    for m in modules:
        importlib.import_module(m)
    if not _warm:
        gc.collect()
        gc.freeze()
        _warm = True


_PID = re.compile(r"\.update\.\d+\.")


def scrub(text):
    """process ids out of temp names, so that cases and messages do not depend on the worker"""
    return _PID.sub(".update.PID.", text)


class Scratch:
    """root/            injector scope, recreated by reset()
    root/d/          the data directory handed to the code under test
    root/sentinel    target of the sentinel event"""

    def __init__(self, base):
        self.root = os.path.join(base, "s")
        self.data = os.path.join(self.root, "d")
        self.sentinel = os.path.join(self.root, "sentinel")
        self.inj = faults.Injector(self.root)

    def reset(self):
        shutil.rmtree(self.root, ignore_errors=True)
        os.makedirs(self.data)
        with open(self.sentinel, "w"):
            pass


def _with_sentinel(scr, op):
    def fn():
        r = op()
        os.utime(scr.sentinel, (1, 1))
        return r

    return fn


def record(scr, prepare, op):
    """fault-free run: (status, value, events) -- events exclude the sentinel"""
    scr.reset()
    prepare()
    status, value, events = scr.inj.record(_with_sentinel(scr, op))
    if status == "ok":
        assert events and events[-1][0] == "os.utime", events
        events = events[:-1]
    return status, value, events


def run_plan(scr, prepare, op, plan):
    scr.reset()
    prepare()
    status, value = scr.inj.run(_with_sentinel(scr, op), tuple(plan) if plan else None)
    return status, value, list(scr.inj.events)


def plans(events):
    """crash before each event of the write path and before the sentinel (= after the complete
    write); torn write at each open-for-write event (the sentinel is its 'next event' if last)."""
    out = []
    n = len(events)
    for k in range(n + 1):
        out.append(("crash", k))
    for k in range(n):
        if faults.is_open_event(events[k]):
            out.append(("torn", k))
    return out


def describe(events, plan):
    kind, k = plan[0], plan[1]
    if k < len(events):
        ev = events[k]
        at = scrub(f"{ev[0]}({', '.join(str(a) for a in ev[1])})")
    else:
        at = "end-of-write"
    return f"{kind}@{k}:{at}"
