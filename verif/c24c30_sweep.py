"""Crash-point / torn-write sweep shared by the C24, C27, C28 and C30 checks.

One *scenario* is (prepare, op, observe):

    prepare()   rebuilds the pre-state below ``root`` from nothing (injector off)
    op()        the write under test (runs with the injector armed)
    observe()   a JSON-able observation of the resulting tree (injector off)

The check first records the fault-free run (numbering the mutating events and the
write()/writelines() calls), then re-executes the scenario once per plan of ``plans`` --
a crash just before every mutating event, a crash at the first Python line after every
rename/link/symlink (engine plan ``crash_after``), a torn write for every open-for-write
event, and every write call failing half-way with ENOSPC resp. KeyboardInterrupt while the
process stays alive -- each time from a freshly prepared pre-state.

A *sentinel* mutating event (``os.utime`` of a file next to, not inside, the data
directory) is appended to op(): a write path that consists of one single
``open(path, "w")`` would otherwise have no "next mutating event" at which the
engine cuts a torn write, and an in-place rewrite would go unseen.
"""

import os
import re
import shutil

from verif.engines import faults

_warm = False


def warm(*modules):
    """import the code under test, then move everything alive to the permanent generation: the engine runs
    gc.collect() after every execution (so that __del__ clean-up happens while 'dead'), and a full collection
    over all of pkgcore's module objects costs ~12 ms; garbage created by the executions is still collected."""
    global _warm
    import gc
    import importlib

    for m in modules:
        importlib.import_module(m)
    if not _warm:
        gc.collect()
        gc.freeze()
        _warm = True


_PID = re.compile(r"\.update\.\d+\.")


def scrub(text):
    """process ids out of temp names, so that cases and messages do not depend on the worker"""
    return _PID.sub(".update.PID.", text)


class Scratch:
    """root/            injector scope, recreated by reset()
    root/d/          the data directory handed to the code under test
    root/sentinel    target of the sentinel event"""

    def __init__(self, base):
        self.root = os.path.join(base, "s")
        self.data = os.path.join(self.root, "d")
        self.sentinel = os.path.join(self.root, "sentinel")
        self.inj = faults.Injector(self.root)

    def reset(self):
        shutil.rmtree(self.root, ignore_errors=True)
        os.makedirs(self.data)
        with open(self.sentinel, "w"):
            pass


def _with_sentinel(scr, op):
    def fn():
        r = op()
        os.utime(scr.sentinel, (1, 1))
        return r

    return fn


# -- write faults: the n-th write()/writelines() on a file the code opened for writing below the scope fails --------
#
# A crash cannot show "an exception during the write commits a partial file" (close()/rename in a finally: or in a
# contextlib.closing()): that needs the *code's own error path* to run.  The seam is builtins.open: every file opened
# for writing below the scratch root is handed out as a thin proxy that counts write calls and, when armed, writes
# half of the n-th call's data and raises OSError(ENOSPC) or KeyboardInterrupt.  The process stays alive.

WRITE_FAULTS = ("write_enospc", "write_kbi")


class _WriteProxy:
    def __init__(self, fobj, ctl):
        object.__setattr__(self, "_f", fobj)
        object.__setattr__(self, "_ctl", ctl)

    def __getattr__(self, name):
        return getattr(self._f, name)

    def __setattr__(self, name, value):
        setattr(self._f, name, value)

    def __enter__(self):
        return self

    def __exit__(self, *exc):
        self._f.close()

    def __iter__(self):
        return iter(self._f)

    def _hit(self, data):
        ctl = self._ctl
        idx = ctl.nwrites
        ctl.nwrites += 1
        if ctl.fail_at is not None and idx == ctl.fail_at and not ctl.fired:
            ctl.fired = True
            self._f.write(data[: len(data) // 2])
            if ctl.kind == "write_kbi":
                raise KeyboardInterrupt("injected during write")
            import errno

            raise OSError(errno.ENOSPC, os.strerror(errno.ENOSPC) + " (injected)")

    def write(self, data):
        self._hit(data)
        return self._f.write(data)

    def writelines(self, lines):
        lines = list(lines)
        if lines:
            self._hit(lines[0][:0].join(lines))
        else:
            self._hit("")
        return self._f.writelines(lines)


class write_seam:
    """context manager: builtins.open hands out counting/failing proxies for writes below root"""

    def __init__(self, root, fail_at=None, kind=None):
        self.root = os.path.realpath(root)
        self.fail_at = fail_at
        self.kind = kind
        self.nwrites = 0
        self.fired = False

    def __enter__(self):
        import builtins

        self._real = real = builtins.open
        ctl = self

        def _open(file, mode="r", *a, **kw):
            f = real(file, mode, *a, **kw)
            try:
                if isinstance(mode, str) and any(c in mode for c in "wxa+") and isinstance(file, (str, bytes, os.PathLike)):
                    p = os.fspath(file)
                    if isinstance(p, bytes):
                        p = p.decode("utf8", "replace")
                    if os.path.abspath(p).startswith(ctl.root + "/"):
                        return _WriteProxy(f, ctl)
            except Exception:
                pass
            return f

        builtins.open = _open
        return self

    def __exit__(self, *exc):
        import builtins

        builtins.open = self._real


def record(scr, prepare, op):
    """fault-free run: (status, value, events) -- events exclude the sentinel. Also numbers the write()/writelines()
    calls on files opened for writing below the scope (scr.nwrites)."""
    scr.reset()
    prepare()
    with write_seam(scr.root) as seam:
        status, value, events = scr.inj.record(_with_sentinel(scr, op))
    scr.nwrites = seam.nwrites
    if status == "ok":
        assert events and events[-1][0] == "os.utime", events
        events = events[:-1]
    return status, value, events


def run_plan(scr, prepare, op, plan):
    """-> (status, value, events); status 'crashed' (crash/torn/crash_after fired), 'faulted' (write fault fired;
    the code's own error handling ran), else 'ok'/'raised' = the plan did not fire"""
    scr.reset()
    prepare()
    if plan and plan[0] in WRITE_FAULTS:
        import gc

        status, value = "ok", None
        with write_seam(scr.root, fail_at=plan[1], kind=plan[0]) as seam:
            try:
                value = op()
            except KeyboardInterrupt as e:
                status, value = "interrupted", e
            except Exception as e:
                status, value = "raised", e
        value = repr(value)
        gc.collect()  # the process is alive: pending __del__ clean-up is legitimate
        return ("faulted" if seam.fired else status), value, []
    status, value = scr.inj.run(_with_sentinel(scr, op), tuple(plan) if plan else None)
    return status, value, list(scr.inj.events)


def rerun(op):
    """a later fault-free run of the same operation (recovery); errors of the operation itself are tolerated,
    the caller judges the resulting state"""
    import gc

    try:
        op()
    except Exception:
        pass
    gc.collect()


def plans(events, nwrites=0):
    """crash before each event of the write path and before the sentinel (= after the complete write); crash right
    after each publishing operation (rename/link/symlink: the first Python line after it returns); torn write at each
    open-for-write event (the sentinel is its 'next event' if last); for each write call index of the fault-free run,
    that call failing half-way with ENOSPC and with KeyboardInterrupt."""
    out = []
    n = len(events)
    for k in range(n + 1):
        out.append(("crash", k))
    for k in range(n):
        if events[k][0] in ("os.rename", "os.link", "os.symlink"):
            out.append(("crash_after", k))
    for k in range(n):
        if faults.is_open_event(events[k]):
            out.append(("torn", k))
    for k in range(nwrites):
        for kind in WRITE_FAULTS:
            out.append((kind, k))
    return out


def fired(status):
    return status in ("crashed", "faulted")


def plan_class(events, plan):
    """short name of the fault for outcome classes"""
    if plan[0] in WRITE_FAULTS:
        return plan[0]
    ev = events[plan[1]][0] if plan[1] < len(events) else "end"
    return f"{plan[0]}@{ev}"


def describe(events, plan):
    kind, k = plan[0], plan[1]
    if kind in WRITE_FAULTS:
        return f"{kind}: write call #{k} fails half-way with {'ENOSPC' if kind == 'write_enospc' else 'KeyboardInterrupt'}"
    if k < len(events):
        ev = events[k]
        at = scrub(f"{ev[0]}({', '.join(str(a) for a in ev[1])})")
    else:
        at = "end-of-write"
    return f"{kind}@{k}:{at}"
