"""C01 version comparison = PMS algorithm, total preorder, operator restrictions agree."""

import itertools

from verif import ref

PROPERTY = "C01"
LEVEL = "exploration"
RULE = (
    "all ordered pairs of a grammar-generated version universe (first component, later components with/without "
    "leading zeros, letter, stacked suffixes with/without numbers, revisions incl. r0/r00/r01, 20-digit runs) compared "
    "through cpv.ver_cmp (revisions passed as Revision objects, as plain str, mixed, and '' for none), VersionedCPV operators, atom comparison and VersionMatch for every operator against a "
    "transcription of PMS Algorithms 3.1-3.7; all triples of a sub-universe for transitivity. A class is "
    "(deciding PMS step, leading-zero involvement, sign); distinct_nontrivial counts classes observed."
)
ASSUMPTIONS = [
    "versions outside the generated grammar shapes (more than 2 later components / 2 suffixes, digit runs other than the 20-digit tokens) are not covered",
]
BOUNDS = {
    "quick": "universe ~600 versions -> all ordered pairs; triples over a ~110-version sub-universe",
    "thorough": "universe ~4000 versions -> all ordered pairs; triples over a ~300-version sub-universe",
}

LONG = "12345678901234567890"
LONG0 = "01234567890123456789"
OPS = ("<", "<=", "=", ">=", ">", "~")


def universe(tier):
    if tier == "quick":
        firsts = ["0", "00", "1", "01", "9", "09", "10", "010", LONG]
        laters = ["0", "00", "1", "01", "10", "010", "9", "09", "100", LONG0]
        letters = ["", "a", "b", "z"]
        sufs = ["_alpha", "_alpha0", "_alpha1", "_beta", "_beta2", "_pre", "_pre1", "_rc", "_rc0", "_p", "_p0", "_p1", "_p10"]
        revs = ["", "-r0", "-r00", "-r1", "-r01", "-r10"]
        out = []
        # numeric shapes
        nums = [(f,) for f in firsts] + [(f, l) for f in ["1", "01", "10"] for l in laters]
        nums += [("1", "0", l) for l in ["1", "01", "10"]]
        for n in nums:
            out.append(".".join(n))
        base = ["1", "01", "1.0", "1.1", "1.01", "1.10"]
        for b in base:
            for l in letters[1:]:
                out.append(b + l)
        for b in ["1", "1.0", "1a", "01"]:
            for s in sufs:
                out.append(b + s)
        for s1, s2 in itertools.product(["_alpha", "_beta1", "_rc", "_p", "_p1"], ["_alpha", "_pre", "_p", "_p0", "_p2"]):
            out.append("1" + s1 + s2)
        vers = list(dict.fromkeys(out))
        full = []
        for v in vers:
            full.append(v)
        for v in ["1", "01", "1.0", "1.00", "1a", "1_p", "1_p0", "1_alpha", "2", "10", LONG]:
            for r in revs[1:]:
                full.append(v + r)
        return list(dict.fromkeys(full))
    firsts = ["0", "00", "1", "01", "2", "9", "09", "10", "010", "100", LONG, LONG0]
    laters = ["0", "00", "1", "01", "10", "010", "9", "09", "100", "2", "20", "02", LONG0, LONG]
    letters = ["", "a", "b", "z"]
    sufs = ["_alpha", "_alpha0", "_alpha1", "_beta", "_beta2", "_pre", "_pre1", "_rc", "_rc0", "_p", "_p0", "_p1", "_p10"]
    revs = ["", "-r0", "-r00", "-r1", "-r01", "-r10", "-r9"]
    nums = [(f,) for f in firsts] + [(f, l) for f in ["0", "1", "01", "10"] for l in laters]
    nums += [(f, l1, l2) for f in ["1"] for l1 in ["0", "1", "01", "10"] for l2 in ["0", "1", "01", "10", "9", "09"]]
    vers = []
    for n in nums:
        vers.append(".".join(n))
    nbase = ["1", "01", "1.0", "1.1", "1.01", "1.10", "1.0.1", "10"]
    for b in nbase:
        for l in letters[1:]:
            vers.append(b + l)
    sbase = ["1", "1.0", "1a", "01", "1.01", "1.1b"]
    for b in sbase:
        for s in sufs:
            vers.append(b + s)
    for b in ["1", "1.0a"]:
        for s1, s2 in itertools.product(sufs, sufs):
            vers.append(b + s1 + s2)
    vers = list(dict.fromkeys(vers))
    full = list(vers)
    rbase = ["1", "01", "1.0", "1.00", "1a", "1_p", "1_p0", "1_alpha", "2", "10", LONG, "1.01", "1.1", "1_alpha_p", "1_rc1"]
    for v in rbase:
        for r in revs[1:]:
            full.append(v + r)
    # a revision on every 7th version
    for i, v in enumerate(vers):
        if i % 7 == 0:
            full.append(v + "-r1")
        if i % 11 == 0:
            full.append(v + "-r02")
    return list(dict.fromkeys(full))


def sub_universe(tier):
    u = universe("quick")
    n = 110 if tier == "quick" else 300
    # spread deterministically, keep the interesting head
    step = max(1, len(u) // n)
    sel = u[::step][:n]
    must = ["1", "01", "09", "9", "10", "010", "1.0", "1.00", "1.1", "1.01", "1.10", "1.010", "1a", "1_alpha", "1_alpha0", "1_p", "1_p0", "1-r0", "1-r1", "1-r01", "1-r10", "1_alpha_p", "1_p_alpha"]
    return list(dict.fromkeys(must + sel))[: n + len(must)]


CHUNK = 25


def tasks(tier):
    u = universe(tier)
    out = [("pairs", tier, i, min(i + CHUNK, len(u))) for i in range(0, len(u), CHUNK)]
    s = sub_universe(tier)
    tc = 4 if tier == "quick" else 3
    out += [("triples", tier, i, min(i + tc, len(s))) for i in range(0, len(s), tc)]
    return out


def decider(fa, fb):
    """Which PMS step decides (for outcome classification only)."""
    a1, ar, al, asf, arev = ref.parse_version(fa)
    b1, br, bl, bsf, brev = ref.parse_version(fb)
    lz = "lz1" if (a1[0] == "0" and len(a1) > 1) or (b1[0] == "0" and len(b1) > 1) else ""
    if int(a1) != int(b1):
        return "first" + lz
    for x, y in zip(ar, br):
        if x[0] == "0" or y[0] == "0":
            if x.rstrip("0") != y.rstrip("0"):
                return "later-str" + lz
        elif int(x) != int(y):
            return "later-int" + lz
    if len(ar) != len(br):
        return "ncomp" + lz
    if al != bl:
        return "letter" + lz
    for (sa, na), (sb, nb) in zip(asf, bsf):
        if sa != sb:
            return "sufname" + lz
        if int(na or 0) != int(nb or 0):
            return "sufnum" + lz
    if len(asf) != len(bsf):
        return "suflen" + lz
    if int(arev or 0) != int(brev or 0):
        return "rev" + lz
    return ("equal-spelled-differently" if fa != fb else "identical") + lz


_objs = {}


def _cpv(fv):
    from pkgcore.ebuild.cpv import VersionedCPV

    o = _objs.get(fv)
    if o is None:
        o = _objs[fv] = VersionedCPV("cat/pkg-" + fv)
    return o


def check_pair(fa, fb):
    """Return list of violation messages for the ordered pair."""
    from pkgcore.ebuild import cpv as cpvmod
    from pkgcore.ebuild.restricts import VersionMatch

    msgs = []
    A, B = _cpv(fa), _cpv(fb)
    exp = ref.pms_ver_cmp(fa, fb)
    got = cpvmod.ver_cmp(A.version, A.revision, B.version, B.revision)
    if got != exp:
        msgs.append(f"ver_cmp({fa},{fb})={got} PMS={exp}")
    back = cpvmod.ver_cmp(B.version, B.revision, A.version, A.revision)
    if back != -got:
        msgs.append(f"antisymmetry: ver_cmp({fa},{fb})={got} but ver_cmp({fb},{fa})={back}")
    # ver_cmp's documented signature takes plain-str revisions (None/"" = no revision): same verdict required,
    # also with one side a Revision object and the other a plain str
    sra, srb = (A.revision.data or None), (B.revision.data or None)
    for la, ra, rb in (("str,str", sra, srb), ("str,Revision", sra, B.revision), ("Revision,str", A.revision, srb),
                       ("''-for-none", sra or "", srb or "")):
        g = cpvmod.ver_cmp(A.version, ra, B.version, rb)
        if g != exp:
            msgs.append(f"ver_cmp({fa},{fb}) with revisions passed as {la} = {g} PMS={exp}")
    ops = {"<": exp < 0, "<=": exp <= 0, "=": exp == 0, ">=": exp >= 0, ">": exp > 0}
    obs = {"<": A < B, "<=": A <= B, "=": A == B, ">=": A >= B, ">": A > B}
    if obs != ops:
        msgs.append(f"VersionedCPV operators {fa} vs {fb}: got {obs} expected {ops}")
    if (A != B) != (exp != 0):
        msgs.append(f"VersionedCPV != for {fa},{fb}")
    # restriction "op B" applied to package A
    bver, brev = B.version, B.revision
    for op in ("<", "<=", "=", ">=", ">"):
        r = VersionMatch(op, bver, brev if brev else None)
        m = bool(r.match(A))
        if m != ops[op]:
            msgs.append(f"VersionMatch({op}{fb}).match({fa})={m} PMS={ops[op]}")
        rn = VersionMatch(op, bver, brev if brev else None, negate=True)
        mn = bool(rn.match(A))
        if mn != (not ops[op]):
            msgs.append(f"VersionMatch({op}{fb},negate).match({fa})={mn} PMS={not ops[op]}")
    if not brev:
        exp_t = ref.pms_ver_cmp(fa, fb, ignore_rev=True) == 0
        m = bool(VersionMatch("~", bver).match(A))
        if m != exp_t:
            msgs.append(f"VersionMatch(~{fb}).match({fa})={m} PMS={exp_t}")
    return msgs


def check_triple(fa, fb, fc, cmpf):
    ab, bc, ac = cmpf(fa, fb), cmpf(fb, fc), cmpf(fa, fc)
    if ab <= 0 and bc <= 0 and not ac <= 0:
        return [f"transitivity: {fa}<={fb}<={fc} but cmp({fa},{fc})={ac}"]
    if ab == 0 and bc == 0 and ac != 0:
        return [f"transitivity of equality: {fa}=={fb}=={fc} but cmp({fa},{fc})={ac}"]
    return []


def work(task):
    from pkgcore.ebuild import cpv as cpvmod

    kind, tier, lo, hi = task
    evals = 0
    classes = {}
    viol = []
    samples = []
    if kind == "pairs":
        u = universe(tier)
        for i in range(lo, hi):
            fa = u[i]
            for fb in u:
                evals += 1
                msgs = check_pair(fa, fb)
                k = decider(fa, fb) + ":" + str(ref.pms_ver_cmp(fa, fb))
                classes[k] = classes.get(k, 0) + 1
                if msgs:
                    viol.append({"kind": "pair", "a": fa, "b": fb, "msg": msgs[0]})
        samples = [[u[lo], u[(lo * 7 + 3) % len(u)]]]
    else:
        s = sub_universe(tier)
        cache = {}

        def cmpf(x, y):
            r = cache.get((x, y))
            if r is None:
                X, Y = _cpv(x), _cpv(y)
                r = cache[(x, y)] = cpvmod.ver_cmp(X.version, X.revision, Y.version, Y.revision)
            return r

        for i in range(lo, hi):
            for fb in s:
                for fc in s:
                    evals += 1
                    msgs = check_triple(s[i], fb, fc, cmpf)
                    if msgs:
                        viol.append({"kind": "triple", "a": s[i], "b": fb, "c": fc, "msg": msgs[0]})
        classes["triples-checked"] = 1
        samples = [[s[lo], s[1], s[2]]]
    return {"evals": evals, "classes": classes, "viol": viol, "samples": samples}


def replay(case):
    from pkgcore.ebuild import cpv as cpvmod

    if case["kind"] == "pair":
        return check_pair(case["a"], case["b"])

    def cmpf(x, y):
        X, Y = _cpv(x), _cpv(y)
        return cpvmod.ver_cmp(X.version, X.revision, Y.version, Y.revision)

    return check_triple(case["a"], case["b"], case["c"], cmpf)


def _first_lz(case):
    """Known defect (now fixed; kept as classifier for documentation): the two versions differ in the first numeric
    component and at least one first component has a leading zero."""
    vs = [case["a"], case["b"]] + ([case["c"]] if "c" in case else [])
    firsts = [ref.parse_version(v)[0] for v in vs]
    return any(len(f) > 1 and f[0] == "0" for f in firsts) and len({int(f) for f in firsts}) > 1 or (
        any(len(f) > 1 and f[0] == "0" for f in firsts) and len(set(firsts)) > 1
    )


CLASSIFIERS = {"first-component-leading-zero": _first_lz}
