"""C02 equality, ordering and hashing of package versions (CPV) and dependency atoms agree."""

import itertools

from verif import ref

PROPERTY = "C02"
LEVEL = "exploration"
ENGINE = "enum"
TECHNIQUE = "exhaustive pairwise (and triple-wise) evaluation of all six comparison operators, hash and set/sort behaviour of real CPV and atom objects"
RULE = (
    "all unordered pairs (both directions evaluated) of a CPV universe (4 keys x versions spelled differently but "
    "PMS-equal: 1.0/1.00, 01/1, 1.01/1.010, _alpha/_alpha0, absent/-r0/-r00/-r1/-r01) and of an atom universe (product "
    "of operator+version x slot/sub-slot/slot-operator x ::repo x USE deps incl. reordered x blocker strength, plus "
    "negate_vers variants) and of cross-key universes whose 42 keys are 7 categories x 6 package names that are proper "
    "prefixes of one another continued by '-', '+', '.', digit, '_' or letter (a, a-b, a+b, a.b, a1, a_b, ab / x, x-y, "
    "x+, x1, x_y, xy); each of ==, !=, <, <=, >, >= is called on the real objects in both directions: x==y => equal hashes, neither < nor >, both <= and >=; x!=y => exactly one "
    "of <, >; != is the negation of ==; <= is (< or ==); >= is (> or ==); x<y <=> y>x; {x,y}, min/max and sorted() agree; across packages (and for CPV versions) all six operators "
    "agree with the reference order (category, then package name, then PMS version); all "
    "ordered triples of sub-universes: < transitive, == transitive, incomparability transitive, and all six "
    "permutations of a pairwise-consistent triple sort to element-wise equal lists that are chains under <, <=, >, >=. A class is (kind, attributes in "
    "which the pair differs, observed ==/</> outcome); distinct_nontrivial counts classes observed."
)
ASSUMPTIONS = [
    "Excl: versioned-vs-unversioned CPV pairs (ordering raises TypeError by design)",
    "Excl: comparisons between a CPV/atom and objects of other types",
    "only the attribute menus listed in BOUNDS; atoms are built with no EAPI restriction",
    "reference order: objects of different packages order by category then package name as plain strings (what CPV's "
    "operators and atom.__cmp__ document); CPVs of one package order by PMS version (ref.pms_ver_cmp); atoms of one "
    "package are only required to be mutually consistent",
    "triples are checked over sub-universes only; the sort check is applied to triples whose three pairs already "
    "satisfy the pair oracle (inconsistent pairs are reported by the pair check itself)",
]
BOUNDS = {
    "quick": "CPV: 4 keys x 28 version spellings x 6 revision spellings + unversioned + 3-arg forms (679) -> all pairs; "
    "atoms: 2931 atoms of one key -> all pairs (4.3M); cross-key: 708 atoms over 44 keys and 210 CPVs over 42 "
    "prefix-related keys -> all pairs; all ordered triples over 83 CPVs and 144 atoms of one key and over 84 CPVs and 84 "
    "atoms spread over the 42 prefix-related keys",
    "thorough": "CPV: 4 keys x 50 version spellings x 8 revision spellings (1607) -> all pairs; atoms: 7047 atoms of one "
    "key (12 op+version x 8 slot parts x 3 repos x 8 USE x 3 blockers + negate_vers variants) -> all pairs (24.8M); "
    "cross-key pairs and key triples as in quick; all ordered triples over 126 CPVs and 288 atoms of one key",
}

TIME_CAP = {"thorough": 840}
LONG = "12345678901234567890"

# ---------------------------------------------------------------- CPV universe
CPV_KEYS = [("a", "x"), ("a", "y"), ("b", "x"), ("a", "x-y")]
CPV_VERS_Q = [
    "0", "00", "0.0", "1", "01", "1.0", "1.00", "1.000", "1.01", "1.010", "1.1", "1.10", "1.1.0", "2", "10", "010",
    "1a", "1.0a", "1_alpha", "1_alpha0", "1_alpha00", "1_alpha1", "1_alpha01", "1_p", "1_p0", "1_rc_p", "1_rc0_p0",
    "1.00_beta02",
]  # fmt: skip
CPV_VERS_T = CPV_VERS_Q + [
    "1.0_beta2", "1.0.0", "1.00.0", "1.0.00", "001", "1.001", "1.0010", "1.100", "1b", "01a", "1_beta", "1_beta0",
    "1_pre", "1_pre00", "1_rc", "1_rc0", "1_p1", "1_p01", "1_alpha_alpha", "1_alpha0_alpha00", LONG, "0" + LONG,
]  # fmt: skip
CPV_REVS_Q = ["", "-r0", "-r00", "-r1", "-r01", "-r10"]
CPV_REVS_T = CPV_REVS_Q + ["-r000", "-r010"]


def cpv_universe(tier):
    vers = CPV_VERS_Q if tier == "quick" else CPV_VERS_T
    revs = CPV_REVS_Q if tier == "quick" else CPV_REVS_T
    out = []
    for (c, p) in CPV_KEYS:
        out.append({"c": c, "p": p, "v": None})
    for v, r, (c, p) in itertools.product(vers, revs, CPV_KEYS):
        out.append({"c": c, "p": p, "v": v + r})
    # a few built through the three-argument constructor and the plain CPV class
    for v in ("1.0", "1.00-r0", "1_alpha0"):
        out.append({"c": "a", "p": "x", "v": v, "f": "3"})
    return out


def cpv_sub_universe(tier):
    vers = ["1", "01", "1.0", "1.00", "1.01", "1.010", "1.1", "1a", "1_alpha", "1_alpha0", "1_p", "1_p0", "2", "10"]
    revs = ["", "-r0", "-r00", "-r1", "-r01"]
    out = [{"c": "a", "p": "x", "v": v + r} for v in vers for r in revs]
    out += [{"c": c, "p": p, "v": v} for (c, p) in CPV_KEYS[1:] for v in ("1.0", "1.00", "2")]
    out += [{"c": c, "p": p, "v": None} for (c, p) in CPV_KEYS]
    if tier != "quick":
        out += [{"c": "a", "p": "x", "v": v + r} for v in ("1.000", "1.10", "1_rc_p", "1_rc0_p0", "0", "00") for r in revs + ["-r10"]]
        out += [{"c": "a", "p": "y", "v": v} for v in ("1", "01", "1-r0", "1-r1", "1-r01", "1_p", "1_p0")]
    return out


def build_cpv(d):
    from pkgcore.ebuild import cpv

    if d["v"] is None:
        return cpv.UnversionedCPV(f"{d['c']}/{d['p']}")
    if d.get("f") == "3":
        return cpv.CPV(d["c"], d["p"], d["v"])
    return cpv.VersionedCPV(f"{d['c']}/{d['p']}-{d['v']}")


def cpv_text(d):
    return f"{d['c']}/{d['p']}" + ("" if d["v"] is None else "-" + d["v"])


def cpv_diff(a, b):
    dims = set()
    if a["c"] != b["c"]:
        dims.add("category")
    if a["p"] != b["p"]:
        dims.add("package")
    if a["v"] != b["v"]:
        if a["v"] is None or b["v"] is None:
            dims.add("versionedness")
        else:
            dims.add("verspell" if ref.pms_ver_cmp(a["v"], b["v"]) == 0 else "ver")
    return dims


# ---------------------------------------------------------------- atom universe
A_SLOTS = ["", ":0", ":1", ":0/a", ":0/b", ":0=", ":=", ":*"]
A_REPOS = ["", "::r1", "::r2"]
A_USES = ["", "[x]", "[x,y]", "[y,x]", "[-x]", "[x(+)]", "[x?]", "[!x=]"]
A_BLOCKS = ["", "!", "!!"]
A_OPV_T = [
    ("", ""), ("=", "1"), ("=", "1.0"), ("=", "1.00-r0"), ("=", "2"), ("~", "1"), ("~", "1.0"), (">=", "1"),
    (">=", "1.00-r0"), ("<", "1"), ("=*", "1"), ("=*", "1.0"),
]  # fmt: skip
A_OPV_Q = [("", ""), ("=", "1"), ("=", "1.0"), ("=", "1.00-r0"), (">=", "1.0"), ("=*", "1.0")]


def _ad(k, opv, s="", r="", u="", b="", n=0):
    return {"k": k, "o": opv[0], "v": opv[1], "s": s, "r": r, "u": u, "b": b, "n": n}


def atom_universe(tier):
    out = []
    if tier == "quick":
        for opv, s, r, u, b in itertools.product(A_OPV_Q, A_SLOTS, A_REPOS, ["", "[x]", "[x,y]", "[y,x]", "[-x]", "[x?]"], A_BLOCKS):
            out.append(_ad("a/x", opv, s, r, u, b))
        # every remaining menu value, varied alone and together with each slot part / blocker on a few bases
        for opv in A_OPV_T:
            for s, b in itertools.product(A_SLOTS, A_BLOCKS):
                out.append(_ad("a/x", opv, s, "", "", b))
        for opv in (("", ""), ("=", "1.0")):
            for s, r, u in itertools.product(["", ":0/a", ":0="], A_REPOS, A_USES):
                out.append(_ad("a/x", opv, s, r, u, ""))
    else:
        for opv, s, r, u, b in itertools.product(A_OPV_T, A_SLOTS, A_REPOS, A_USES, A_BLOCKS):
            out.append(_ad("a/x", opv, s, r, u, b))
    # negate_vers variants
    for opv in (("=", "1"), ("=", "1.0"), ("=", "1.00-r0"), (">=", "1"), ("~", "1")):
        for s, u, b in itertools.product(["", ":0/a", ":0/b"], ["", "[x,y]", "[y,x]"], A_BLOCKS):
            out.append(_ad("a/x", opv, s, "", u, b, 1))
    seen = {}
    for d in out:
        seen.setdefault(atom_text(d) + "|" + str(d["n"]), d)
    return list(seen.values())


# categories / package names that are proper prefixes of one another, continued by a character that sorts before
# '/' ('-', '+', '.') or after it (digit, letter, '_'): 'a/x' vs 'a-b/x' order differently as (category, package)
# pairs and as 'cat/pkg' strings, so a shortcut comparing the joined key is visible only on such pairs
PREFIX_CATS = ["a", "a-b", "a+b", "a.b", "a1", "a_b", "ab"]
PREFIX_PKGS = ["x", "x-y", "x+", "x1", "x_y", "xy"]
PREFIX_KEYS = [(c, p) for c in PREFIX_CATS for p in PREFIX_PKGS]


def atom_cross_universe(tier):
    out = []
    for k in ("a/x", "a/y", "b/x"):
        for opv, s, u, b in itertools.product([("", ""), ("=", "1.0"), ("=", "1.00"), (">=", "2")], ["", ":0/a", ":0/b"], ["", "[x,y]", "[y,x]"], ["", "!"]):
            out.append(_ad(k, opv, s, "", u, b))
    for c, p in PREFIX_KEYS:
        for opv, s, b in itertools.product([("", ""), ("=", "1.0"), ("=", "1.00")], ["", ":0/a"], ["", "!"]):
            out.append(_ad(f"{c}/{p}", opv, s, "", "", b))
    seen = {}
    for d in out:
        seen.setdefault(atom_text(d), d)
    return list(seen.values())


def atom_keys_sub_universe(tier):
    return [_ad(f"{c}/{p}", opv) for c, p in PREFIX_KEYS for opv in (("", ""), ("=", "1.0"))]


def cpv_cross_universe(tier):
    out = [{"c": c, "p": p, "v": None} for c, p in PREFIX_KEYS]
    out += [{"c": c, "p": p, "v": v} for c, p in PREFIX_KEYS for v in ("1.0", "1.00", "2", "1.0-r1")]
    return out


def cpv_keys_sub_universe(tier):
    return [{"c": c, "p": p, "v": v} for c, p in PREFIX_KEYS for v in ("1.0", "1.00")]


def atom_sub_universe(tier):
    opv = [("", ""), ("=", "1.0"), ("=", "1.00-r0"), (">=", "1.0")]
    slots = ["", ":0/a", ":0/b", ":0="]
    uses = ["", "[x,y]", "[y,x]"]
    repos = ["", "::r1"] if tier != "quick" else [""]
    out = [_ad("a/x", o, s, r, u, b) for o, s, r, u, b in itertools.product(opv, slots, repos, uses, A_BLOCKS)]
    return out


def atom_text(d):
    o = d["o"]
    star = ""
    if o == "=*":
        o, star = "=", "*"
    ver = "-" + d["v"] if d["v"] else ""
    return f"{d['b']}{o}{d['k']}{ver}{star}{d['s']}{d['r']}{d['u']}"


def build_atom(d):
    from pkgcore.ebuild.atom import atom

    if d["n"]:
        return atom(atom_text(d), negate_vers=True)
    return atom(atom_text(d))


def _slot_parts(s):
    """':0/a=' -> (slot, subslot, operator) by plain string surgery."""
    if not s:
        return (None, None, None)
    body = s[1:]
    if body in ("*", "="):
        return (None, None, body)
    op = None
    if body.endswith("="):
        op, body = "=", body[:-1]
    slot, _, sub = body.partition("/")
    return (slot, sub or None, op)


def atom_diff(a, b):
    dims = set()
    if a["k"] != b["k"]:
        dims.add("key")
    if a["o"] != b["o"]:
        dims.add("op")
    if a["v"] != b["v"]:
        if a["v"] and b["v"] and ref.pms_ver_cmp(a["v"], b["v"]) == 0:
            dims.add("verspell")
        else:
            dims.add("ver")
    sa, sb = _slot_parts(a["s"]), _slot_parts(b["s"])
    for name, x, y in zip(("slot", "sub", "slotop"), sa, sb):
        if x != y:
            dims.add(name)
    if a["r"] != b["r"]:
        dims.add("repo")
    if a["u"] != b["u"]:
        fa, fb = sorted(a["u"][1:-1].split(",")), sorted(b["u"][1:-1].split(","))
        dims.add("useorder" if fa == fb else "use")
    if a["b"] != b["b"]:
        dims.add("strength" if a["b"] and b["b"] else "block")
    if a["n"] != b["n"]:
        dims.add("negate")
    return dims


def _sign(a, b):
    return (a > b) - (a < b)


def cpv_ref_sign(a, b):
    """Reference order of two comparable CPVs: category, then package (plain string order), then PMS version."""
    if (a["c"], a["p"]) != (b["c"], b["p"]):
        return _sign((a["c"], a["p"]), (b["c"], b["p"]))
    if a["v"] is None or b["v"] is None:
        return 0 if a["v"] == b["v"] else None
    return ref.pms_ver_cmp(a["v"], b["v"])


def atom_ref_sign(a, b):
    """Atoms of different packages order by category, then package name; within one package only consistency is required."""
    if a["k"] == b["k"]:
        return None
    return _sign(tuple(a["k"].split("/")), tuple(b["k"].split("/")))


REF_SIGN = {"cpv": cpv_ref_sign, "atom": atom_ref_sign}

KINDS = {
    "cpv": (build_cpv, cpv_text, cpv_diff),
    "atom": (build_atom, atom_text, atom_diff),
}


# ---------------------------------------------------------------- the oracle
def _rel(x, y):
    return (x == y, x != y, x < y, x <= y, x > y, x >= y)


def pair_rules(x, y, refsign=None):
    """Names of the consistency rules the ordered pair (x, y) [and its mirror (y, x)] breaks, with the observations.
    Each of the six operators is called on the real objects in both directions; nothing is derived from a cmp()."""
    eq, ne, lt, le, gt, ge = (bool(v) for v in _rel(x, y))
    req, rne, rlt, rle, rgt, rge = (bool(v) for v in _rel(y, x))
    rules = []
    if ne != (not eq) or rne != (not req):
        rules.append("ne-not-negation")
    if eq != req:
        rules.append("eq-asymmetric")
    if lt != rgt or gt != rlt or le != rge or ge != rle:
        rules.append("mirror")
    if eq:
        if hash(x) != hash(y):
            rules.append("eq-hash")
        if lt or gt:
            rules.append("eq-ordered")
        if not (le and ge):
            rules.append("eq-not-le-ge")
    elif lt == gt:
        rules.append("ne-unordered")
    if le != (lt or eq):
        rules.append("le-def")
    if ge != (gt or eq):
        rules.append("ge-def")
    if refsign is not None:
        # every operator, both directions, against the reference order
        exp = (refsign == 0, refsign != 0, refsign < 0, refsign <= 0, refsign > 0, refsign >= 0)
        rexp = (refsign == 0, refsign != 0, refsign > 0, refsign >= 0, refsign < 0, refsign <= 0)
        if (eq, ne, lt, le, gt, ge) != exp or (req, rne, rlt, rle, rgt, rge) != rexp:
            rules.append("ref-order")
    if not rules:
        mn, mx = min(x, y), max(x, y)
        if (lt and not (mn is x and mx is y)) or (gt and not (mn is y and mx is x)) or (eq and not (mn == mx)):
            rules.append("min-max")
        if len({x, y}) != (1 if eq else 2) or (y in {x: 1}) != eq or (x in {y: 1}) != eq:
            rules.append("set-dict")
        s1, s2 = sorted([x, y]), sorted([y, x])
        if not (s1[0] == s2[0] and s1[1] == s2[1]):
            rules.append("sorted")
    obs = {"==": eq, "!=": ne, "<": lt, "<=": le, ">": gt, ">=": ge, "hash==": hash(x) == hash(y)}
    return rules, obs


_EXPLAIN = {
    "ne-not-negation": "!= is not the negation of ==",
    "eq-asymmetric": "== is not symmetric",
    "mirror": "x<y / x<=y disagree with y>x / y>=x",
    "eq-hash": "equal objects have different hashes",
    "eq-ordered": "equal objects are also ordered (< or >)",
    "eq-not-le-ge": "equal objects are not both <= and >=",
    "ne-unordered": "unequal objects are not strictly ordered one way",
    "le-def": "<= differs from (< or ==)",
    "ge-def": ">= differs from (> or ==)",
    "ref-order": "the six operators do not all agree with the reference order (category, package, PMS version)",
    "min-max": "min()/max() disagree with <",
    "set-dict": "set/dict membership disagrees with ==",
    "sorted": "sorted() of the two orders differs",
}


def check_pair(kind, da, db):
    build, text, _ = KINDS[kind]
    x, y = build(da), build(db)
    rules, obs = pair_rules(x, y, REF_SIGN[kind](da, db))
    if not rules:
        return [], obs
    o = " ".join(f"{k}:{'T' if v else 'F'}" for k, v in obs.items())
    ta, tb = text(da) + ("(negate_vers)" if da.get("n") else ""), text(db) + ("(negate_vers)" if db.get("n") else "")
    return [f"{kind} {ta} vs {tb}: {_EXPLAIN[r]} [{o}]" for r in rules], obs


def _obs_sig(obs):
    return ("E" if obs["=="] else "-") + ("L" if obs["<"] else "-") + ("G" if obs[">"] else "-") + ("h" if obs["hash=="] else "-")


def _dim_sig(dims):
    if not dims:
        return "identical"
    if len(dims) == 1:
        return next(iter(dims))
    return "multi"


# triples ---------------------------------------------------------------
def check_triple_rel(lt, eq, i, j, k):
    """lt/eq: matrices of observed < and ==. Returns rule names broken by the ordered triple."""
    out = []
    if lt[i][j] and lt[j][k] and not lt[i][k]:
        out.append("lt-transitive")
    if eq[i][j] and eq[j][k] and not eq[i][k]:
        out.append("eq-transitive")
    if not lt[i][j] and not lt[j][i] and not lt[j][k] and not lt[k][j] and (lt[i][k] or lt[k][i]):
        out.append("incomparability-transitive")
    return out


def check_sort3(objs):
    """All permutations of three pairwise-consistent objects must sort to element-wise equal lists."""
    base = None
    for perm in itertools.permutations(objs):
        s = sorted(perm)
        # the result is a chain under the real operators: no later element is < an earlier one, neighbours are <=
        if s[1] < s[0] or s[2] < s[1] or s[2] < s[0] or not (s[0] <= s[1] and s[1] <= s[2] and s[0] <= s[2]):
            return ["sorted-not-a-chain"]
        if s[0] > s[1] or s[1] > s[2] or s[0] > s[2] or not (s[2] >= s[1] and s[1] >= s[0] and s[2] >= s[0]):
            return ["sorted-not-a-chain"]
        if base is None:
            base = s
        elif not all(a == b for a, b in zip(base, s)):
            return ["sorted-permutations"]
    return []


def _triple_msgs(kind, descs):
    build, text, _ = KINDS[kind]
    objs = [build(d) for d in descs]
    lt = [[bool(a < b) for b in objs] for a in objs]
    eq = [[bool(a == b) for b in objs] for a in objs]
    rules = check_triple_rel(lt, eq, 0, 1, 2)
    if not rules and all(not pair_rules(objs[i], objs[j])[0] for i, j in ((0, 1), (0, 2), (1, 2))):
        rules = check_sort3(objs)
    names = ", ".join(text(d) for d in descs)
    return [f"{kind} triple ({names}): {r} broken" for r in rules]


# ---------------------------------------------------------------- tasks
def _universe(kind, which, tier):
    if kind == "cpv":
        return {"pairs": cpv_universe, "cross": cpv_cross_universe, "sub": cpv_sub_universe, "keys": cpv_keys_sub_universe}[which](tier)
    return {"pairs": atom_universe, "cross": atom_cross_universe, "sub": atom_sub_universe, "keys": atom_keys_sub_universe}[which](tier)


def tasks(tier):
    out = []
    n = 24 if tier == "quick" else 48
    out += [("pairs", "cpv", "pairs", tier, r, n) for r in range(n)]
    n = 96 if tier == "quick" else 240
    out += [("pairs", "atom", "pairs", tier, r, n) for r in range(n)]
    out += [("pairs", "atom", "cross", tier, r, 12) for r in range(12)]
    out += [("pairs", "cpv", "cross", tier, r, 2) for r in range(2)]
    out += [("triples", "cpv", "keys", tier, r, 6) for r in range(6)]
    out += [("triples", "atom", "keys", tier, r, 6) for r in range(6)]
    n = 8 if tier == "quick" else 16
    out += [("triples", "cpv", "sub", tier, r, n) for r in range(n)]
    n = 16 if tier == "quick" else 48
    out += [("triples", "atom", "sub", tier, r, n) for r in range(n)]
    return out


def _comparable(kind, da, db):
    if kind == "cpv":
        return (da["v"] is None) == (db["v"] is None)
    return True


def work(task):
    mode, kind, which, tier, r, n = task
    build, text, diff = KINDS[kind]
    descs = _universe(kind, which, tier)
    objs = [build(d) for d in descs]
    evals = 0
    classes = {}
    viol = []
    per_sig = {}
    samples = []
    if mode == "pairs":
        for i in range(r, len(descs), n):
            x = objs[i]
            for j in range(i, len(descs)):
                if not _comparable(kind, descs[i], descs[j]):
                    continue
                evals += 1
                rules, obs = pair_rules(x, objs[j], REF_SIGN[kind](descs[i], descs[j]))
                dims = diff(descs[i], descs[j])
                k = f"{kind}:{_dim_sig(dims)}:{_obs_sig(obs)}"
                classes[k] = classes.get(k, 0) + 1
                if rules:
                    sig = (tuple(rules), tuple(sorted(dims)))
                    per_sig[sig] = per_sig.get(sig, 0) + 1
                    if per_sig[sig] <= 2:
                        msgs, _ = check_pair(kind, descs[i], descs[j])
                        viol.append({"kind": kind + "-pair", "a": descs[i], "b": descs[j], "rules": rules, "msg": msgs[0]})
        i = r % len(descs)
        samples = [[text(descs[i]), text(descs[(i * 7 + 3) % len(descs)])]]
    else:
        m = len(descs)
        lt = [[bool(a < b) if _comparable(kind, da, db) else False for b, db in zip(objs, descs)] for a, da in zip(objs, descs)]
        eq = [[bool(a == b) for b in objs] for a in objs]
        consistent = {}

        def ok(i, j):
            v = consistent.get((i, j))
            if v is None:
                v = consistent[(i, j)] = not pair_rules(objs[i], objs[j])[0]
            return v

        nsort = 0
        for i in range(r, m, n):
            for j in range(m):
                if not _comparable(kind, descs[i], descs[j]):
                    continue
                for k in range(m):
                    if not _comparable(kind, descs[j], descs[k]):
                        continue
                    evals += 1
                    rules = check_triple_rel(lt, eq, i, j, k)
                    if not rules and i < j < k and ok(i, j) and ok(i, k) and ok(j, k):
                        nsort += 1
                        rules = check_sort3([objs[i], objs[j], objs[k]])
                    if rules:
                        sig = tuple(rules)
                        per_sig[sig] = per_sig.get(sig, 0) + 1
                        if per_sig[sig] <= 3:
                            ds = [descs[i], descs[j], descs[k]]
                            viol.append({"kind": kind + "-triple", "t": ds, "rules": rules, "msg": _triple_msgs(kind, ds)[0]})
        classes[f"{kind}:triples-checked"] = 1
        if nsort:
            classes[f"{kind}:triple-sorts-checked"] = 1
        samples = [[text(descs[r % m]), text(descs[1]), text(descs[2])]]
    return {"evals": evals, "classes": classes, "viol": viol, "samples": samples, "keep_all_viol": True}


def replay(case):
    kind = case["kind"].split("-")[0]
    if case["kind"].endswith("-pair"):
        return check_pair(kind, case["a"], case["b"])[0]
    return _triple_msgs(kind, case["t"])


# ---------------------------------------------------------------- known-finding classifiers
def _pair(case, kind):
    if case.get("kind") != kind + "-pair":
        return None, None
    return set(case["rules"]), KINDS[kind][2](case["a"], case["b"])


def _cpv_hash_version_spelling(case):
    """CPV.__hash__ hashes the spelled cpvstr while == compares versions per PMS: the only broken rule is
    equal-hash, same category and package, the two version strings differ in spelling and are PMS-equal."""
    rules, dims = _pair(case, "cpv")
    return rules == {"eq-hash"} and dims == {"verspell"}


def _atom_hash_use_order(case):
    """atom hashes its original text while == compares the sorted USE-dep tuple: the only broken rule is
    equal-hash and the two atoms differ only in the order their USE deps were written."""
    rules, dims = _pair(case, "atom")
    return rules == {"eq-hash"} and dims == {"useorder"}


def _atom_eq_ignores_blocker_strength(case):
    """atom equality ignores blocks_strongly while ordering (and the hashed text) do not: the atoms differ in
    '!' vs '!!' (and at most in USE-dep order), compare equal, yet are ordered."""
    rules, dims = _pair(case, "atom")
    return (
        rules is not None
        and "eq-ordered" in rules
        and rules <= {"eq-hash", "eq-ordered", "eq-not-le-ge", "le-def", "ge-def"}
        and "strength" in dims
        and dims <= {"strength", "useorder"}
    )


def _atom_order_ignores_eq_attrs(case):
    """atom.__cmp__ never looks at sub-slot, slot operator or the spelling of the version, which == distinguishes:
    the atoms differ only in those (and possibly USE-dep order), are unequal, and neither is less than the other."""
    rules, dims = _pair(case, "atom")
    return (
        rules is not None
        and "ne-unordered" in rules
        and rules <= {"ne-unordered", "le-def", "ge-def"}
        and bool(dims & {"sub", "slotop", "verspell"})
        and dims <= {"sub", "slotop", "verspell", "useorder"}
    )


CLASSIFIERS = {
    "cpv-hash-version-spelling": _cpv_hash_version_spelling,
    "atom-hash-use-order": _atom_hash_use_order,
    "atom-eq-ignores-blocker-strength": _atom_eq_ignores_blocker_strength,
    "atom-order-ignores-subslot-slotop-verspelling": _atom_order_ignores_eq_attrs,
}
