"""C03 atom syntax acceptance = PMS grammar per EAPI; accepted atoms round-trip through str()."""

import itertools

from verif import ref_atoms

PROPERTY = "C03"
LEVEL = "exploration"
ENGINE = "enum"
TECHNIQUE = "exhaustive enumeration of grammar-generated atoms and all their single-character edits against an independent PMS recogniser"
RULE = (
    "every string of a grammar-generated set of dependency atoms (category x package-name x operator x version x glob; "
    "slot/sub-slot/slot-operator x ::repo x USE-dep x blocker menus) and every single-character edit (delete, insert, "
    "substitute at every position over the structural characters) of a core subset and of hand-written boundary "
    "strings, with no EAPI and under every numbered EAPI from 0 up to and including pkgcore's LATEST_PMS_EAPI_VER passed "
    "explicitly (also when that EAPI is disabled on the image): pkgcore accepts <=> the PMS recogniser of "
    "DESIGN A3 accepts; every accepted atom a: atom(str(a)) parses, == a both ways, and matches exactly the same "
    "packages of a per-key package universe (versions x slot/sub-slot x repo x USE/IUSE). Parse histories: for every "
    "optional-feature shape (USE-dep token forms with and without (+)/(-) defaults, slot, sub-slot, slot operators, "
    "blockers, ::repo) and every ordered pair of distinct EAPI settings, the text is parsed under the first then under "
    "the second in one process and each verdict must equal the recogniser's verdict for that (text, EAPI) alone. A class is (recogniser "
    "verdict and first reason | pkgcore outcome), per optional feature used, and per round-trip kind; "
    "distinct_nontrivial counts classes observed."
)
ASSUMPTIONS = [
    "Excl: strings with whitespace or non-ASCII characters (PMS silent) are not generated",
    "Excl (no oracle applied, counted as class 'excluded:*'): '~' combined with a -rN revision; ':slot/subslot=' "
    "(PMS: package-manager-only syntax); ::repo names ending in '-<version>'",
    "a crash with an exception other than MalformedAtom on an invalid string counts as 'not accepted' (the statement "
    "speaks of acceptance only); such outcomes are reported as classes 'crash:<Type>'",
    "the hash of the re-parsed atom is not compared here (C02 owns hash/equality agreement)",
    "::repo placement (after the slot part, before USE deps) and name characters follow DESIGN A3, the extension being pkgcore's own",
    "only single edits; strings two or more edits away from every generated atom are not covered",
    "parse histories have length two and use names unique to the history; a single-parse candidate carries the EAPI "
    "settings its text was evaluated under earlier in the worker and the replay re-runs them first; dependence on "
    "longer or cross-text histories is not explored",
]
BOUNDS = {
    "quick": "valid set: 72 keys x 57 version specs + 1 key x 5 version specs x 11 slot x 4 repo x 17 USE x 3 blocker menus "
    "(15319 strings) x 11 EAPI settings (none, 0-9) incl. round trip over a 113-package universe per key; edits: all single edits "
    "(delete/insert/substitute over 23 characters) of a 395-string core (incl. 60 hand-written boundary strings) x 11 "
    "EAPI settings (~2.7M evaluations); 25 feature shapes x 110 ordered EAPI pairs = 2750 two-step parse histories",
    "thorough": "same valid set; all single edits of a 3824-string core (quick core + 72 keys x 5 version specs + 2 keys x "
    "57 version specs + 5 version specs x 8 slot x 3 repo x 9 USE x 3 blocker menus) x 11 EAPI settings (~36M evaluations); same 2750 parse histories",
}
TIME_CAP = {"thorough": 840}

# ---------------------------------------------------------------- alphabet
CATS = ["a", "a-b", "a+b", "_a", "a.b", "A1"]
PKGS = ["p", "p-q", "p+", "p1", "p-1xy", "p-r1x", "p-1-1xy", "p-", "p--q", "_p", "p-r1", "P"]
VERS = ["1", "1.2", "1a", "1_p1", "1-r1", "01.02_alpha_rc3-r02", "1.2.3b_beta4", "2_pre", "1-r0", "1-r01", "1.0-r00"]
OPS = ["<", "<=", "=", "~", ">=", ">"]
SLOTS = ["", ":0", ":1", ":0/a", ":0/b", ":0=", ":=", ":*", ":a.b-c+d_e", ":_s/_t.1", ":0/a="]
REPOS = ["", "::r1", "::r2", "::_R-x"]
USES = [
    "",
    "[x]",
    "[x,y]",
    "[y,x]",
    "[-x]",
    "[x(+)]",
    "[x(-)]",
    "[x?]",
    "[!x?]",
    "[x=]",
    "[!x=]",
    "[-x(+)]",
    "[x(+)?]",
    "[!x(-)=]",
    "[x,-y,z?]",
    "[x(+),y]",
    "[x,y(-)]",
    "[-x(+),z]",
    "[x(-)?,y,z]",
    "[a+b_c@d-e]",
    "[1x]",
]
BLOCKS = ["", "!", "!!"]
EDIT_CHARS = "!=~<>*:/[],-()?.+_@x1Ar"

# hand-written boundary strings (valid or not -- the recogniser decides); all their single edits are explored too
BOUNDARY = [
    "a/p-1",
    "a/p-1-r1",
    "a/p-1a_beta",
    "a/p-1x",
    "a/p-1_p1",
    "a/p-1.2",
    "=a/p-1-1",
    "=a/p-1-r1-1",
    "=a/p-1-1-r1",
    "=a/p-r1-1",
    "=a/p-r1",
    "=a/p-1-r1-r2",
    "=a/p-1a-1",
    "=a/p-1ab-1",
    "=a/p-1_beta",
    "=a/p-1_beta_p2-r3",
    "=a/p-1.2.3*",
    "=a/p-1-r1*",
    "=a/p-1a*",
    "=a/p--1",
    "a/p-1A",
    "=a/p-1A",
    "=a/p-1_P1",
    "a/p:+0",
    "a/p:0/+a",
    "a/p:.0",
    "a/p:0/-a",
    "a/p:0/a/b",
    "a/p:*=",
    "a/p:0=/a",
    "a/p:0:1",
    "a/p::r1:0",
    "a/p:0::r1::r2",
    "a/p[x]:0",
    "a/p[x]::r1",
    "a/p[x][y]",
    "a/p[x,]",
    "a/p[-x?]",
    "a/p[!x]",
    "a/p[x(+)(-)]",
    "a/p[x?(+)]",
    "a/p[x(+]",
    "a/p[x+)]",
    "a/p[-!x=]",
    "a/p[_x]",
    "!!!a/p",
    "!=a/p-1",
    "=!a/p-1",
    "<>a/p-1",
    "=>a/p-1",
    "~a/p-1*",
    "~a/p-1-r0",
    "a/p/q",
    "a//p",
    ".a/p",
    "a/+p",
    "a/-p",
    "a/p.q",
    "a/p:0/a=[x(+)?]",
    "!!>=a-b/p-q-1.2_p1-r1:0/a::r1[x,-y(-),!z?]",
]


def _verspecs():
    out = [("", "")]
    for v in VERS:
        for op in OPS:
            out.append((op, "-" + v))
        out.append(("=", "-" + v + "*"))
    return out


CORE_VERSPECS = [("", ""), ("=", "-1"), (">=", "-1.2"), ("=", "-1*"), ("~", "-1a")]


def valid_set():
    """Grammar-generated strings, simplest first (deterministic order)."""
    out = []
    for cat, pkg in itertools.product(CATS, PKGS):
        for op, tail in _verspecs():
            out.append(f"{op}{cat}/{pkg}{tail}")
    for (op, tail), slot, repo, use, block in itertools.product(CORE_VERSPECS, SLOTS, REPOS, USES, BLOCKS):
        out.append(f"{block}{op}a/p{tail}{slot}{repo}{use}")
    return list(dict.fromkeys(out))


def edit_core(tier):
    out = []
    if tier == "thorough":
        out = edit_core("quick")
        for cat, pkg in itertools.product(CATS, PKGS):
            for op, tail in CORE_VERSPECS:
                out.append(f"{op}{cat}/{pkg}{tail}")
        for key in ("a/p", "a-b/p-1xy"):
            for op, tail in _verspecs():
                out.append(f"{op}{key}{tail}")
        slots = ["", ":0", ":0/a", ":0=", ":=", ":*", ":a.b-c+d_e", ":0/a="]
        repos = ["", "::r1", "::_R-x"]
        uses = ["", "[x]", "[y,x]", "[-x]", "[x(+)]", "[!x?]", "[x=]", "[!x(-)=]", "[x,-y,z?]"]
        for (op, tail), slot, repo, use, block in itertools.product(CORE_VERSPECS, slots, repos, uses, BLOCKS):
            out.append(f"{block}{op}a/p{tail}{slot}{repo}{use}")
        return list(dict.fromkeys(out))
    verspecs = [("", ""), ("=", "-1"), ("~", "-1.2"), ("=", "-1*"), (">=", "-1_p1-r1")]
    slots = ["", ":0", ":0/a", ":0=", ":=", ":*"]
    repos = ["", "::r1"]
    uses = ["", "[x]", "[x,-y]", "[x(+)]", "[!x?]"]
    # every pair of menus is crossed with the others at their simplest value
    for (op, tail), slot in itertools.product(verspecs, slots):
        out.append(f"{op}a/p{tail}{slot}")
    for slot, repo, use in itertools.product(slots, repos, uses):
        out.append(f"a/p{slot}{repo}{use}")
    for (op, tail), use, block in itertools.product(verspecs, uses, ["", "!!"]):
        out.append(f"{block}{op}a/p{tail}{use}")
    for (op, tail), slot, repo, use in itertools.product(verspecs[1:3], slots[2:4], repos[1:], uses[2:]):
        out.append(f"!{op}a-b/p-1xy{tail}{slot}{repo}{use}")
    for (op, tail), slot, use in itertools.product(verspecs, slots, uses):
        out.append(f"{op}a/p{tail}{slot}{use}")
    for (op, tail), slot, repo, block in itertools.product(verspecs, slots[:4], repos, BLOCKS):
        out.append(f"{block}{op}a/p{tail}{slot}{repo}")
    for pkg in PKGS:
        out.append(f"a/{pkg}")
        out.append(f"=a/{pkg}-1a_p1-r1")
    for cat in CATS:
        out.append(f"{cat}/p")
    return list(dict.fromkeys(out + BOUNDARY))


def single_edits(s):
    """All strings at edit distance exactly one (delete / insert / substitute over EDIT_CHARS), deduplicated, ordered."""
    out = []
    n = len(s)
    for i in range(n):
        out.append(s[:i] + s[i + 1 :])
    for i in range(n + 1):
        for ch in EDIT_CHARS:
            out.append(s[:i] + ch + s[i:])
    for i in range(n):
        for ch in EDIT_CHARS:
            if ch != s[i]:
                out.append(s[:i] + ch + s[i + 1 :])
    return [x for x in dict.fromkeys(out) if x and x != s]


def eapis():
    from pkgcore.ebuild import eapi as eapi_mod

    # no EAPI, then every numbered EAPI up to and including the newest one pkgcore names (LATEST_PMS_EAPI_VER), passed
    # explicitly -- also when that EAPI is disabled on this image (old bash): the atom parser only needs its option table
    latest = int(eapi_mod.LATEST_PMS_EAPI_VER)
    known = [int(k) for k in eapi_mod.EAPI.known_eapis if k.isdigit()]
    return [None] + list(range(0, max([latest] + known) + 1))


VALID_CHUNK = 120
EDIT_CHUNK = {"quick": 3, "thorough": 12}


def tasks(tier):
    v = valid_set()
    out = [("valid", tier, i, min(i + VALID_CHUNK, len(v))) for i in range(0, len(v), VALID_CHUNK)]
    c = edit_core(tier)
    step = EDIT_CHUNK[tier]
    out += [("edits", tier, i, min(i + step, len(c))) for i in range(0, len(c), step)]
    h = histories()
    out += [("history", tier, i, min(i + 250, len(h))) for i in range(0, len(h), 250)]
    return out


# ---------------------------------------------------------------- package universe for the match comparison
_universe_cache = {}
U_VERSIONS = ["0.9", "1", "1.2", "1a", "1_p1", "1-r1", "2", "1-r10", "10", "1.0", "1.0-r1", "1.00"]
U_SLOTS = [("0", "a"), ("0", "b"), ("1", "1"), ("a.b-c+d_e", "a.b-c+d_e")]
U_REPOS = ["r1", "r2"]
U_USE = [((), ("x", "y", "z")), (("x",), ("x", "y", "z")), (("x", "y", "z"), ("x", "y", "z")), ((), ())]


def universe(key):
    u = _universe_cache.get(key)
    if u is None:
        from pkgcore.test.misc import FakePkg, FakeRepo

        repos = {r: FakeRepo(repo_id=r) for r in U_REPOS}
        u = []
        # a reduced cross product: every version with every slot pair; repo and USE configuration rotate so that
        # every (version, repo), (version, use), (slot, repo), (slot, use) pair occurs
        for vi, ver in enumerate(U_VERSIONS):
            for si, (slot, sub) in enumerate(U_SLOTS):
                for ri, r in enumerate(U_REPOS):
                    for ui in range(2):
                        use, iuse = U_USE[(vi + si + ri + 2 * ui) % len(U_USE)]
                        u.append(FakePkg(f"{key}-{ver}", slot=slot, subslot=sub, use=use, iuse=iuse, repo=repos[r]))
        u.append(FakePkg("zz/other-1", slot="0", subslot="a", use=("x",), iuse=("x", "y", "z"), repo=repos["r1"]))
        _universe_cache[key] = u
    return u


# ---------------------------------------------------------------- the oracle
def _eapi_kw(eapi):
    return "-1" if eapi is None else str(eapi)


def _parse_impl(s, eapi):
    from pkgcore.ebuild.atom import atom
    from pkgcore.ebuild.errors import MalformedAtom

    try:
        return "accepted", atom(s, eapi=_eapi_kw(eapi))
    except MalformedAtom:
        return "rejected", None
    except Exception as e:  # not an acceptance; recorded as its own outcome class
        return "crash:" + type(e).__name__, None


def _match_vector(a, key):
    out = []
    for p in universe(key):
        try:
            out.append("1" if a.match(p) else "0")
        except Exception as e:
            out.append("E" + type(e).__name__)
    return out


def check_string(s, eapi, classes=None):
    """Evaluate one (string, eapi). Returns list of (kind, message)."""
    verdict, reason, parts = ref_atoms.recognise(s, eapi)
    got, a = _parse_impl(s, eapi)
    if classes is not None:
        k = f"{verdict}:{reason}|{got}"
        classes[k] = classes.get(k, 0) + 1
        if verdict == "valid" and got == "accepted":
            for tag in ref_atoms.feature_tags(parts).split("+"):
                k = f"valid-uses:{tag}"
                classes[k] = classes.get(k, 0) + 1
    msgs = []
    elabel = "none" if eapi is None else eapi
    if verdict == "valid" and got != "accepted":
        msgs.append(("accept", f"PMS-valid atom {s!r} (EAPI {elabel}) is not accepted: {got}"))
    elif verdict == "invalid" and got == "accepted":
        msgs.append(("accept", f"atom {s!r} (EAPI {elabel}) is accepted but is not valid under PMS: {reason}"))
    if got == "accepted" and verdict != "invalid":
        t = str(a)
        got2, b = _parse_impl(t, eapi)
        if classes is not None:
            k = "roundtrip:" + ("same-text" if t == s else "text-changed")
            classes[k] = classes.get(k, 0) + 1
        if got2 != "accepted":
            msgs.append(("roundtrip", f"str(atom({s!r})) = {t!r} does not parse back (EAPI {elabel}): {got2}"))
        elif t == s and b is a:
            pass  # same text, same EAPI: the instance cache hands back the very same object; nothing to compare
        else:
            if not (a == b) or not (b == a) or (a != b):
                msgs.append(("roundtrip", f"atom({s!r}) != atom(str(it) = {t!r}) (EAPI {elabel})"))
            key = a.key
            ma, mb = _match_vector(a, key), _match_vector(b, key)
            if classes is not None:
                k = "roundtrip-match:" + ("some-match" if "1" in ma else "none-match")
                classes[k] = classes.get(k, 0) + 1
            if ma != mb:
                i = [j for j in range(len(ma)) if ma[j] != mb[j]][0]
                p = universe(key)[i]
                msgs.append(
                    (
                        "roundtrip",
                        f"atom({s!r}) and atom({t!r}) match different packages (EAPI {elabel}): "
                        f"{p.cpvstr} slot={p.slot}/{p.subslot} repo={p.repo.repo_id} use={sorted(p.use)}: {ma[i]} vs {mb[i]}",
                    )
                )
    return got, msgs


def _case(s, eapi, got, kind, msg, pre=()):
    """pre: the EAPI settings the same text was evaluated under earlier in the same process, in order.  The replay
    re-runs them first, so a verdict that depends on what was parsed before reproduces in a fresh process."""
    c = {"s": s, "eapi": eapi, "got": got, "kind": kind, "msg": msg}
    if pre:
        c["pre"] = list(pre)
        c["msg"] = msg + " [same text evaluated before under EAPI " + ",".join("none" if e is None else str(e) for e in pre) + " in this process]"
    return c


# ---------------------------------------------------------------- parse histories
# One optional feature per shape; {n} makes every name of a history unique, so histories are independent of one another
# (and of the single-parse tasks) even if the implementation remembers texts it has seen.
HISTORY_SHAPES = [
    ("use", "a/h{n}[f{n}]"),
    ("use", "a/h{n}[-f{n}]"),
    ("use", "a/h{n}[f{n}?]"),
    ("use", "a/h{n}[!f{n}?]"),
    ("use", "a/h{n}[f{n}=]"),
    ("use", "a/h{n}[!f{n}=]"),
    ("usedef", "a/h{n}[f{n}(+)]"),
    ("usedef", "a/h{n}[f{n}(-)]"),
    ("usedef", "a/h{n}[-f{n}(+)]"),
    ("usedef", "a/h{n}[-f{n}(-)]"),
    ("usedef", "a/h{n}[f{n}(+)?]"),
    ("usedef", "a/h{n}[!f{n}(-)?]"),
    ("usedef", "a/h{n}[f{n}(-)=]"),
    ("usedef", "a/h{n}[!f{n}(+)=]"),
    ("usedef", "=a/h{n}-1:0[g{n},-f{n}(+)]"),
    ("slot", "a/h{n}:s{n}"),
    ("sub", "a/h{n}:s{n}/t{n}"),
    ("slotop", "a/h{n}:="),
    ("slotop", "a/h{n}:*"),
    ("slotop", "a/h{n}:s{n}="),
    ("strongblock", "!!a/h{n}"),
    ("block", "!a/h{n}"),
    ("repo", "a/h{n}::r{n}"),
    ("repo", "=a/h{n}-1:0::r{n}[f{n}]"),
    ("plain", "a/h{n}"),
]


def histories():
    """(index, tag, [(text, eapi), (text, eapi)]) for every shape and every ordered pair of distinct EAPI settings."""
    es = eapis()
    out = []
    n = 0
    for tag, shape in HISTORY_SHAPES:
        for e1 in es:
            for e2 in es:
                if e1 != e2:
                    text = shape.replace("{n}", str(n))
                    out.append((n, tag, [(text, e1), (text, e2)]))
                    n += 1
    return out


def check_history(steps, classes=None, tag=""):
    """Parse the steps in order in this process; every verdict must equal the reference verdict of that (text, EAPI) alone."""
    msgs = []
    trail = []
    for i, (s, e) in enumerate(steps):
        verdict = ref_atoms.recognise(s, e)[0]
        got, _ = _parse_impl(s, e)
        trail.append(f"{s!r}@{'none' if e is None else e}->{got}")
        if classes is not None and i == len(steps) - 1:
            for k in (f"history:{ref_atoms.recognise(*steps[0])[0]}-then-{verdict}|{got}", f"history-shape:{tag}"):
                classes[k] = classes.get(k, 0) + 1
        if _violated(verdict, got == "accepted"):
            msgs.append(f"parse history {' ; '.join(trail)}: step {i + 1} should be {verdict} under PMS whatever was parsed before")
    return msgs


def _default_sigterm():
    """pkgcore.ebuild.processor (pulled in by pkgcore.test.misc) installs a SIGTERM handler that raises SystemExit;
    the runner's task wrapper catches BaseException, so a worker terminated in mid-task (time cap) would swallow the
    signal and pool.terminate() would wait for it for ever.  Workers take the default action instead."""
    import signal

    import pkgcore.test.misc  # noqa: F401  (installs the handler at import time)

    signal.signal(signal.SIGTERM, signal.SIG_DFL)


def work(task):
    _default_sigterm()
    kind, tier, lo, hi = task
    es = eapis()
    evals = 0
    classes = {}
    viol = []
    per_sig = {}
    samples = []

    def run(s):
        nonlocal evals
        for i, e in enumerate(es):
            evals += 1
            got, msgs = check_string(s, e, classes)
            for k, m in msgs:
                # keep the candidate list small but diverse: at most 2 per (kind, reason, eapi) in one task
                # (known-finding membership is part of the signature so a listed finding cannot use up the quota of
                # an unlisted defect that happens to share reason and EAPI)
                case = _case(s, e, got, k, m, es[:i])
                sig = (k, ref_atoms.recognise(s, e)[1], e, tuple(n for n, f in CLASSIFIERS.items() if f(case)))
                per_sig[sig] = per_sig.get(sig, 0) + 1
                if per_sig[sig] <= 2:
                    viol.append(case)

    if kind == "history":
        hs = histories()
        for n, tag, steps in hs[lo:hi]:
            evals += 1
            msgs = check_history(steps, classes, tag)
            if msgs:
                sig = (tag, steps[0][1], steps[1][1])
                per_sig[sig] = per_sig.get(sig, 0) + 1
                if per_sig[sig] <= 2:
                    viol.append({"kind": "history", "steps": [list(st) for st in steps], "msg": msgs[0]})
        samples = [[list(st) for st in hs[lo][2]]]
    elif kind == "valid":
        v = valid_set()
        for s in v[lo:hi]:
            run(s)
        samples = [v[lo], v[hi - 1]]
    else:
        c = edit_core(tier)
        for base in c[lo:hi]:
            run(base)
            eds = single_edits(base)
            for s in eds:
                run(s)
        samples = [[c[lo], single_edits(c[lo])[len(c[lo]) + 5]]]
    return {"evals": evals, "classes": classes, "viol": viol, "samples": samples, "keep_all_viol": True}


def replay(case):
    if case.get("kind") == "history":
        return check_history([tuple(st) for st in case["steps"]])
    for e in case.get("pre", ()):  # what this process' predecessor had evaluated on the same text, in the same order
        check_string(case["s"], e)
    got, msgs = check_string(case["s"], case["eapi"])
    return [m for _, m in msgs]


# ---------------------------------------------------------------- known-finding classifiers
def _violated(verdict, accepted):
    return (verdict == "valid" and not accepted) or (verdict == "invalid" and accepted)


def _explained_by(case, dialect):
    """The acceptance counterexample is explained by exactly this deviation: what pkgcore did contradicts the PMS
    recogniser but does not contradict the recogniser that differs from PMS in only that one point."""
    if case.get("kind") != "accept":
        return False
    s, e = case["s"], case["eapi"]
    accepted = case["got"] == "accepted"
    strict = ref_atoms.recognise(s, e)[0]
    loose = ref_atoms.recognise(s, e, (dialect,))[0]
    return _violated(strict, accepted) and not _violated(loose, accepted)


def _version_letter_uppercase(case):
    return _explained_by(case, "version-letter-uppercase")


def _slot_leading_plus(case):
    return _explained_by(case, "slot-leading-plus")


CLASSIFIERS = {
    "version-letter-uppercase": _version_letter_uppercase,
    "slot-leading-plus": _slot_leading_plus,
}
