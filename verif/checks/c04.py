"""C04 atom.match(pkg) == PMS dependency matching (DESIGN §3 C04, Appendix A1/A2/A4)."""

import itertools

from verif import ref_match as rm

PROPERTY = "C04"
LEVEL = "exploration"
ENGINE = "enum"
TECHNIQUE = "exhaustive (atom, package) product vs an independent descriptor-level matcher"
RULE = (
    "every atom of a full product alphabet (blocker x operator x written version x slot/sub-slot/slot-operator menu x "
    "repository x USE-dependency menu incl. (+)/(-) defaults and two-flag pairs; plus key-mismatch atoms) is spelled as "
    "text, parsed by pkgcore.ebuild.atom.atom and matched against every package of a full product universe (key x "
    "version x slot x sub-slot x repository x per-flag IUSE/USE state) built with pkgcore.test.misc.FakePkg; the verdict "
    "is compared with a plain-Python matcher working on the descriptors (PMS order from the C01 reference, '~' ignoring "
    "the revision, '=v*' as component-list prefix, equality for slot/sub-slot/repo, USE deps with (+)/(-) deciding flags "
    "absent from IUSE, blocker ignored). A class is (operator, first failing constraint | match | match decided by a "
    "default | glob string-prefix-but-not-component-prefix); distinct_nontrivial counts classes observed. "
    "History dimension (the verdict must be a function of the (atom, package) pair alone): for every pair of equal but "
    "differently spelled versions (leading-zero component, suffix number 0 vs none, both directions) every ordered pair "
    "(depth-2 history) of matches drawn from {< <= = >= > x atom revision x package revision} + {~ x package revision} "
    "is executed back to back in one process on version strings no other history uses, plus ascending / descending / "
    "mixed revision sweeps; every step is judged by the same reference."
)
TIME_CAP = {"thorough": 1500}
ASSUMPTIONS = [
    "Excl: (atom, package) pairs where a USE dependency without (+)/(-) names a flag absent from the package's IUSE and key, version, slot, sub-slot and repository all hold (PMS calls this an error; counted under class 'excluded-...', not judged)",
    "Excl: '=v*' whose written version spells a revision '-r0' or has a leading-zero component; (atom, package) pairs where '=v*' ends in a number-less suffix name and the package continues that suffix with a number (=1_p* vs 1_p1: one component by the component-prefix reading, a boundary by portage's letter/digit rule; counted under class 'excluded-glob...', not judged). '=v*' ending in a version letter or a bare suffix name is otherwise judged: both readings agree (=1_p* matches 1_p, 1_p-r1, 1_p_alpha1, not 1, 1_pre, 1_pre1)",
    "history dimension: histories are depth 2 (all ordered pairs) plus three length-6 revision sweeps per (spelling pair, operator, atom revision); state that needs three or more differently keyed earlier calls to corrupt a verdict is not covered; each history uses its own version numbers so that histories cannot influence one another whatever the task order",
    "Excl: packages whose USE is not a subset of IUSE; USE-conditional deps ([x?], [x=], [!x?]) which need a parent USE state",
    "packages are pkgcore.test.misc.FakePkg objects with EAPI 7 (so that an IUSE entry '+x' counts as flag x in IUSE); only attributes slot, subslot, repo.repo_id, iuse, use, category, package, fullver are set by the harness",
    "only the listed version/slot/repo/flag menus are covered; nothing outside the product is claimed",
]

# ---------------------------------------------------------------------------------------------------------------
# alphabets

OPS = ("", "<", "<=", "=", "~", ">=", ">", "=*")
BLOCKERS = ("", "!", "!!")

# x-tokens and y-tokens for USE deps
_XT = ("x", "-x", "x(+)", "x(-)", "-x(+)", "-x(-)")
_YT = ("y", "-y", "y(+)", "y(-)", "-y(+)", "-y(-)")
# flag z is never in any package's IUSE: the default always decides
_ZT = [("z(+)",), ("-z(-)",), ("x", "-y", "z(+)"), ("-x", "-y", "-z(-)"), ("-x(+)", "-y(+)", "-z(+)")]


# package versions with every suffix with and without a number (and letters), for '=v*' globs that end in a bare suffix
# name or a version letter: _p is a string prefix of _pre
_SUFFIX_PKG_VERS = [
    "1_alpha", "1_alpha1", "1_beta", "1_beta1", "1_pre", "1_pre1", "1_pre2-r1", "1_rc", "1_rc1", "1_p", "1_p-r1", "1_p_alpha1",
    "1_p_pre", "1a-r1", "1a_p1", "1b",
]  # fmt: skip


def _menus(tier):
    if tier == "quick":
        pkg_vers = ["1", "1.0", "1.1", "1.10", "1.1.1", "10", "2", "1-r1", "1-r2", "1-r10", "1_p1", "1_p10", "1_p1-r1", "1a"]
        atom_vers = ["1", "1.1", "1-r1", "1_p1", "10"]
        slotmenu = [(None, None, None), ("0", None, None), ("0", "0", None), ("0", "a", None), ("1", "a", None), (None, None, "="), ("0", None, "=")]
        repomenu = [None, "r1"]
        usemenu = [()] + [(t,) for t in _XT] + [
            ("x", "y"),
            ("-x", "-y"),
            ("x", "-y"),
            ("-x(+)", "-y(+)"),
            ("-x(-)", "-y(-)"),
            ("x(+)", "y(+)"),
            ("x(-)", "-y(+)"),
            ("x", "-y(-)"),
            ("-x", "y(+)"),
        ] + _ZT
        flags = ("x", "y")
        iuse_spellings = ("",)  # plain
        mismatch_keys = ["a/q", "b/p"]
        glob_vers = ["1_p", "1_alpha", "1_beta", "1_pre", "1_rc", "1a"]
        extra_pkg_vers = _SUFFIX_PKG_VERS
    else:
        pkg_vers = [
            "1", "1.0", "1.1", "1.10", "1.1.1", "10", "10.1", "2", "0.9", "1-r1", "1-r2", "1-r10", "1.1-r1",
            "1_p1", "1_p10", "1_p1-r1", "1_alpha1", "1a",
        ]  # fmt: skip
        atom_vers = ["1", "1.1", "1-r1", "1_p1", "10", "1.0", "1a", "1_alpha1", "1.1-r1"]
        slotmenu = [
            (None, None, None), ("0", None, None), ("0", "0", None), ("0", "a", None), ("1", "a", None),
            (None, None, "="), (None, None, "*"), ("0", "a", "="),
        ]  # fmt: skip
        repomenu = [None, "r1", "r2"]
        usemenu = [()] + [(t,) for t in _XT] + [(a, b) for a in _XT for b in _YT] + _ZT
        flags = ("x", "y")
        iuse_spellings = ("", "+")
        mismatch_keys = ["a/q", "b/p", "b/q", "a/p-x", "a/pp"]
        glob_vers = ["1_p", "1_alpha", "1_beta", "1_pre", "1_rc", "1a", "1.1_p", "1_p1_p", "1_alpha1_p", "1.1b", "1a_p"]
        extra_pkg_vers = _SUFFIX_PKG_VERS + [
            "1.1_p", "1.1_pre", "1.1_pre1", "1.1_p1", "1_p1_p", "1_p1_pre", "1_p1_pre1", "1_p1_p2", "1_alpha1_p", "1_alpha1_pre2-r1",
            "1.1b", "1.1b-r1", "1.1c", "1a_p", "1a_pre", "1a_pre1", "1a_p1",
        ]  # fmt: skip
    return pkg_vers, atom_vers, slotmenu, repomenu, usemenu, flags, iuse_spellings, mismatch_keys, glob_vers, extra_pkg_vers


def verops(tier):
    """(op, ver) heads, simplest first."""
    atom_vers = _menus(tier)[1]
    glob_vers = _menus(tier)[8]
    out = [("", None)]
    for v in atom_vers:
        for op in OPS[1:]:
            if op == "~" and "-r" in v:
                continue  # not an atom
            if op == "=*" and not rm.glob_open_version(v):
                continue  # Excl
            out.append((op, v))
    for v in glob_vers:  # written versions used with '=*' only
        assert rm.glob_open_version(v)
        out.append(("=*", v))
    return out


def packages(tier):
    """Package descriptors PD + (iuse_spelled,), simplest first.  Key a/p: full product.  Key a/q (never the key of a
    full-menu atom) and the extra suffix/letter versions of a/p: versions x IUSE/USE states only."""
    pkg_vers, _, _, _, _, flags, spellings, _, _, extra_pkg_vers = _menus(tier)
    # per-flag state: (in_iuse, spelled_prefix, enabled)
    states = [(False, "", False), (True, "", False), (True, "", True)]
    for sp in spellings:
        if sp:
            states.append((True, sp, True))
    out = []
    for key, vers in (("a/p", pkg_vers), ("a/q", pkg_vers), ("a/p", [v for v in extra_pkg_vers if v not in pkg_vers])):
        full = vers is pkg_vers and key == "a/p"
        for ver in vers:
            for slot in ("0", "1") if full else ("0",):
                for subslot in ("0", "a") if full else ("0",):
                    for repo in ("r1", "r2") if full else ("r1",):
                        for combo in itertools.product(states, repeat=len(flags)):
                            iuse = tuple(f for f, (i, _, _) in zip(flags, combo) if i)
                            spelled = tuple(sp + f for f, (i, sp, _) in zip(flags, combo) if i)
                            use = tuple(f for f, (i, _, e) in zip(flags, combo) if i and e)
                            out.append((key, ver, slot, subslot, repo, iuse, use, spelled))
    return out


def tasks(tier):
    """One task per (key, op, ver, blocker) head; the task enumerates the slot x repo x USE menus x all packages."""
    mismatch_keys = _menus(tier)[7]
    out = []
    for op, ver in verops(tier):
        for b in BLOCKERS:
            out.append((tier, "a/p", op, ver, b))
    for key in mismatch_keys:
        for op, ver in (("", None), ("=", "1"), ("=*", "1"), (">=", "1")):
            out.append((tier, key, op, ver, ""))
    for ci in range(len(spelling_pairs(tier))):
        out.append((tier, "#hist", ci, None, ""))
    return out


# ---------------------------------------------------------------------------------------------------------------
# history dimension: the verdict must depend on the (atom, package) pair alone

HIST_OPS = ("<", "<=", "=", ">=", ">")


def spelling_pairs(tier):
    """(atom version template, package version template): equal by PMS, spelled differently.  '{n}' is replaced by a
    number unique to the history, so that no two histories ever share a version string."""
    base = [("{n}.01", "{n}.010"), ("{n}_alpha", "{n}_alpha0"), ("{n}_p0", "{n}_p"), ("{n}.0", "{n}.00")]
    if tier != "quick":
        base += [("0{n}", "{n}"), ("{n}.1_rc", "{n}.1_rc0"), ("{n}_beta0_p", "{n}_beta_p0"), ("{n}.010a", "{n}.01a"), ("{n}.1", "{n}.1")]
    out = []
    for a, b in base:
        out.append((a, b))
        if a != b:
            out.append((b, a))
    return out


def hist_revs(tier):
    return (None, "0", "1", "2", "3") if tier == "quick" else (None, "0", "1", "2", "3", "10")


def _rv(ver, rev):
    return ver if rev is None else f"{ver}-r{rev}"


def hist_items(tier):
    """One match = (op, atom revision, package revision); '~' takes no atom revision."""
    revs = hist_revs(tier)
    items = [(op, ar, pr) for op in HIST_OPS for ar in revs for pr in revs]
    items += [("~", None, pr) for pr in revs]
    return items


def histories(tier, ci):
    """All histories of spelling class ci: [(n, [(op, atom_rev, pkg_rev), ...]), ...] with n the unique number."""
    items = hist_items(tier)
    revs = hist_revs(tier)
    n = 1000 + ci * 1_000_000
    out = []
    for first in items:  # depth 2: every ordered pair of matches
        for second in items:
            n += 1
            out.append((n, (first, second)))
    for op in HIST_OPS:  # revision sweeps with a fixed atom
        for ar in revs:
            asc = list(revs)
            for order in (asc, asc[::-1], asc[3:] + asc[1:2] + asc[2:3] + asc[0:1]):
                n += 1
                out.append((n, tuple((op, ar, pr) for pr in order)))
    return out


def hist_steps(tier, ci, n, seq):
    """Descriptors of one history: [(AD, PD), ...]."""
    at, pt = spelling_pairs(tier)[ci]
    av, pv = at.format(n=n), pt.format(n=n)
    return [(("", op, "a/p", _rv(av, ar), None, None, None, None, ()), ("a/p", _rv(pv, pr), "0", "0", "r1", (), (), ())) for op, ar, pr in seq]


def run_history(steps):
    """Execute the matches of one history back to back (fresh objects, same process) -> [got, ...]."""
    return [bool(build_atom(ad).match(build_pkg(pd))) for ad, pd in steps]


def judge_history(steps, gots):
    """-> [(step index, class, message | None)]"""
    out = []
    for k, ((ad, pd), got) in enumerate(zip(steps, gots)):
        reason = rm.match_reason(ad, pd)
        exp = reason.startswith("match")
        cls = f"hist:{ad[1]}:{'match' if exp else 'ver-fail'}"
        msg = None
        if got != exp:
            before = ", ".join(f"atom('{rm.atom_text(a)}').match({rm.pkg_cpv(p)})" for a, p in steps[:k]) or "nothing"
            msg = (
                f"after {before}: atom('{rm.atom_text(ad)}').match({rm.pkg_cpv(pd)}) = {got}, PMS matching says {exp} "
                f"(the verdict must not depend on earlier matches)"
            )
        out.append((k, cls, msg))
    return out


def work_hist(task):
    tier, _, ci, _, _ = task
    evals = 0
    classes = {}
    viol = []
    nper = {}
    samples = []
    for n, seq in histories(tier, ci):
        steps = hist_steps(tier, ci, n, seq)
        gots = run_history(steps)
        for k, cls, msg in judge_history(steps, gots):
            evals += 1
            classes[cls] = classes.get(cls, 0) + 1
            if msg is not None:
                key = (cls, k, len(seq))
                if nper.get(key, 0) < 2:
                    nper[key] = nper.get(key, 0) + 1
                    # the recorded history is cut after the failing step: the replay re-runs exactly that prefix
                    viol.append({"hist": [[list(a), list(p)] for a, p in steps[: k + 1]], "got": gots[k], "msg": msg})
        if len(samples) < 2:
            samples.append([rm.atom_text(steps[0][0]), rm.pkg_cpv(steps[0][1]), rm.atom_text(steps[-1][0]), rm.pkg_cpv(steps[-1][1])])
    viol.sort(key=lambda c: (len(c["hist"]), c["msg"]))
    return {"evals": evals, "classes": classes, "viol": viol, "samples": samples, "keep_all_viol": True}


def atoms_of(task):
    tier, key, op, ver, blocker = task
    slotmenu, repomenu, usemenu = _menus(tier)[2:5]
    for slot, subslot, slotop in slotmenu:
        for repo in repomenu:
            for use in usemenu:
                yield (blocker, op, key, ver, slot, subslot, slotop, repo, use)


# ---------------------------------------------------------------------------------------------------------------
# real objects

_repos = {}


def build_pkg(pd):
    from pkgcore.test.misc import FakePkg, FakeRepo

    key, ver, slot, subslot, repo, iuse, use = pd[:7]
    spelled = pd[7] if len(pd) > 7 else iuse
    r = _repos.get(repo)
    if r is None:
        r = _repos[repo] = FakeRepo(repo_id=repo)
    return FakePkg(f"{key}-{ver}", eapi="7", slot=slot, subslot=subslot, iuse=set(spelled), use=set(use), repo=r)


def build_atom(ad):
    from pkgcore.ebuild.atom import atom

    return atom(rm.atom_text(ad))


def classify(ad, pd, reason):
    """Outcome class for evidence (measured, reference side only): the deciding constraint; for version failures and
    matches also the operator."""
    op = ad[1] or "any"
    if reason == "ver":
        if ad[1] == "=*" and pd[1].startswith(ad[3]):
            return "ver-fail:=*:string-prefix-but-not-component-prefix"
        return "ver-fail:" + op
    if reason.startswith("match"):
        return reason + ":" + op
    return "fail:" + reason


def judge(ad, pd, got):
    """Shared by work and replay.  -> (class, message | None)"""
    reason = rm.match_reason(ad, pd)
    cls = classify(ad, pd, reason)
    if reason == "excluded":
        return "excluded-nodefault-usedep-flag-not-in-iuse", None
    if reason == "excluded-glob":
        return "excluded-glob-bare-suffix-continued-by-number", None
    exp = reason.startswith("match")
    if bool(got) == exp:
        return cls, None
    return cls, (
        f"atom('{rm.atom_text(ad)}').match({rm.pkg_cpv(pd)} slot={pd[2]}/{pd[3]} repo={pd[4]} "
        f"IUSE={' '.join(pd[7] if len(pd) > 7 else pd[5]) or '-'} USE={' '.join(pd[6]) or '-'}) = {bool(got)}, "
        f"PMS matching says {exp} ({reason})"
    )


def work(task):
    if task[1] == "#hist":
        return work_hist(task)
    tier = task[0]
    pds = packages(tier)
    pkgs = [build_pkg(pd) for pd in pds]
    pairs = list(zip(pds, pkgs))
    evals = 0
    classes = {}
    viol = []
    samples = []
    # at most 3 counterexamples per (outcome class, known-finding family or none) and task are recorded, so that a
    # flood of one family can never crowd out a counterexample of another kind; all are counted in evals
    nper = {}
    for ad in atoms_of(task):
        a = build_atom(ad)
        match = a.match
        for pd, pkg in pairs:
            got = match(pkg)
            cls, msg = judge(ad, pd, got)
            evals += 1
            classes[cls] = classes.get(cls, 0) + 1
            if msg is not None:
                case = {"atom": list(ad), "pkg": list(pd), "got": bool(got), "msg": msg}
                k = (cls, family(case))
                if nper.get(k, 0) < 3:
                    nper[k] = nper.get(k, 0) + 1
                    viol.append(case)
        if len(samples) < 2:
            samples.append([rm.atom_text(ad), rm.pkg_cpv(pairs[(evals * 7) % len(pairs)][0])])
    # unclassified counterexamples first, then the simplest (fewest constraints) first
    viol.sort(key=lambda c: (family(c) is not None, len(rm.atom_text(tuple(_t(c["atom"])))), len(c["pkg"][5]), c["pkg"][1]))
    return {"evals": evals, "classes": classes, "viol": viol, "samples": samples, "keep_all_viol": True}


def _t(lst):
    """JSON list -> descriptor tuple (inner lists become tuples)."""
    return tuple(tuple(x) if isinstance(x, list) else x for x in lst)


def replay(case):
    if "hist" in case:
        # rebuild the whole history in this (fresh) process; the case holds the prefix up to the failing step
        steps = [(_t(a), _t(p)) for a, p in case["hist"]]
        res = judge_history(steps, run_history(steps))
        return [msg for k, _, msg in res if msg is not None and k == len(steps) - 1]
    ad = _t(case["atom"])
    pd = _t(case["pkg"])
    got = build_atom(ad).match(build_pkg(pd))
    _, msg = judge(ad, pd, got)
    return [msg] if msg else []


# ---------------------------------------------------------------------------------------------------------------
# narrow classifiers for known_findings.json


def _glob_raw_prefix(case):
    """'=v*' matched a package whose version text starts with v although v's components are not a prefix of the
    package's components, and no other constraint of the atom fails on the package (or the only other failing
    constraint is one the known defect 'negated-use-deps-nand' lets through)."""
    if "hist" in case:
        return False
    ad, pd = _t(case["atom"]), _t(case["pkg"])
    if not (ad[1] == "=*" and case.get("got") is True and rm.match_reason(ad, pd) == "ver" and pd[1].startswith(ad[3])):
        return False
    rest = ad[:1] + ("",) + ad[2:3] + (None,) + ad[4:]
    r = rm.match_reason(rest, pd)
    if r in ("match", "match-default", "excluded"):
        return True
    return r in ("use", "use-default") and _negated_use_group({"atom": list(rest), "pkg": list(pd), "got": True})


def _negated_use_group(case):
    """Atom with >= 2 negated USE deps sharing the same default marker matched a package on which at least one, but
    not all, of those flags is enabled (and nothing else about the pair fails)."""
    if "hist" in case:
        return False
    ad, pd = _t(case["atom"]), _t(case["pkg"])
    if case.get("got") is not True or rm.match_reason(ad, pd) not in ("use", "use-default"):
        return False
    groups = {}
    for tok in ad[8]:
        neg, flag, default = rm.split_use_token(tok)
        if neg:
            groups.setdefault(default, []).append(tok)
    if not any(len(g) >= 2 for g in groups.values()):
        return False
    # every single token on its own must be judged correctly for this to be the group defect: the failing tokens
    # all belong to a group of >= 2 negated deps
    for tok in ad[8]:
        ok, _ = rm.use_holds((tok,), pd[5], pd[6])
        if ok is False:
            neg, flag, default = rm.split_use_token(tok)
            if not neg or len(groups.get(default, ())) < 2:
                return False
    return True


CLASSIFIERS = {"glob-raw-string-prefix": _glob_raw_prefix, "negated-use-deps-nand": _negated_use_group}


def family(case):
    """Name of the first classifier matching the case, or None (only used to keep the recorded cases diverse)."""
    for name, fn in CLASSIFIERS.items():
        if fn(case):
            return name
    return None


BOUNDS = {
    "quick": "41 operator/version heads (none; < <= = ~ >= > =* x 1, 1.1, 1-r1, 1_p1, 10; =* also on 1_p, 1_alpha, 1_beta, 1_pre, 1_rc, 1a) x "
    "3 blocker forms x 7 slot forms (incl. sub-slot equal to slot) x 2 repo forms x 21 USE-dep forms (+ 8 key-mismatch heads) = 38 514 atoms, "
    "each against 1 278 packages (a/p: 14 versions x 2 slots x 2 sub-slots x 2 repos x 9 IUSE/USE states; a/q: 14 versions x 9 states; "
    "a/p: 16 suffix/letter versions (every suffix with and without number) x 9 states) = 49.2 M matches; history dimension: 8 spelling "
    "pairs (x.01/x.010, x_alpha/x_alpha0, x_p0/x_p, x.0/x.00, both directions) x (130 x 130 depth-2 histories over {5 operators x 5 atom "
    "revisions x 5 package revisions} + {~ x 5} + 75 revision sweeps) = 135 800 histories, 273 400 judged steps",
    "thorough": "72 heads (9 written versions; =* also on 11 versions ending in a bare suffix name or letter) x 3 blockers x 8 slot forms x 3 repo "
    "forms x 48 USE-dep forms (all 36 x-token x y-token pairs) (+ 20 key-mismatch heads) = 275 328 atoms, each against 3 104 packages (18 "
    "versions; 33 suffix/letter versions; IUSE also spelled '+flag') = 855 M matches; history dimension: 17 spelling pairs, 6 revisions "
    "(none, r0-r3, r10), 589 662 histories, 1.19 M judged steps; time cap 1500 s",
}
