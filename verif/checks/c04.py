"""C04 atom.match(pkg) == PMS dependency matching (DESIGN §3 C04, Appendix A1/A2/A4)."""

import itertools

from verif import ref_match as rm

PROPERTY = "C04"
LEVEL = "exploration"
ENGINE = "enum"
TECHNIQUE = "exhaustive (atom, package) product vs an independent descriptor-level matcher"
RULE = (
    "every atom of a full product alphabet (blocker x operator x written version x slot/sub-slot/slot-operator menu x "
    "repository x USE-dependency menu incl. (+)/(-) defaults and two-flag pairs; plus key-mismatch atoms) is spelled as "
    "text, parsed by pkgcore.ebuild.atom.atom and matched against every package of a full product universe (key x "
    "version x slot x sub-slot x repository x per-flag IUSE/USE state) built with pkgcore.test.misc.FakePkg; the verdict "
    "is compared with a plain-Python matcher working on the descriptors (PMS order from the C01 reference, '~' ignoring "
    "the revision, '=v*' as component-list prefix, equality for slot/sub-slot/repo, USE deps with (+)/(-) deciding flags "
    "absent from IUSE, blocker ignored). A class is (operator, first failing constraint | match | match decided by a "
    "default | glob string-prefix-but-not-component-prefix); distinct_nontrivial counts classes observed."
)
TIME_CAP = {"thorough": 1500}
ASSUMPTIONS = [
    "Excl: (atom, package) pairs where a USE dependency without (+)/(-) names a flag absent from the package's IUSE and key, version, slot, sub-slot and repository all hold (PMS calls this an error; counted under class 'excluded-...', not judged)",
    "Excl: '=v*' whose written version ends in a letter or a number-less suffix, or spells a revision '-r0'; versions with leading-zero components (component-prefix vs. PMS wording arguable there)",
    "Excl: packages whose USE is not a subset of IUSE; USE-conditional deps ([x?], [x=], [!x?]) which need a parent USE state",
    "packages are pkgcore.test.misc.FakePkg objects with EAPI 7 (so that an IUSE entry '+x' counts as flag x in IUSE); only attributes slot, subslot, repo.repo_id, iuse, use, category, package, fullver are set by the harness",
    "only the listed version/slot/repo/flag menus are covered; nothing outside the product is claimed",
]

# ---------------------------------------------------------------------------------------------------------------
# alphabets

OPS = ("", "<", "<=", "=", "~", ">=", ">", "=*")
BLOCKERS = ("", "!", "!!")

# x-tokens and y-tokens for USE deps
_XT = ("x", "-x", "x(+)", "x(-)", "-x(+)", "-x(-)")
_YT = ("y", "-y", "y(+)", "y(-)", "-y(+)", "-y(-)")
# flag z is never in any package's IUSE: the default always decides
_ZT = [("z(+)",), ("-z(-)",), ("x", "-y", "z(+)"), ("-x", "-y", "-z(-)"), ("-x(+)", "-y(+)", "-z(+)")]


def _menus(tier):
    if tier == "quick":
        pkg_vers = ["1", "1.0", "1.1", "1.10", "1.1.1", "10", "2", "1-r1", "1-r2", "1-r10", "1_p1", "1_p10", "1_p1-r1", "1a"]
        atom_vers = ["1", "1.1", "1-r1", "1_p1", "10"]
        slotmenu = [(None, None, None), ("0", None, None), ("0", "0", None), ("0", "a", None), ("1", "a", None), (None, None, "="), ("0", None, "=")]
        repomenu = [None, "r1"]
        usemenu = [()] + [(t,) for t in _XT] + [
            ("x", "y"),
            ("-x", "-y"),
            ("x", "-y"),
            ("-x(+)", "-y(+)"),
            ("-x(-)", "-y(-)"),
            ("x(+)", "y(+)"),
            ("x(-)", "-y(+)"),
            ("x", "-y(-)"),
            ("-x", "y(+)"),
        ] + _ZT
        flags = ("x", "y")
        iuse_spellings = ("",)  # plain
        mismatch_keys = ["a/q", "b/p"]
    else:
        pkg_vers = [
            "1", "1.0", "1.1", "1.10", "1.1.1", "10", "10.1", "2", "0.9", "1-r1", "1-r2", "1-r10", "1.1-r1",
            "1_p1", "1_p10", "1_p1-r1", "1_alpha1", "1a",
        ]  # fmt: skip
        atom_vers = ["1", "1.1", "1-r1", "1_p1", "10", "1.0", "1a", "1_alpha1", "1.1-r1"]
        slotmenu = [
            (None, None, None), ("0", None, None), ("0", "0", None), ("0", "a", None), ("1", "a", None),
            (None, None, "="), (None, None, "*"), ("0", "a", "="),
        ]  # fmt: skip
        repomenu = [None, "r1", "r2"]
        usemenu = [()] + [(t,) for t in _XT] + [(a, b) for a in _XT for b in _YT] + _ZT
        flags = ("x", "y")
        iuse_spellings = ("", "+")
        mismatch_keys = ["a/q", "b/p", "b/q", "a/p-x", "a/pp"]
    return pkg_vers, atom_vers, slotmenu, repomenu, usemenu, flags, iuse_spellings, mismatch_keys


def verops(tier):
    """(op, ver) heads, simplest first."""
    atom_vers = _menus(tier)[1]
    out = [("", None)]
    for v in atom_vers:
        for op in OPS[1:]:
            if op == "~" and "-r" in v:
                continue  # not an atom
            if op == "=*" and not rm.glob_ok_version(v):
                continue  # Excl
            out.append((op, v))
    return out


def packages(tier):
    """Package descriptors PD + (iuse_spelled,), simplest first.  Key a/p: full product.  Key a/q (never the key of a
    full-menu atom): versions x IUSE/USE states only."""
    pkg_vers, _, _, _, _, flags, spellings, _ = _menus(tier)
    # per-flag state: (in_iuse, spelled_prefix, enabled)
    states = [(False, "", False), (True, "", False), (True, "", True)]
    for sp in spellings:
        if sp:
            states.append((True, sp, True))
    out = []
    for key in ("a/p", "a/q"):
        full = key == "a/p"
        for ver in pkg_vers:
            for slot in ("0", "1") if full else ("0",):
                for subslot in ("0", "a") if full else ("0",):
                    for repo in ("r1", "r2") if full else ("r1",):
                        for combo in itertools.product(states, repeat=len(flags)):
                            iuse = tuple(f for f, (i, _, _) in zip(flags, combo) if i)
                            spelled = tuple(sp + f for f, (i, sp, _) in zip(flags, combo) if i)
                            use = tuple(f for f, (i, _, e) in zip(flags, combo) if i and e)
                            out.append((key, ver, slot, subslot, repo, iuse, use, spelled))
    return out


def tasks(tier):
    """One task per (key, op, ver, blocker) head; the task enumerates the slot x repo x USE menus x all packages."""
    _, _, _, _, _, _, _, mismatch_keys = _menus(tier)
    out = []
    for op, ver in verops(tier):
        for b in BLOCKERS:
            out.append((tier, "a/p", op, ver, b))
    for key in mismatch_keys:
        for op, ver in (("", None), ("=", "1"), ("=*", "1"), (">=", "1")):
            out.append((tier, key, op, ver, ""))
    return out


def atoms_of(task):
    tier, key, op, ver, blocker = task
    _, _, slotmenu, repomenu, usemenu, _, _, _ = _menus(tier)
    for slot, subslot, slotop in slotmenu:
        for repo in repomenu:
            for use in usemenu:
                yield (blocker, op, key, ver, slot, subslot, slotop, repo, use)


# ---------------------------------------------------------------------------------------------------------------
# real objects

_repos = {}


def build_pkg(pd):
    from pkgcore.test.misc import FakePkg, FakeRepo

    key, ver, slot, subslot, repo, iuse, use = pd[:7]
    spelled = pd[7] if len(pd) > 7 else iuse
    r = _repos.get(repo)
    if r is None:
        r = _repos[repo] = FakeRepo(repo_id=repo)
    return FakePkg(f"{key}-{ver}", eapi="7", slot=slot, subslot=subslot, iuse=set(spelled), use=set(use), repo=r)


def build_atom(ad):
    from pkgcore.ebuild.atom import atom

    return atom(rm.atom_text(ad))


def classify(ad, pd, reason):
    """Outcome class for evidence (measured, reference side only): the deciding constraint; for version failures and
    matches also the operator."""
    op = ad[1] or "any"
    if reason == "ver":
        if ad[1] == "=*" and pd[1].startswith(ad[3]):
            return "ver-fail:=*:string-prefix-but-not-component-prefix"
        return "ver-fail:" + op
    if reason.startswith("match"):
        return reason + ":" + op
    return "fail:" + reason


def judge(ad, pd, got):
    """Shared by work and replay.  -> (class, message | None)"""
    reason = rm.match_reason(ad, pd)
    cls = classify(ad, pd, reason)
    if reason == "excluded":
        return "excluded-nodefault-usedep-flag-not-in-iuse", None
    exp = reason.startswith("match")
    if bool(got) == exp:
        return cls, None
    return cls, (
        f"atom('{rm.atom_text(ad)}').match({rm.pkg_cpv(pd)} slot={pd[2]}/{pd[3]} repo={pd[4]} "
        f"IUSE={' '.join(pd[7] if len(pd) > 7 else pd[5]) or '-'} USE={' '.join(pd[6]) or '-'}) = {bool(got)}, "
        f"PMS matching says {exp} ({reason})"
    )


def work(task):
    tier = task[0]
    pds = packages(tier)
    pkgs = [build_pkg(pd) for pd in pds]
    pairs = list(zip(pds, pkgs))
    evals = 0
    classes = {}
    viol = []
    samples = []
    # at most 3 counterexamples per (outcome class, known-finding family or none) and task are recorded, so that a
    # flood of one family can never crowd out a counterexample of another kind; all are counted in evals
    nper = {}
    for ad in atoms_of(task):
        a = build_atom(ad)
        match = a.match
        for pd, pkg in pairs:
            got = match(pkg)
            cls, msg = judge(ad, pd, got)
            evals += 1
            classes[cls] = classes.get(cls, 0) + 1
            if msg is not None:
                case = {"atom": list(ad), "pkg": list(pd), "got": bool(got), "msg": msg}
                k = (cls, family(case))
                if nper.get(k, 0) < 3:
                    nper[k] = nper.get(k, 0) + 1
                    viol.append(case)
        if len(samples) < 2:
            samples.append([rm.atom_text(ad), rm.pkg_cpv(pairs[(evals * 7) % len(pairs)][0])])
    # unclassified counterexamples first, then the simplest (fewest constraints) first
    viol.sort(key=lambda c: (family(c) is not None, len(rm.atom_text(tuple(_t(c["atom"])))), len(c["pkg"][5]), c["pkg"][1]))
    return {"evals": evals, "classes": classes, "viol": viol, "samples": samples, "keep_all_viol": True}


def _t(lst):
    """JSON list -> descriptor tuple (inner lists become tuples)."""
    return tuple(tuple(x) if isinstance(x, list) else x for x in lst)


def replay(case):
    ad = _t(case["atom"])
    pd = _t(case["pkg"])
    got = build_atom(ad).match(build_pkg(pd))
    _, msg = judge(ad, pd, got)
    return [msg] if msg else []


# ---------------------------------------------------------------------------------------------------------------
# narrow classifiers for known_findings.json


def _glob_raw_prefix(case):
    """'=v*' matched a package whose version text starts with v although v's components are not a prefix of the
    package's components, and no other constraint of the atom fails on the package (or the only other failing
    constraint is one the known defect 'negated-use-deps-nand' lets through)."""
    ad, pd = _t(case["atom"]), _t(case["pkg"])
    if not (ad[1] == "=*" and case.get("got") is True and rm.match_reason(ad, pd) == "ver" and pd[1].startswith(ad[3])):
        return False
    rest = ad[:1] + ("",) + ad[2:3] + (None,) + ad[4:]
    r = rm.match_reason(rest, pd)
    if r in ("match", "match-default", "excluded"):
        return True
    return r in ("use", "use-default") and _negated_use_group({"atom": list(rest), "pkg": list(pd), "got": True})


def _negated_use_group(case):
    """Atom with >= 2 negated USE deps sharing the same default marker matched a package on which at least one, but
    not all, of those flags is enabled (and nothing else about the pair fails)."""
    ad, pd = _t(case["atom"]), _t(case["pkg"])
    if case.get("got") is not True or rm.match_reason(ad, pd) not in ("use", "use-default"):
        return False
    groups = {}
    for tok in ad[8]:
        neg, flag, default = rm.split_use_token(tok)
        if neg:
            groups.setdefault(default, []).append(tok)
    if not any(len(g) >= 2 for g in groups.values()):
        return False
    # every single token on its own must be judged correctly for this to be the group defect: the failing tokens
    # all belong to a group of >= 2 negated deps
    for tok in ad[8]:
        ok, _ = rm.use_holds((tok,), pd[5], pd[6])
        if ok is False:
            neg, flag, default = rm.split_use_token(tok)
            if not neg or len(groups.get(default, ())) < 2:
                return False
    return True


CLASSIFIERS = {"glob-raw-string-prefix": _glob_raw_prefix, "negated-use-deps-nand": _negated_use_group}


def family(case):
    """Name of the first classifier matching the case, or None (only used to keep the recorded cases diverse)."""
    for name, fn in CLASSIFIERS.items():
        if fn(case):
            return name
    return None


BOUNDS = {
    "quick": "35 operator/version heads (none; < <= = ~ >= > =* x 1, 1.1, 1-r1, 1_p1, 10) x 3 blocker forms x 7 slot forms (incl. sub-slot equal to slot) x 2 repo forms x 21 "
    "USE-dep forms (+ 8 key-mismatch heads) = 28 476 atoms, each against 1 134 packages (a/p: 14 versions x 2 slots x 2 sub-slots x "
    "2 repos x 9 IUSE/USE states; a/q: 14 versions x 9 states) = 32.3 M matches",
    "thorough": "61 heads (9 written versions) x 3 blockers x 8 slot forms x 3 repo forms x 48 USE-dep forms (all 36 x-token x y-token "
    "pairs) (+ 20 key-mismatch heads) = 233 856 atoms, each against 2 592 packages (18 versions; IUSE also spelled '+flag') = 606 M matches; "
    "time cap 1500 s",
}
