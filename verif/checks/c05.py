"""C05 atom.intersects: symmetric, complete (a common match implies intersects), witnessed (intersects implies a
common match can be constructed).  DESIGN §3 C05."""

import itertools
import multiprocessing as mp

from verif import ref
from verif import ref_match as rm
from verif.checks.c04 import _t, build_atom, build_pkg

PROPERTY = "C05"
LEVEL = "exploration"
ENGINE = "enum"
TECHNIQUE = "exhaustive unordered atom pairs; witnesses by brute force over a perturbation-closed package universe using the implementation's own match"
RULE = (
    "all unordered pairs (incl. a=b) of same-key atoms from a full product alphabet (operator incl. none and =* x version "
    "pool x slot/sub-slot x repository x USE deps) are passed to atom.intersects in both orders; the answers must agree; "
    "the set of packages matched by each atom (atom.match on every package of a universe = depth-2 perturbation closure "
    "of the pool versions x slot x sub-slot x repo x IUSE/USE state) is kept as a bitset; a non-empty AND with "
    "intersects()==False is a completeness violation, an empty AND with intersects()==True is re-searched in the depth-3 "
    "closure and then a witness violation. A class is (deciding non-version constraint) or (operator pair, answer); "
    "distinct_nontrivial counts classes observed."
)
ASSUMPTIONS = [
    "witnesses are judged by the implementation's own atom.match (as the property says), so the check is independent of how '=v*' is defined; it demands only that intersects agrees with match",
    "a missing witness is reported only after a search of the depth-3 closure; closure = {change revision to none/r0..r3/rev+1, append _alpha1/_p1/_p0 suffix, append .0/.1 component, append digit 0 to the last number} applied to the pool versions; "
    "for the operator/pool alphabet used every non-empty intersection of two version constraints contains such a version (ranges: next revision; '~': a revision; '=*': a suffix, component or revision continuation)",
    "Excl: atom pairs in which one atom names a flag with a (+)/(-) default and the other names the same flag without one (PMS leaves matching of the no-default form on packages lacking the flag undefined)",
    "Excl: USE-conditional deps, slot operators, blockers (intersects ignores blocker state by its docstring; both atoms are non-blockers)",
    "only same-key atoms (a different key is a trivial early exit, covered by one extra atom)",
]

OPS = ("", "<", "<=", "=", "~", ">=", ">", "=*")


def _menus(tier):
    if tier == "quick":
        pool = ["1", "1.1", "1-r1", "1.1-r2", "2", "1_p1"]
        slotmenu = [(None, None), ("0", None), ("1", None), ("0", "a"), ("0", "b")]
        repomenu = [None, "r1", "r2"]
        usemenu = [(), ("x",), ("-x",), ("x", "y")]
        states = [(True, False), (True, True)]  # per flag: (in IUSE, enabled)
    else:
        pool = ["1", "1.1", "1-r1", "1.1-r2", "2", "1_p1", "1.0", "1-r2", "10"]
        slotmenu = [(None, None), ("0", None), ("1", None), ("0", "a"), ("0", "b"), ("1", "a"), ("1", "b")]
        repomenu = [None, "r1", "r2"]
        usemenu = [(), ("x",), ("-x",), ("x", "y"), ("x", "-y"), ("-x", "-y"), ("x(+)",), ("-x(+)",), ("x(-)",), ("-x(-)",), ("x(+)", "-y(-)")]
        states = [(False, False), (True, False), (True, True)]
    return pool, slotmenu, repomenu, usemenu, states


def heads(tier):
    pool = _menus(tier)[0]
    out = [("", None)]
    for v in pool:
        for op in OPS[1:]:
            if op == "~" and "-r" in v:
                continue
            out.append((op, v))
    return out


def atoms(tier):
    """All atom descriptors, simplest first (tails vary slowest so that the plain atoms come first)."""
    pool, slotmenu, repomenu, usemenu, _ = _menus(tier)
    out = []
    for use in usemenu:
        for repo in repomenu:
            for slot, subslot in slotmenu:
                for op, ver in heads(tier):
                    out.append(("", op, "a/p", ver, slot, subslot, None, repo, use))
    out.append(("", "", "a/q", None, None, None, None, None, ()))
    return out


# ---------------------------------------------------------------------------------------------------------------
# witness universe


def perturb(v):
    """Versions one perturbation away from v (structural; every result is a valid PMS version)."""
    first, rest, letter, sufs, rev = ref.parse_version(v)
    nums = ".".join((first, *rest))
    base = nums + letter + "".join("_" + s + n for s, n in sufs)
    out = [base]
    revs = {0, 1, 2, 3}
    if rev is not None:
        revs.add(int(rev) + 1)
    for r in sorted(revs):
        out.append(f"{base}-r{r}")
    r = "" if rev is None else "-r" + rev
    for s in ("_alpha1", "_p1", "_p0"):
        out.append(base + s + r)
    if not letter and not sufs:
        out.append(nums + ".0" + r)
        out.append(nums + ".1" + r)
    if v[-1].isdigit():
        out.append(v + "0")
    return out


def closure(pool, depth):
    seen = dict.fromkeys(pool)
    frontier = list(pool)
    for _ in range(depth):
        nxt = []
        for v in frontier:
            for w in perturb(v):
                if w not in seen:
                    seen[w] = None
                    nxt.append(w)
        frontier = nxt
    return list(seen)


def universe_pds(tier, depth=2):
    pool, slotmenu, repomenu, usemenu, states = _menus(tier)
    flags = ("x", "y")
    out = []
    for ver in closure(pool, depth):
        for slot in ("0", "1"):
            for subslot in ("a", "b"):
                for repo in ("r1", "r2"):
                    for combo in itertools.product(states, repeat=2):
                        iuse = tuple(f for f, (i, _) in zip(flags, combo) if i)
                        use = tuple(f for f, (i, e) in zip(flags, combo) if i and e)
                        out.append(("a/p", ver, slot, subslot, repo, iuse, use))
    return out


_UNI = {}
_BITS = {}


def universe(tier):
    u = _UNI.get(tier)
    if u is None:
        pds = universe_pds(tier)
        u = _UNI[tier] = (pds, [build_pkg(pd) for pd in pds])
    return u


def bits(tier, ad):
    """Bitset (int; bit i = package i of the universe, most significant first) of the packages ad matches."""
    k = (tier, ad)
    b = _BITS.get(k)
    if b is None:
        pkgs = universe(tier)[1]
        m = build_atom(ad).match
        b = _BITS[k] = int("".join("1" if m(p) else "0" for p in pkgs), 2)
    return b


def first_witness(tier, band):
    pds = universe(tier)[0]
    return pds[len(pds) - band.bit_length()]


def _bits_chunk(args):
    tier, lo, hi = args
    al = atoms(tier)
    return [(lo + i, bits(tier, ad)) for i, ad in enumerate(al[lo:hi])]


def SETUP(tier):
    """Pre-compute every atom's match bitset in parallel in the parent; the forked workers inherit _BITS."""
    al = atoms(tier)
    step = max(1, len(al) // 128)
    jobs = [(tier, lo, min(lo + step, len(al))) for lo in range(0, len(al), step)]
    with mp.get_context("fork").Pool(min(16, mp.cpu_count() or 1)) as pool:
        for res in pool.imap_unordered(_bits_chunk, jobs, chunksize=1):
            for i, b in res:
                _BITS[(tier, al[i])] = b


# ---------------------------------------------------------------------------------------------------------------


def excluded_pair(a, b):
    """A flag named with a default by one atom and without by the other."""
    fa = {}
    for tok in a[8]:
        _, flag, default = rm.split_use_token(tok)
        fa[flag] = default is not None
    for tok in b[8]:
        _, flag, default = rm.split_use_token(tok)
        if flag in fa and fa[flag] != (default is not None):
            return True
    return False


def classify(a, b, ans):
    if a[2] != b[2]:
        return "key-differs"
    if a[4] is not None and b[4] is not None and a[4] != b[4]:
        return "slot-differs"
    if a[5] is not None and b[5] is not None and a[5] != b[5]:
        return "subslot-differs"
    if a[7] is not None and b[7] is not None and a[7] != b[7]:
        return "repo-differs"
    if a[8] and b[8]:
        sa = {rm.split_use_token(t)[1]: rm.split_use_token(t)[0] for t in a[8]}
        for t in b[8]:
            neg, flag, _ = rm.split_use_token(t)
            if flag in sa and sa[flag] != neg:
                return "use-opposite"
    if not a[1] or not b[1]:
        return "unversioned"
    o1, o2 = sorted((a[1], b[1]))
    return f"{o1}|{o2}:{'T' if ans else 'F'}"


def deep_witness(tier, a, b):
    """Search the depth-3 closure (fresh objects) for a package both atoms match."""
    ma, mb = build_atom(a).match, build_atom(b).match
    for pd in universe_pds(tier, depth=3):
        p = build_pkg(pd)
        if ma(p) and mb(p):
            return pd
    return None


def judge(tier, a, b, A=None, B=None):
    """Shared by work and replay. -> (class, answer, [(kind, message)])"""
    if A is None:
        A, B = build_atom(a), build_atom(b)
    ab = bool(A.intersects(B))
    ba = bool(B.intersects(A))
    cls = classify(a, b, ab)
    band = bits(tier, a) & bits(tier, b)
    if ab == ba and ab == bool(band):
        return cls, ab, ()
    ta, tb = rm.atom_text(a), rm.atom_text(b)
    out = []
    if ab != ba:
        out.append(("asymmetric", f"atom('{ta}').intersects(atom('{tb}')) = {ab} but the other way round = {ba}"))
    deep = None
    for x, y, ans in ((ta, tb, ab), (tb, ta, ba)):
        if band and not ans:
            w = first_witness(tier, band)
            out.append(
                (
                    "missed",
                    f"atom('{x}').intersects(atom('{y}')) = False, but both match {rm.pkg_cpv(w)} "
                    f"(slot={w[2]}/{w[3]} repo={w[4]} IUSE={' '.join(w[5]) or '-'} USE={' '.join(w[6]) or '-'})",
                )
            )
        elif ans and not band:
            if deep is None:
                deep = (deep_witness(tier, a, b),)
            if deep[0] is None:
                out.append(
                    (
                        "unwitnessed",
                        f"atom('{x}').intersects(atom('{y}')) = True, but no package of the depth-3 closure universe is matched by both",
                    )
                )
        if ab == ba:
            break  # same answer both ways: one message is enough
    return cls, ab, out


CHUNK = {"quick": 12, "thorough": 40}


def tasks(tier):
    n = len(atoms(tier))
    c = CHUNK[tier]
    return [(tier, lo, min(lo + c, n)) for lo in range(0, n, c)]


def work(task):
    tier, lo, hi = task
    al = atoms(tier)
    evals = 0
    classes = {}
    viol = []
    nper = {}
    samples = []
    objs = [build_atom(ad) for ad in al]
    for i in range(lo, hi):
        a = al[i]
        for j in range(i, len(al)):
            b = al[j]
            if a[8] and b[8] and excluded_pair(a, b):
                classes["excluded-mixed-default-forms"] = classes.get("excluded-mixed-default-forms", 0) + 1
                continue
            cls, ans, msgs = judge(tier, a, b, objs[i], objs[j])
            evals += 1
            classes[cls] = classes.get(cls, 0) + 1
            for kind, msg in msgs:
                k = (kind, cls)
                if nper.get(k, 0) < 2:
                    nper[k] = nper.get(k, 0) + 1
                    viol.append({"tier": tier, "a": list(a), "b": list(b), "kind": kind, "msg": msg})
        if len(samples) < 2:
            samples.append([rm.atom_text(a), rm.atom_text(al[(i * 7 + 3) % len(al)])])
    return {"evals": evals, "classes": classes, "viol": viol, "samples": samples}


def replay(case):
    a, b = _t(case["a"]), _t(case["b"])
    _, _, msgs = judge(case["tier"], a, b)
    return [m for k, m in msgs if k == case["kind"]]


# ---------------------------------------------------------------------------------------------------------------
# narrow classifiers


def _ops(case):
    a, b = _t(case["a"]), _t(case["b"])
    return a, b


def _tails_compatible(a, b):
    return classify(a, b, True).count("|") == 1 or classify(a, b, True) == "unversioned"


def _glob_vs_match(case):
    """One atom is '=v*', the pair is decided by the version logic, and the two atoms' common matches all have a
    version that string-starts with v without v's components being a prefix (raw-prefix glob vs boundary-aware
    intersects)."""
    a, b = _ops(case)
    if "=*" not in (a[1], b[1]) or case["kind"] != "missed" or not _tails_compatible(a, b):
        return False
    band = bits(case["tier"], a) & bits(case["tier"], b)
    pds = universe(case["tier"])[0]
    n = len(pds)
    globs = [x[3] for x in (a, b) if x[1] == "=*"]
    i = 0
    while band:
        if band & 1:
            pv = pds[n - 1 - i][1]
            if all(rm.version_holds("=*", g, pv) for g in globs):
                return False
        band >>= 1
        i += 1
    return True


def _adjacent_revisions(case):
    """'>v-rN' against '<v-r(N+1)' (same version, adjacent revisions): reported as intersecting, nothing in between."""
    a, b = _ops(case)
    if case["kind"] != "unwitnessed" or {a[1], b[1]} != {"<", ">"} or not _tails_compatible(a, b):
        return False
    lo, hi = (a, b) if a[1] == ">" else (b, a)
    if ref.pms_ver_cmp(lo[3], hi[3], ignore_rev=True) != 0:
        return False
    rl = int(ref.parse_version(lo[3])[4] or 0)
    rh = int(ref.parse_version(hi[3])[4] or 0)
    return rh == rl + 1


CLASSIFIERS = {"glob-raw-prefix-vs-intersects": _glob_vs_match, "strict-range-adjacent-revisions": _adjacent_revisions}

BOUNDS = {
    "quick": "41 operator/version heads (pool 1, 1.1, 1-r1, 1.1-r2, 2, 1_p1) x 5 slot forms x 3 repo forms x 4 USE forms = 2461 atoms -> "
    "all 3.03 M unordered pairs, both argument orders; witness universe = depth-2 closure versions x 2 slots x 2 sub-slots x 2 repos x 4 USE states",
    "thorough": "62 heads (pool of 9 versions incl. 10) x 7 slot forms x 3 repo forms x 11 USE forms (incl. (+)/(-) defaults) = 14323 atoms -> all unordered pairs; "
    "universe additionally has packages lacking the flags in IUSE",
}
