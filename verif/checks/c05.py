"""C05 atom.intersects: symmetric, complete (a common match implies intersects), witnessed (intersects implies a
common match can be constructed).  DESIGN §3 C05."""

import itertools
import multiprocessing as mp
from functools import lru_cache

from verif import ref
from verif import ref_match as rm
from verif.checks.c04 import _t, build_atom, build_pkg

PROPERTY = "C05"
LEVEL = "exploration"
ENGINE = "enum"
TECHNIQUE = "exhaustive unordered atom pairs; witnesses by brute force over a perturbation-closed package universe using the implementation's own match"
RULE = (
    "all unordered pairs (incl. a=b) of same-key atoms from a full product alphabet (operator incl. none and =* x version "
    "pool x slot/sub-slot x repository x USE deps) are passed to atom.intersects in both orders; the answers must agree; "
    "the set of packages matched by each atom (atom.match on every package of a universe = depth-2 perturbation closure "
    "of the pool versions x slot x sub-slot x repo x IUSE/USE state) is kept as a bitset; a non-empty AND with "
    "intersects()==False is a completeness violation, an empty AND with intersects()==True is re-searched in the depth-3 "
    "closure and then a witness violation. A class is (deciding non-version constraint) or (operator pair, answer); "
    "distinct_nontrivial counts classes observed."
)
LEVEL_TEXT = (
    "Bounded exhaustive: every unordered pair of the stated finite atom alphabet is executed on the real "
    "atom.intersects in both argument orders; symmetry is judged directly, completeness and witnesses by brute force "
    "over a finite package universe with the implementation's own atom.match (as the property is stated), a missing "
    "witness only after a second search in a larger closure; nothing is sampled. " + RULE
)
TIME_CAP = {"thorough": 1500}
ASSUMPTIONS = [
    "witnesses are judged by the implementation's own atom.match (as the property says), so the check is independent of how '=v*' is defined; it demands only that intersects agrees with match",
    "a missing witness is reported only after a search of the depth-3 closure; closure = {change revision to none/r0..r3/rev+1, append _alpha1/_p1/_p0 suffix, append .0/.1 component, append digit 0 to the last number} applied to the pool versions; "
    "for the operator/pool alphabet used every non-empty intersection of two version constraints contains such a version (ranges: next revision; '~': a revision; '=*': a suffix, component or revision continuation)",
    "Excl: atom pairs in which one atom names a flag with a (+)/(-) default and the other names the same flag without one (PMS leaves matching of the no-default form on packages lacking the flag undefined)",
    "Excl: USE-conditional deps, slot operators, blockers (intersects ignores blocker state by its docstring; both atoms are non-blockers)",
    "only same-key atoms (a different key is a trivial early exit, covered by one extra atom)",
]

OPS = ("", "<", "<=", "=", "~", ">=", ">", "=*")


def _menus(tier):
    if tier == "quick":
        pool = ["1", "1.1", "1-r1", "1.1-r2", "2", "1_p1"]
        slotmenu = [(None, None), ("0", None), ("1", None), ("0", "a"), ("0", "b")]
        repomenu = [None, "r1", "r2"]
        usemenu = [(), ("x",), ("-x",), ("x", "y")]
        states = [(True, False), (True, True)]  # per flag: (in IUSE, enabled)
    else:
        pool = ["1", "1.1", "1-r1", "1.1-r2", "2", "1_p1", "1.0", "1-r2", "10"]
        slotmenu = [(None, None), ("0", None), ("1", None), ("0", "a"), ("0", "b"), ("1", "a"), ("1", "b")]
        repomenu = [None, "r1", "r2"]
        usemenu = [(), ("x",), ("-x",), ("x", "y"), ("x", "-y"), ("-x", "-y"), ("x(+)",), ("-x(+)",), ("x(-)",), ("-x(-)",), ("x(+)", "-y(-)")]
        states = [(False, False), (True, False), (True, True)]
    return pool, slotmenu, repomenu, usemenu, states


def heads(tier):
    pool = _menus(tier)[0]
    out = [("", None)]
    for v in pool:
        for op in OPS[1:]:
            if op == "~" and "-r" in v:
                continue
            out.append((op, v))
    return out


def atoms(tier):
    """All atom descriptors, simplest first (tails vary slowest so that the plain atoms come first)."""
    pool, slotmenu, repomenu, usemenu, _ = _menus(tier)
    out = []
    for use in usemenu:
        for repo in repomenu:
            for slot, subslot in slotmenu:
                for op, ver in heads(tier):
                    out.append(("", op, "a/p", ver, slot, subslot, None, repo, use))
    out.append(("", "", "a/q", None, None, None, None, None, ()))
    return out


# ---------------------------------------------------------------------------------------------------------------
# witness universe


def perturb(v):
    """Versions one perturbation away from v (structural; every result is a valid PMS version)."""
    first, rest, letter, sufs, rev = ref.parse_version(v)
    nums = ".".join((first, *rest))
    base = nums + letter + "".join("_" + s + n for s, n in sufs)
    out = [base]
    revs = {0, 1, 2, 3}
    if rev is not None:
        revs.add(int(rev) + 1)
    for r in sorted(revs):
        out.append(f"{base}-r{r}")
    r = "" if rev is None else "-r" + rev
    for s in ("_alpha1", "_p1", "_p0"):
        out.append(base + s + r)
    if not letter and not sufs:
        out.append(nums + ".0" + r)
        out.append(nums + ".1" + r)
    if v[-1].isdigit():
        out.append(v + "0")
    return out


def closure(pool, depth):
    seen = dict.fromkeys(pool)
    frontier = list(pool)
    for _ in range(depth):
        nxt = []
        for v in frontier:
            for w in perturb(v):
                if w not in seen:
                    seen[w] = None
                    nxt.append(w)
        frontier = nxt
    return list(seen)


def universe_pds(tier, depth=2):
    pool, slotmenu, repomenu, usemenu, states = _menus(tier)
    flags = ("x", "y")
    out = []
    for ver in closure(pool, depth):
        for slot in ("0", "1"):
            for subslot in ("a", "b"):
                for repo in ("r1", "r2"):
                    for combo in itertools.product(states, repeat=2):
                        iuse = tuple(f for f, (i, _) in zip(flags, combo) if i)
                        use = tuple(f for f, (i, e) in zip(flags, combo) if i and e)
                        out.append(("a/p", ver, slot, subslot, repo, iuse, use))
    for ver in pool:  # the one other-key atom needs something to match
        out.append(("a/q", ver, "0", "a", "r1", flags, ()))
    return out


_UNI = {}
_BITS = {}


def universe(tier):
    u = _UNI.get(tier)
    if u is None:
        pds = universe_pds(tier)
        u = _UNI[tier] = (pds, [build_pkg(pd) for pd in pds])
    return u


def bits(tier, ad):
    """Bitset (int; bit i = package i of the universe, most significant first) of the packages ad matches."""
    k = (tier, ad)
    b = _BITS.get(k)
    if b is None:
        pkgs = universe(tier)[1]
        m = build_atom(ad).match
        b = _BITS[k] = int("".join("1" if m(p) else "0" for p in pkgs), 2)
    return b


@lru_cache(maxsize=None)
def use_map(use):
    """USE-dep tuple -> {flag: (negated, default)} (cached; treat as read-only)."""
    return {flag: (neg, default) for neg, flag, default in map(rm.split_use_token, use)}


def nodefault_flags(ad):
    return frozenset(flag for flag, (neg, default) in use_map(ad[8]).items() if default is None)


_MASK = {}


def iuse_mask(tier, flags, pds=None, key=None):
    """Bitset of the packages whose IUSE contains all of `flags`: only those are PMS-defined witnesses for atoms that
    name these flags without a (+)/(-) default."""
    k = (tier, flags, key)
    m = _MASK.get(k)
    if m is None:
        if pds is None:
            pds = universe(tier)[0]
        m = _MASK[k] = int("".join("1" if flags.issubset(pd[5]) else "0" for pd in pds), 2)
    return m


def first_witness(tier, band):
    pds = universe(tier)[0]
    return pds[len(pds) - band.bit_length()]


def _bits_chunk(args):
    tier, lo, hi = args
    al = atoms(tier)
    return [(lo + i, bits(tier, ad)) for i, ad in enumerate(al[lo:hi])]


def SETUP(tier):
    """Pre-compute every atom's match bitset in parallel in the parent; the forked workers inherit _BITS."""
    al = atoms(tier)
    step = max(1, len(al) // 128)
    jobs = [(tier, lo, min(lo + step, len(al))) for lo in range(0, len(al), step)]
    with mp.get_context("fork").Pool(min(16, mp.cpu_count() or 1)) as pool:
        for res in pool.imap_unordered(_bits_chunk, jobs, chunksize=1):
            for i, b in res:
                _BITS[(tier, al[i])] = b


# ---------------------------------------------------------------------------------------------------------------


def excluded_pair(a, b):
    """A flag named with a default by one atom and without by the other."""
    ma, mb = use_map(a[8]), use_map(b[8])
    for flag, (_, default) in ma.items():
        o = mb.get(flag)
        if o is not None and (o[1] is None) != (default is None):
            return True
    return False


def classify(a, b, ans):
    if a[2] != b[2]:
        return "key-differs"
    if a[4] is not None and b[4] is not None and a[4] != b[4]:
        return "slot-differs"
    if a[5] is not None and b[5] is not None and a[5] != b[5]:
        return "subslot-differs"
    if a[7] is not None and b[7] is not None and a[7] != b[7]:
        return "repo-differs"
    if a[8] and b[8]:
        mb = use_map(b[8])
        for flag, (neg, _) in use_map(a[8]).items():
            o = mb.get(flag)
            if o is not None and o[0] != neg:
                return "use-opposite"
    if not a[1] or not b[1]:
        return "unversioned"
    o1, o2 = sorted((a[1], b[1]))
    return f"{o1}|{o2}:{'T' if ans else 'F'}"


_DEEP = {}
_DEEPBITS = {}


def deep_witness(tier, a, b):
    """Search the depth-3 closure for a package both atoms match (universe and per-atom bitsets cached per process)."""
    u = _DEEP.get(tier)
    if u is None:
        pds = universe_pds(tier, depth=3)
        u = _DEEP[tier] = (pds, [build_pkg(pd) for pd in pds])
    band = -1
    for ad in (a, b):
        k = (tier, ad)
        x = _DEEPBITS.get(k)
        if x is None:
            m = build_atom(ad).match
            x = _DEEPBITS[k] = int("".join("1" if m(p) else "0" for p in u[1]), 2)
        band &= x
    band &= iuse_mask(tier, nodefault_flags(a) | nodefault_flags(b), u[0], "deep")
    if not band:
        return None
    return u[0][len(u[0]) - band.bit_length()]


def judge(tier, a, b, A=None, B=None, deep_policy=None):
    """Shared by work and replay. -> (class, answer, [(kind, message)]).  deep_policy(a, b) -> False: skip the depth-3
    re-search and return kind 'unwitnessed-shallow' (never recorded as a violation; work() only does this for pairs
    of a known-finding family whose per-task quota of confirmed cases is already full)."""
    if A is None:
        A, B = build_atom(a), build_atom(b)
    ab = bool(A.intersects(B))
    ba = bool(B.intersects(A))
    cls = classify(a, b, ab)
    band = bits(tier, a) & bits(tier, b)
    if band and (a[8] or b[8]):
        band &= iuse_mask(tier, nodefault_flags(a) | nodefault_flags(b))
    if ab == ba and ab == bool(band):
        return cls, ab, ()
    ta, tb = rm.atom_text(a), rm.atom_text(b)
    out = []
    if ab != ba:
        out.append(("asymmetric", f"atom('{ta}').intersects(atom('{tb}')) = {ab} but the other way round = {ba}"))
    if deep_policy is not None and ab and ba and not band and not deep_policy(a, b):
        return cls, ab, (("unwitnessed-shallow", ""),)
    deep = None
    for x, y, ans in ((ta, tb, ab), (tb, ta, ba)):
        if band and not ans:
            w = first_witness(tier, band)
            out.append(
                (
                    "missed",
                    f"atom('{x}').intersects(atom('{y}')) = False, but both match {rm.pkg_cpv(w)} "
                    f"(slot={w[2]}/{w[3]} repo={w[4]} IUSE={' '.join(w[5]) or '-'} USE={' '.join(w[6]) or '-'})",
                )
            )
        elif ans and not band:
            if deep is None:
                deep = (deep_witness(tier, a, b),)
            if deep[0] is None:
                out.append(
                    (
                        "unwitnessed",
                        f"atom('{x}').intersects(atom('{y}')) = True, but no package of the depth-3 closure universe is matched by both",
                    )
                )
        if ab == ba:
            break  # same answer both ways: one message is enough
    return cls, ab, out


CHUNK = {"quick": 24, "thorough": 48}


def tasks(tier):
    n = len(atoms(tier))
    c = CHUNK[tier]
    return [(tier, lo, min(lo + c, n)) for lo in range(0, n, c)]


def work(task):
    tier, lo, hi = task
    al = atoms(tier)
    evals = 0
    classes = {}
    viol = []
    nper = {}  # recorded cases per (kind, class, known-finding family or None): at most 2 per task
    nfam = {}  # confirmed 'unwitnessed' cases per family
    samples = []
    objs = [build_atom(ad) for ad in al]

    def deep_policy(a, b):
        # The depth-3 re-search is expensive.  It is always done for a pair no classifier recognises (up to 40 confirmed
        # cases per task, by then the run fails anyway); for a recognised family only until 2 cases are confirmed.
        fam = family({"tier": tier, "a": list(a), "b": list(b), "kind": "unwitnessed"})
        return nfam.get(fam, 0) < (2 if fam else 40)

    for i in range(lo, hi):
        a = al[i]
        for j in range(i, len(al)):
            b = al[j]
            if a[8] and b[8] and excluded_pair(a, b):
                classes["excluded-mixed-default-forms"] = classes.get("excluded-mixed-default-forms", 0) + 1
                continue
            cls, ans, msgs = judge(tier, a, b, objs[i], objs[j], deep_policy)
            evals += 1
            classes[cls] = classes.get(cls, 0) + 1
            for kind, msg in msgs:
                if kind == "unwitnessed-shallow":
                    classes["unwitnessed-known-family-beyond-quota"] = classes.get("unwitnessed-known-family-beyond-quota", 0) + 1
                    continue
                case = {"tier": tier, "a": list(a), "b": list(b), "kind": kind, "msg": msg}
                fam = family(case)
                if kind == "unwitnessed":
                    nfam[fam] = nfam.get(fam, 0) + 1
                k = (kind, cls, fam)
                if nper.get(k, 0) < 2:
                    nper[k] = nper.get(k, 0) + 1
                    viol.append(case)
        if len(samples) < 2:
            samples.append([rm.atom_text(a), rm.atom_text(al[(i * 7 + 3) % len(al)])])
    viol.sort(key=lambda c: family(c) is not None)  # unclassified first
    return {"evals": evals, "classes": classes, "viol": viol, "samples": samples, "keep_all_viol": True}


def replay(case):
    a, b = _t(case["a"]), _t(case["b"])
    _, _, msgs = judge(case["tier"], a, b)
    return [m for k, m in msgs if k == case["kind"]]


# ---------------------------------------------------------------------------------------------------------------
# narrow classifiers


def _ops(case):
    a, b = _t(case["a"]), _t(case["b"])
    return a, b


def _tails_compatible(a, b):
    return classify(a, b, True).count("|") == 1 or classify(a, b, True) == "unversioned"


def _glob_vs_match(case):
    """One atom is '=v*', the pair is decided by the version logic, and the two atoms' common matches all have a
    version that string-starts with v without v's components being a prefix (raw-prefix glob vs boundary-aware
    intersects)."""
    a, b = _ops(case)
    if "=*" not in (a[1], b[1]) or case["kind"] != "missed" or not _tails_compatible(a, b):
        return False
    band = bits(case["tier"], a) & bits(case["tier"], b)
    pds = universe(case["tier"])[0]
    globs = [x[3] for x in (a, b) if x[1] == "=*"]
    common = {pds[k][1] for k, ch in enumerate(bin(band)[2:].zfill(len(pds))) if ch == "1"}
    return bool(common) and not any(all(rm.version_holds("=*", g, pv) for g in globs) for pv in common)


def _adjacent_revisions(case):
    """'>v-rN' against '<v-r(N+1)' (same version, adjacent revisions): reported as intersecting, nothing in between."""
    a, b = _ops(case)
    if case["kind"] != "unwitnessed" or {a[1], b[1]} != {"<", ">"} or not _tails_compatible(a, b):
        return False
    lo, hi = (a, b) if a[1] == ">" else (b, a)
    if ref.pms_ver_cmp(lo[3], hi[3], ignore_rev=True) != 0:
        return False
    rl = int(ref.parse_version(lo[3])[4] or 0)
    rh = int(ref.parse_version(hi[3])[4] or 0)
    return rh == rl + 1


def _glob_with_revision(case):
    """'=v-rN*' against '~w', '>w' or '>=w' that does not match v-rN: intersects looks at v only (drops the glob's
    revision) and answers True although the glob matches nothing beyond v-rN[digits]."""
    a, b = _ops(case)
    if case["kind"] != "unwitnessed" or not _tails_compatible(a, b):
        return False
    for g, o in ((a, b), (b, a)):
        if g[1] == "=*" and "-r" in g[3] and o[1] in ("~", ">", ">="):
            base = g[3].split("-r")[0]
            if o[3].startswith(base) and not rm.version_holds(o[1], o[3], g[3]):
                return True
    return False


def _use_sign_pairs(a, b):
    """[(flag, tokA, tokB)] for flags both atoms name with opposite sign."""
    ta = {rm.split_use_token(t)[1]: t for t in a[8]}
    out = []
    for t in b[8]:
        neg, flag, _ = rm.split_use_token(t)
        if flag in ta and rm.split_use_token(ta[flag])[0] != neg:
            out.append((flag, ta[flag], t))
    return out


def _use_default_conflict(case):
    """Opposite-sign USE deps on one flag, both with a default marker, spelled so that no package can satisfy both
    (-f(+) with f(-)): intersects compares token text only and reports an intersection."""
    a, b = _ops(case)
    if case["kind"] != "unwitnessed":
        return False
    for flag, t1, t2 in _use_sign_pairs(a, b):
        (n1, _, d1), (n2, _, d2) = rm.split_use_token(t1), rm.split_use_token(t2)
        pos_d, neg_d = (d2, d1) if n1 else (d1, d2)
        if d1 is not None and d2 is not None and d1 != d2 and not (pos_d == "+" and neg_d == "-"):
            return True
    return False


def _match_nand_leak(case):
    """Consequence of the C04 defect 'negated-use-deps-nand' in atom.match: an atom with >= 2 negated USE deps in one
    default group matches packages that have one of the flags on, so such a package 'matches both' although the atoms
    demand opposite states of a flag."""
    a, b = _ops(case)
    if case["kind"] != "missed" or not _use_sign_pairs(a, b):
        return False
    for x in (a, b):
        groups = {}
        for tok in x[8]:
            neg, flag, default = rm.split_use_token(tok)
            if neg:
                groups[default] = groups.get(default, 0) + 1
        if any(n >= 2 for n in groups.values()):
            return True
    return False


CLASSIFIERS = {
    "glob-raw-prefix-vs-intersects": _glob_vs_match,
    "strict-range-adjacent-revisions": _adjacent_revisions,
    "glob-with-revision-treated-as-version-glob": _glob_with_revision,
    "use-default-conflict-by-token-text": _use_default_conflict,
    "match-negated-use-deps-nand": _match_nand_leak,
}

def family(case):
    """Name of the first classifier matching the case, or None."""
    for name, fn in CLASSIFIERS.items():
        if fn(case):
            return name
    return None


BOUNDS = {
    "quick": "41 operator/version heads (none; < <= = ~ >= > =* x pool 1, 1.1, 1-r1, 1.1-r2, 2, 1_p1) x 5 slot/sub-slot forms x 3 repo forms x "
    "4 USE forms (none, [x], [-x], [x,y]) + 1 other-key atom = 2 461 atoms -> all 3 029 491 unordered pairs incl. a=a, both argument orders; "
    "witness universe 8 902 packages = 278 versions (depth-2 closure of the pool) x 2 slots x 2 sub-slots x 2 repos x 4 USE states; "
    "re-search universe 1 344 versions (depth 3)",
    "thorough": "61 heads (pool of 9 versions, adds 1.0, 1-r2, 10) x 7 slot/sub-slot forms x 3 repo forms x 11 USE forms (adds [x,-y], [-x,-y] and "
    "(+)/(-) default forms) + 1 = 14 092 atoms -> all 99.3 M unordered pairs (44 % of the both-USE pairs excluded as mixed default/no-default); "
    "witness universe 28 809 packages = 400 versions x 8 x 9 IUSE/USE states (incl. flags absent from IUSE); time cap 1500 s",
}
