"""C06 boolean restriction trees evaluate as propositional logic; derived DNF/CNF are equivalent.

Every abstract tree of a bounded family is built from the real pkgcore node classes
(AndRestriction, OrRestriction, JustOneRestriction, AtMostOneOfRestriction, restriction.Negate)
over real leaf restrictions, matched against every element of a small universe and compared
with a structural-recursion evaluation of the same abstract tree (Appendix A5).  Every normal
form pkgcore derives (dnf_solutions / iter_dnf_solutions / cnf_solutions / iter_cnf_solutions)
is evaluated clause by clause through its members' own ``match`` and compared with the same
reference truth table.
"""

import itertools

PROPERTY = "C06"
LEVEL = "exploration"
ENGINE = "enum"
TECHNIQUE = "exhaustive enumeration of bounded tree shapes x leaf realisations x universe, truth-table comparison with a structural-recursion model"
RULE = (
    "all abstract trees of the bounded families (node kinds all-of/any-of/exactly-one/at-most-one x negate, Negate "
    "wrapper, arity 0-3, depth <=4 in the deep families) instantiated with real pkgcore restrictions under 5 leaf "
    "realisations (package leaves, negated-construction leaves, atoms, two value-level sets); each tree is matched "
    "against all 16 universe elements and each derived normal form (4 entry points, plus full expansion for atoms) "
    "is evaluated on all 16 elements; reference = structural recursion over the abstract tree. One evaluation = one "
    "(tree, realisation) with its full truth table and all normal forms. A class is (entry point family, root kind, "
    "derived/not-implemented, normal-form shape) or the number of satisfying universe elements."
)
ASSUMPTIONS = [
    "Excl: any-of nodes with no children (match says false, the depset convention and pkgcore's own normal forms say satisfied)",
    "Excl: exactly-one-of nodes with no children (pkgcore and PMS EAPI<=6 say satisfied, a literal propositional reading and PMS EAPI>=7 say not)",
    "NotImplementedError raised while deriving a CNF through a negated node counts as 'not derived' and is skipped (counted)",
    "leaf restrictions' own match is trusted only through an independent plain-Python predicate per leaf on the universe element's raw fields",
    "force_True/force_False, evaluate_conditionals and non-finalized (mutable) nodes are not covered",
    "trees outside the enumerated families (arity > 3, depth > 4, more than 4 distinct leaves) are not covered",
]
BOUNDS = {
    "quick": "724k (tree, realisation) evaluations: depth<=1: all kinds + Negate, 4 leaves, arity 0-3 (x5 realisations); depth 2: all kinds, arity 1 (x5) and "
    "arity 2 (x3 realisations) over the 106 depth<=1 trees on 3 leaves; depth 2 arity 3 over 30 all-of/any-of subtrees on 2 leaves; depth 3 all-of/any-of "
    "roots, arity 1 over 11.5k depth<=2 subtrees and arity 2 with a leaf sibling (both orders)",
    "thorough": "9.89M evaluations: depth 2 arity<=2 over the 172 depth<=1 trees on 4 leaves (x5 realisations); depth 2 arity 3 over the 56 depth<=1 trees on 2 leaves (x2); "
    "depth 3 arity 2 (11.5k depth<=2 subtrees x 53 depth<=1 subtrees, both orders); depth 4 all-of/any-of chains (45.8k depth-3 subtrees, arity 1 and arity 2 with a leaf sibling)",
}

# ----------------------------------------------------------------------------------------------
# abstract trees:  int leaf index | ("N", tree) | (kind, negate, (children...)),  kind in "AOJM"
# ----------------------------------------------------------------------------------------------

ALL = [(k, n) for k in "AOJM" for n in (0, 1)]
AO = [(k, n) for k in "AO" for n in (0, 1)]


def mk_nodes(kinds, pool, arities, with_not):
    out = []
    for a in arities:
        if a == 1 and with_not:
            out += [("N", c) for c in pool]
        for k, n in kinds:
            if a == 0 and k in "OJ":
                continue  # excluded, see ASSUMPTIONS
            for ch in itertools.product(pool, repeat=a):
                out.append((k, n, ch))
    return out


_pools = {}


def pool(name):
    p = _pools.get(name)
    if p is not None:
        return p
    if name == "L4":
        p = [0, 1, 2, 3]
    elif name == "L3":
        p = [0, 1, 2]
    elif name == "L2":
        p = [0, 1]
    elif name == "L02":
        p = [0, 2]
    elif name == "C1_3":
        p = pool("L3") + mk_nodes(ALL, pool("L3"), (0, 1, 2), True)
    elif name == "C1_4":
        p = pool("L4") + mk_nodes(ALL, pool("L4"), (0, 1, 2), True)
    elif name == "C1_2ao":
        p = pool("L2") + mk_nodes(AO, pool("L2"), (0, 1, 2), True)
    elif name == "C1_2":
        p = pool("L2") + mk_nodes(ALL, pool("L2"), (0, 1, 2), True)
    elif name == "LITS":
        p = [0, 1, ("J", 0, (0, 1))]
    elif name == "C1n":
        p = pool("LITS") + mk_nodes(AO, pool("LITS"), (0, 1, 2), False)
    elif name == "C2n":
        p = pool("C1n") + mk_nodes(AO, pool("C1n"), (1, 2), False)
    elif name == "D3n1":  # depth-3 unary chains only
        p = mk_nodes(AO, pool("C2n")[len(pool("C1n")) :], (1,), False)
    else:
        raise KeyError(name)
    _pools[name] = p
    return p


PKG_REALS = ["pkg", "pkgneg", "atom"]
ALL_REALS = ["pkg", "pkgneg", "atom", "val", "val2"]

# (name, root kinds, Negate-root allowed, pools per child position, realisations)
SPACES = {
    "quick": [
        ("d1a0", ALL, False, [], ALL_REALS),
        ("d1a1", ALL, True, ["L4"], ALL_REALS),
        ("d1a2", ALL, False, ["L4", "L4"], ALL_REALS),
        ("d1a3", ALL, False, ["L4", "L4", "L4"], ALL_REALS),
        ("d2a1", ALL, True, ["C1_3"], ALL_REALS),
        ("d2a2", ALL, False, ["C1_3", "C1_3"], ["pkg", "atom", "val"]),
        ("d2a3", ALL, False, ["C1_2ao", "C1_2ao", "C1_2ao"], ["pkg"]),
        ("d3a1", AO, False, ["C2n"], ["pkg"]),
        ("d3a2l", AO, False, ["C2n", "L02"], ["pkg"]),
        ("d3a2r", AO, False, ["L02", "C2n"], ["pkg"]),
    ],
    "thorough": [
        ("d1a0", ALL, False, [], ALL_REALS),
        ("d1a1", ALL, True, ["L4"], ALL_REALS),
        ("d1a2", ALL, False, ["L4", "L4"], ALL_REALS),
        ("d1a3", ALL, False, ["L4", "L4", "L4"], ALL_REALS),
        ("d2a1", ALL, True, ["C1_4"], ALL_REALS),
        ("d2a2", ALL, False, ["C1_4", "C1_4"], ALL_REALS),
        ("d2a3", ALL, False, ["C1_2", "C1_2", "C1_2"], ["pkg", "val"]),
        ("d3a1", AO, False, ["C2n"], ["pkg", "val"]),
        ("d3a2l", AO, False, ["C2n", "C1n"], ["pkg"]),
        ("d3a2r", AO, False, ["C1n", "C2n"], ["pkg"]),
        ("d4a1", AO, False, ["D3n1"], ["pkg"]),
        ("d4a2l", AO, False, ["D3n1", "L02"], ["pkg"]),
        ("d4a2r", AO, False, ["L02", "D3n1"], ["pkg"]),
    ],
}
TARGET_PER_TASK = {"quick": 6000, "thorough": 40000}


def tasks(tier):
    out = []
    for name, kinds, with_not, pools, reals in SPACES[tier]:
        roots = [(k, n) for k, n in kinds if not (not pools and k in "OJ")]
        if with_not:
            roots = roots + [("N", 0)]
        if not pools:
            for real in reals:
                out.append((tier, name, real, None, 0, 1))
            continue
        first = len(pool(pools[0]))
        rest = 1
        for pn in pools[1:]:
            rest *= len(pool(pn))
        for real in reals:
            for root in roots:
                if root[0] == "N" and len(pools) != 1:
                    continue
                step = max(1, TARGET_PER_TASK[tier] // rest)
                for lo in range(0, first, step):
                    out.append((tier, name, real, root, lo, min(first, lo + step)))
    return out


def space_by_name(tier, name):
    for s in SPACES[tier]:
        if s[0] == name:
            return s
    raise KeyError(name)


def iter_task_trees(task):
    tier, name, real, root, lo, hi = task
    _, kinds, with_not, pools, _ = space_by_name(tier, name)
    if not pools:
        for k, n in kinds:
            if k in "OJ":
                continue
            yield (k, n, ())
        return
    first = pool(pools[0])[lo:hi]
    rest = [pool(pn) for pn in pools[1:]]
    k, n = root
    if k == "N":
        for c in first:
            yield ("N", c)
        return
    for c in first:
        for others in itertools.product(*rest):
            yield (k, n, (c,) + others)


# ----------------------------------------------------------------------------------------------
# text form (replay cases carry the tree as a short string)
# ----------------------------------------------------------------------------------------------


def show(t):
    if isinstance(t, int):
        return str(t)
    if t[0] == "N":
        return "N(" + show(t[1]) + ")"
    k, n, ch = t
    return ("!" if n else "") + k + "(" + ",".join(show(c) for c in ch) + ")"


def parse(s):
    pos = 0

    def tree():
        nonlocal pos
        c = s[pos]
        if c.isdigit():
            pos += 1
            return int(c)
        neg = 0
        if c == "!":
            neg = 1
            pos += 1
            c = s[pos]
        assert c in "AOJMN", s
        pos += 1
        assert s[pos] == "(", s
        pos += 1
        ch = []
        while s[pos] != ")":
            ch.append(tree())
            if s[pos] == ",":
                pos += 1
        pos += 1
        if c == "N":
            assert len(ch) == 1 and not neg, s
            return ("N", ch[0])
        return (c, neg, tuple(ch))

    t = tree()
    assert pos == len(s), s
    return t


# ----------------------------------------------------------------------------------------------
# reference model (plain Python; never touches pkgcore)
# ----------------------------------------------------------------------------------------------


def sat(t, env):
    """A5 propositional evaluation by structural recursion."""
    if isinstance(t, int):
        return env[t]
    if t[0] == "N":
        return not sat(t[1], env)
    k, n, ch = t
    vals = [sat(c, env) for c in ch]
    if k == "A":
        v = all(vals)
    elif k == "O":
        v = any(vals)
    elif k == "J":
        v = sum(1 for x in vals if x) == 1
    else:
        v = sum(1 for x in vals if x) <= 1
    return (not v) if n else v


def pkg_universe():
    """16 packages as raw field tuples (category, package, version, use)."""
    return [(c, p, v, u) for c in "az" for p in "by" for v in ("1", "3") for u in ((), ("x",))]


def val_universe():
    out = []
    for b0 in (1, 0):
        for b1 in (1, 0):
            for b2 in (1, 0):
                for b3 in (1, 0):
                    out.append(("p" if b0 else "q") + ("m" if b2 else "n") + ("1" if b3 else "_") + ("s" if b1 else "t"))
    return out


# independent leaf predicates on raw universe elements, per realisation
LEAF_REF = {
    "pkg": [
        lambda e: e[0] == "a",
        lambda e: e[1] == "b",
        lambda e: int(e[2]) >= 2,
        lambda e: "x" in e[3],
    ],
    "pkgneg": [
        lambda e: e[0] != "a",
        lambda e: e[1] != "b",
        lambda e: int(e[2]) >= 2,
        lambda e: "x" not in e[3],
    ],
    "atom": [
        lambda e: e[0] == "a" and e[1] == "b",
        lambda e: e[0] == "z" and e[1] == "y",
        lambda e: int(e[2]) >= 2,
        lambda e: e[0] == "a" and e[1] == "b" and "x" in e[3],
    ],
    "val": [
        lambda s: s[0] == "p",
        lambda s: s[-1] == "s",
        lambda s: "m" in s,
        lambda s: any(ch in "0123456789" for ch in s),
    ],
    "val2": [
        lambda s: s == "pm1s",
        lambda s: s.lower() == "qn_t",
        lambda s: s.lower()[0] == "p",
        lambda s: s[-1] not in "sS",
    ],
}


def ref_envs(real):
    uni = val_universe() if real.startswith("val") else pkg_universe()
    return [tuple(bool(f(e)) for f in LEAF_REF[real]) for e in uni]


_envs = {}


def envs(real):
    if real not in _envs:
        _envs[real] = ref_envs(real)
    return _envs[real]


FULL = 0xFFFF
_leaf_tables = {}
_tables = {}


def leaf_tables(real):
    lt = _leaf_tables.get(real)
    if lt is None:
        lt = [0, 0, 0, 0]
        for i, env in enumerate(envs(real)):
            for j in range(4):
                if env[j]:
                    lt[j] |= 1 << i
        _leaf_tables[real] = lt
    return lt


def combine(k, n, masks):
    """Truth table (bit i = universe element i) of one node from its children's tables."""
    if k == "A":
        v = FULL
        for m in masks:
            v &= m
    elif k == "O":
        v = 0
        for m in masks:
            v |= m
    else:
        once = twice = 0
        for m in masks:
            twice |= once & m
            once |= m
        v = (once & ~twice) if k == "J" else ~twice
        v &= FULL
    return (FULL ^ v) if n else v


def ref_table(t, real):
    """Reference truth table of an abstract tree: the same structural recursion as `sat`, all 16 universe
    elements at once (bitwise); subtree tables are memoised.  `replay` cross-checks it against `sat`."""
    if isinstance(t, int):
        return leaf_tables(real)[t]
    key = (real, t)
    v = _tables.get(key)
    if v is not None:
        return v
    if t[0] == "N":
        v = FULL ^ ref_table(t[1], real)
    else:
        v = combine(t[0], t[1], [ref_table(c, real) for c in t[2]])
    if len(_tables) < 300000:
        _tables[key] = v
    return v


def ref_table_naive(t, real):
    m = 0
    for i, env in enumerate(envs(real)):
        if sat(t, env):
            m |= 1 << i
    return m


# ----------------------------------------------------------------------------------------------
# model of the *known* normal-form defects (used only by CLASSIFIERS, never by the oracle)
# ----------------------------------------------------------------------------------------------


def model_table(t, real, mode, bugs):
    """Truth table of the normal form pkgcore derives for t if exactly the defects in `bugs` are present
    (None = NotImplementedError).  Opaque positions (leaves, Negate, exactly-one, at-most-one) take the
    tree's true value."""
    if isinstance(t, int) or t[0] in "NJM":
        return ref_table(t, real)
    k, n, ch = t
    if mode == "cnf":
        if n:
            return None
        vals = [model_table(c, real, "cnf" if k == "A" else "dnf", bugs) for c in ch]
        if any(v is None for v in vals):
            return None
        return combine(k, 0, vals)
    if k == "A":
        if not n:
            return combine("A", 0, [model_table(c, real, "dnf", bugs) for c in ch])
        if not ch:
            # routed through an empty any-of, whose DNF is [[]]
            return FULL if "and_neg_empty" in bugs else 0
        return combine("A", 1, [ref_table(c, real) for c in ch])
    if not n:
        return combine("O", 0, [model_table(c, real, "dnf", bugs) for c in ch])
    v = combine("O", 1, [ref_table(c, real) for c in ch])
    if "or_neg" in bugs:
        v |= combine("O", 0, [model_table(c, real, "dnf", bugs) for c in ch])
    return v


KNOWN_BUGS = ("or_neg", "and_neg_empty")


def _explained_by(case, bug):
    if case.get("kind") != "nf":
        return False
    t = parse(case["tree"])
    mode = "dnf" if "dnf" in case["form"] else "cnf"
    obs = case["obs"]
    if obs == ref_table(t, case["real"]):
        return False
    for r in range(len(KNOWN_BUGS) + 1):
        for bs in itertools.combinations(KNOWN_BUGS, r):
            if bug not in bs:
                continue
            without = tuple(b for b in bs if b != bug)
            if model_table(t, case["real"], mode, bs) == obs and model_table(t, case["real"], mode, without) != obs:
                return True
    return False


CLASSIFIERS = {
    # DNF of a negated any-of also yields the positive alternatives (missing return in OrRestriction.iter_dnf_solutions)
    "negated-anyof-dnf-fallthrough": lambda case: _explained_by(case, "or_neg"),
    # DNF of a negated all-of with no children is derived through an empty any-of and comes out satisfied
    "negated-empty-allof-dnf": lambda case: _explained_by(case, "and_neg_empty"),
}

# ----------------------------------------------------------------------------------------------
# the real thing
# ----------------------------------------------------------------------------------------------

_real = {}


def realisation(real):
    """-> (universe objects, leaf restrictions, node_type)"""
    r = _real.get(real)
    if r is not None:
        return r
    from pkgcore.ebuild import restricts
    from pkgcore.ebuild.atom import atom
    from pkgcore.restrictions import packages, restriction, values
    from pkgcore.test.misc import FakePkg

    if real.startswith("val"):
        uni = val_universe()
        ntype = restriction.value_type
        if real == "val":
            leaves = [
                values.StrGlobMatch("p"),
                values.StrGlobMatch("s", prefix=False),
                values.ContainmentMatch("m"),
                values.StrRegex("[0-9]"),
            ]
        else:
            leaves = [
                values.StrExactMatch("pm1s"),
                values.StrExactMatch("QN_T", case_sensitive=False),
                values.StrGlobMatch("P", case_sensitive=False),
                values.StrRegex("S$", case_sensitive=False, negate=True),
            ]
    else:
        uni = [FakePkg(f"{c}/{p}-{v}", use=u) for c, p, v, u in pkg_universe()]
        ntype = restriction.package_type
        if real == "pkg":
            leaves = [
                restricts.CategoryDep("a"),
                restricts.PackageDep("b"),
                restricts.VersionMatch(">=", "2"),
                packages.PackageRestriction("use", values.ContainmentMatch("x")),
            ]
        elif real == "pkgneg":
            leaves = [
                packages.PackageRestriction("category", values.StrExactMatch("a"), negate=True),
                restricts.PackageDep("b", negate=True),
                restricts.VersionMatch("<", "2", negate=True),
                packages.PackageRestriction("use", values.ContainmentMatch("x", negate=True)),
            ]
        else:
            leaves = [atom("a/b"), atom("z/y"), restricts.VersionMatch(">=", "2"), atom("a/b[x]")]
    r = _real[real] = (uni, leaves, ntype)
    return r


_built = {}


def build(t, real, keep=True):
    """abstract tree -> real pkgcore restriction (subtrees memoised per process; construction is pure)."""
    key = (real, t)
    r = _built.get(key)
    if r is not None:
        return r
    from pkgcore.restrictions import boolean, restriction

    uni, leaves, ntype = realisation(real)
    if isinstance(t, int):
        r = leaves[t]
    elif t[0] == "N":
        r = restriction.Negate(build(t[1], real))
    else:
        k, n, ch = t
        cls = {
            "A": boolean.AndRestriction,
            "O": boolean.OrRestriction,
            "J": boolean.JustOneRestriction,
            "M": boolean.AtMostOneOfRestriction,
        }[k]
        r = cls(*[build(c, real) for c in ch], node_type=ntype, negate=bool(n))
    if keep and len(_built) < 200000:
        _built[key] = r  # kept alive, so id(r) is stable and its own table can be memoised
        _obj_tables[id(r)] = obj_table(r, uni)
    return r


FORMS = ("dnf_solutions", "iter_dnf_solutions", "cnf_solutions", "iter_cnf_solutions")


def derive(r, form, fse):
    """-> ('ok', list of clause lists) | ('notimpl', None) | ('error', text)"""
    try:
        nf = getattr(r, form)(True) if fse else getattr(r, form)()
        nf = [list(c) for c in nf]
    except NotImplementedError:
        return "notimpl", None
    except Exception as e:  # anything else while deriving a normal form is reported
        return "error", f"{type(e).__name__}: {e}"
    return "ok", nf


_obj_tables = {}  # id(obj) -> table, only for objects this module keeps alive (leaves and memoised subtrees)


def obj_table(x, uni):
    v = 0
    for i, u in enumerate(uni):
        if x.match(u):
            v |= 1 << i
    return v


def nf_table(nf, form, uni):
    """Truth table of a derived normal form: OR of ANDs (dnf) / AND of ORs (cnf) of its members' own match."""
    memo = {}

    def mt(x):
        v = _obj_tables.get(id(x))
        if v is None:
            v = memo.get(id(x))
            if v is None:
                v = memo[id(x)] = obj_table(x, uni)
        return v

    if "dnf" in form:
        out = 0
        for clause in nf:
            c = FULL
            for x in clause:
                c &= mt(x)
            out |= c
    else:
        out = FULL
        for clause in nf:
            c = 0
            for x in clause:
                c |= mt(x)
            out &= c
    return out


def shape(nf):
    if not nf:
        return "0cl"
    mx = max(len(c) for c in nf)
    mn = min(len(c) for c in nf)
    return ("1cl" if len(nf) == 1 else "ncl") + ("-e" if mn == 0 else "") + ("-1" if mx <= 1 else "-n")


def bits(m, n=16):
    return format(m, f"0{n}b")[::-1]


def check_tree(t, real, classes=None):
    """Return a list of violation cases for one (tree, realisation)."""
    uni, leaves, ntype = realisation(real)
    r = build(t, real, keep=False)
    exp = ref_table(t, real)
    out = []
    got = obj_table(r, uni)
    ts = None
    if got != exp:
        ts = show(t)
        out.append(
            {
                "kind": "match",
                "tree": ts,
                "real": real,
                "obs": got,
                "msg": f"match truth table of {ts} [{real}] is {bits(got)} but the propositional value is {bits(exp)}",
            }
        )
    rootk = "N" if (not isinstance(t, int) and t[0] == "N") else (("!" if t[1] else "") + t[0] if not isinstance(t, int) else "L")
    if classes is not None:
        k = "tt:%d" % bin(exp).count("1")
        classes[k] = classes.get(k, 0) + 1
    for fse in (0, 1) if real == "atom" else (0,):
        for form in FORMS:
            if not hasattr(r, form):
                continue  # leaves and Negate wrappers offer no normal forms: nothing is derived
            st, nf = derive(r, form, fse)
            fam = form.replace("iter_", "").replace("_solutions", "")
            if st == "notimpl":
                if classes is not None:
                    k = f"{fam}:{rootk}:notimpl"
                    classes[k] = classes.get(k, 0) + 1
                continue
            if st == "error":
                ts = ts or show(t)
                out.append(
                    {
                        "kind": "nf-error",
                        "tree": ts,
                        "real": real,
                        "form": form,
                        "fse": fse,
                        "msg": f"{form}({'True' if fse else ''}) of {ts} [{real}] raised {nf}",
                    }
                )
                continue
            obs = nf_table(nf, form, uni)
            if classes is not None:
                k = f"{fam}:{rootk}:{shape(nf)}"
                classes[k] = classes.get(k, 0) + 1
            if obs != exp:
                ts = ts or show(t)
                out.append(
                    {
                        "kind": "nf",
                        "tree": ts,
                        "real": real,
                        "form": form,
                        "fse": fse,
                        "obs": obs,
                        "msg": f"{form}({'True' if fse else ''}) of {ts} [{real}] has truth table {bits(obs)} "
                        f"({len(nf)} clauses) but the tree's propositional value is {bits(exp)}",
                    }
                )
    return out


def work(task):
    evals = 0
    classes = {}
    viol = []
    samples = []
    real = task[2]
    buckets = {}  # classifier name (or "other") -> cases; known defects must never crowd out an unexplained case
    for t in iter_task_trees(task):
        evals += 1
        cases = check_tree(t, real, classes)
        for c in cases:
            tag = "other"
            for name, fn in CLASSIFIERS.items():
                if fn(c):
                    tag = name
                    break
            b = buckets.setdefault(tag, [])
            b.append(c)
            if len(b) > 400:
                b.sort(key=_size)
                del b[24:]
        if not samples:
            samples.append({"tree": show(t), "real": real, "truth_table": bits(ref_table(t, real))})
    for tag, b in buckets.items():
        b.sort(key=_size)
        viol.extend(b[:24] if tag == "other" else b[:6])
    return {"evals": evals, "classes": classes, "viol": viol, "samples": samples, "counters": {"universe_points": evals * 16}}


def _size(c):
    return (len(c["tree"]), c["tree"], c.get("form", ""), c.get("fse", 0))


def replay(case):
    t = parse(case["tree"])
    if ref_table(t, case["real"]) != ref_table_naive(t, case["real"]):
        raise RuntimeError("reference self-check failed: bitwise table != per-element structural recursion for " + case["tree"])
    msgs = []
    for c in check_tree(t, case["real"]):
        if c["kind"] == case["kind"] and c.get("form") == case.get("form") and c.get("fse") == case.get("fse"):
            msgs.append(c["msg"])
    return msgs
