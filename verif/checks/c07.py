"""C07 restrictions that compare equal are interchangeable (same matches, same hash, safe as cache keys).

For every family of restriction classes, every combination of constructor arguments over small domains
(chosen to produce equal-looking variants) is built; every ordered pair of independently constructed
objects is compared with ``==``.  Whenever a pair compares equal (before or after hashing), the two
hashes must be equal and both objects must give the same ``match`` outcome on every element of the
family's universe; package-level pairs are additionally pushed through a real ``caching_repo`` and
REQUIRED_USE DepSets through ``find_constraint_satisfaction`` with its lru_cache primed by the other one.

The oracle needs no model of the restriction semantics: it is the implication in the property statement,
evaluated on the real objects.
"""

import itertools
import json

PROPERTY = "C07"
LEVEL = "exploration"
ENGINE = "enum"
TECHNIQUE = "exhaustive enumeration of constructor-argument combinations per restriction family, all ordered pairs, implication eq => (hash equal and identical match vector over a universe and cache-safe)"
RULE = (
    "per family (_VersionMatch, VersionMatch, value matchers, _UseDepDefaultContainment, PackageRestriction and its "
    "ebuild subclasses, Conditional, boolean nodes, atoms, DepSets) every constructor-argument combination over the "
    "listed small domains; all ordered same-family pairs (thorough: all cross-family pairs too) of independently "
    "constructed, uncached instances; for every pair with a == b or b == a (evaluated before and after hashing): "
    "hash(a) == hash(b), identical match outcome on every universe element, caching_repo / lru_cache consumers return "
    "b's own answer after being primed with a. Query histories: every sequence of 3 (thorough: 4) queries from a 13-symbol "
    "alphabet against one caching_repo, each step with a freshly constructed restriction whose previous owner is gone, "
    "each answer compared with the uncached repository. One evaluation = one ordered pair or one query sequence. A class is (family, equal?, same "
    "constructor arguments?, hash agreement, match agreement)."
)
ASSUMPTIONS = [
    "non-finalized (mutable) boolean nodes are only covered through the incremental-build histories (partial node inspected, then completed and finalized, compared with the equal node built in one go); a partial node itself is an unhashable builder state and is not compared",
    "Excl: DepSet has no match(); equal DepSets are compared by hash and, for REQUIRED_USE DepSets, by the set of solutions of find_constraint_satisfaction (order of solutions is C10's subject)",
    "Excl: for cross-family equal pairs match outcomes are compared only when both families share one universe (package-level families), and only on elements both accept without raising; for families with different argument types (e.g. ContainmentMatch vs _UseDepDefaultContainment) only the hashes are compared",
    "match outcomes are compared by truthiness; an exception type raised by match counts as an outcome (same-family)",
    "instances are built with disable_inst_caching=True so that pairs are independently constructed; the WeaklyCached instance cache itself is not a subject",
    "equality that changes after hashing (the _hash slot takes part in __eq__ of the value matchers) is recorded as a class, not judged: the implication is checked for every state in which the pair compares equal",
    "argument domains are the small ones listed in BOUNDS; restrictions outside the listed families (FlatteningRestriction, FunctionRestriction, AnyMatch, GetAttrRestriction, fetchables, glsa restrictions) are not covered",
]
BOUNDS = {
    "quick": "9 families, 1528 objects (_VersionMatch 384 = 6 ops x 4 versions x 8 revision spellings x negate, VersionMatch 384, value matchers 160, "
    "_UseDepDefaultContainment 20, PackageRestriction family 210, Conditional 48, boolean nodes 156, atoms 124 incl. '=*' globs over numerically equal "
    "version spellings, DepSets 42); all 409k ordered same-family pairs over a 163-package universe; 416 incremental-build histories; all 13^3 = 2197 "
    "fresh-object query sequences against one caching_repo",
    "thorough": "same objects; additionally all ~1.9M ordered cross-family pairs and all 13^4 = 28561 query sequences",
}

# ----------------------------------------------------------------------------------------------
# specs: JSON lists [family, kind, args...]
# ----------------------------------------------------------------------------------------------

OPS = ["<", "<=", "=", ">=", ">", "~"]
REVS = [None, 0, 1, "", "R:", "R:0", "R:1", "R:01"]
VERS = ["1", "1.0", "1.00", "2"]


def specs_vm(kind):
    return [[kind, kind, op, ver, rev, neg] for op in OPS for ver in VERS for rev in REVS for neg in (0, 1)]


def specs_sv():
    out = []
    for exact in ["a", "A", "ab", "Ab"]:
        for cs in (1, 0):
            for neg in (0, 1):
                out.append(["sv", "exact", exact, cs, neg])
    for glob in ["a", "A", "ab", "Ab"]:
        for cs in (1, 0):
            for prefix in (1, 0):
                for neg in (0, 1):
                    out.append(["sv", "glob", glob, cs, prefix, neg])
    for rx in ["a", "A", "^a", "a$", "[aA]", "ab"]:
        for cs in (1, 0):
            for m in (0, 1):
                for neg in (0, 1):
                    out.append(["sv", "regex", rx, cs, m, neg])
    for vals in ["a", ["l", "a"], ["t", "a"], ["s", "a"], ["t", "a", "b"], ["t", "b", "a"], ["l", "a", "b", "a"], "ab", ["t", "ab"], ["t"], "A", ["t", "x"], ["t", "x", "y"]]:
        for all_ in (0, 1):
            for neg in (0, 1):
                out.append(["sv", "contain", vals, all_, neg])
    for data in ["a", "A", 1, 1.0, True, ["t", "a"]]:
        for neg in (0, 1):
            out.append(["sv", "equality", data, neg])
    return out


USES = [[], ["x"], ["y"], ["x", "y"], ["y", "x"], ["x", "x"]]


def specs_udc():
    return [["udc", "udc", ifm, ["t"] + v, neg] for ifm in (0, 1) for v in USES[1:] for neg in (0, 1)]


def specs_pr():
    out = []
    children = [
        ["sv", "exact", "a", 1, 0],
        ["sv", "exact", "a", 1, 1],
        ["sv", "exact", "A", 0, 0],
        ["sv", "exact", "0", 1, 0],
        ["sv", "contain", "a", 0, 0],
        ["sv", "glob", "a", 1, 1, 0],
    ]
    for attr in ["category", "slot", "missing"]:
        for ch in children:
            for neg in (0, 1):
                for ign in (1, 0):
                    out.append(["pr", "pr", attr, ch, neg, ign])
    for kind in ["CategoryDep", "PackageDep", "SlotDep", "SubSlotDep", "RepositoryDep"]:
        for v in ["a", "0", "r"]:
            for neg in (0, 1):
                out.append(["pr", kind, v, neg])
    for f in USES:
        for t in USES:
            out.append(["pr", "StaticUseDep", f, t])
            for ifm in (0, 1):
                out.append(["pr", "UseDepDefault", ifm, f, t])
    return out


PAYLOADS = [[], ["a/b"], ["c/d"], ["a/b", "c/d"], ["c/d", "a/b"], ["a/b", "a/b"]]


def specs_cond():
    return [["cond", "cond", flag, fneg, pl, neg] for flag in ("x", "y") for fneg in (0, 1) for pl in PAYLOADS for neg in (0, 1)]


CHILDSETS = [[], [0], [1], [0, 1], [1, 0], [0, 0], [0, 1, 2], [2, 1, 0], [0, 2, 1]]


def specs_bool():
    out = []
    for k in "AOJM":
        for neg in (0, 1):
            for nt in ("package", None):
                for ch in CHILDSETS:
                    out.append(["bool", k, neg, nt, ch])
    for ch in ([0], [0, 1], [1, 0]):
        for key, tag in ((None, None), ("k1", None), ("k2", "t"), (None, "t")):
            out.append(["bool", "Keyed", ch, key, tag])
    return out


ATOMS = [
    "a/b", "c/d", "=a/b-1", "=a/b-1.0", "=a/b-1-r0", "=a/b-1-r1", "~a/b-1", "~a/b-1.0", "=a/b-1*", ">=a/b-1", "<a/b-2", ">a/b-1", "<=a/b-1",
    "!a/b", "!!a/b", "!=a/b-1", "!!=a/b-1",
    "a/b[x]", "a/b[x,y]", "a/b[y,x]", "a/b[x,-y]", "a/b[-y,x]", "a/b[-x]", "a/b[x,x]",
    "a/b[x(+)]", "a/b[x(-)]", "a/b[x(+),y(-)]", "a/b[y(-),x(+)]", "a/b[z(+)]", "a/b[z(-)]", "a/b[-z(+)]", "a/b[-z(-)]",
    "a/b[x?]", "a/b[!x?]", "a/b[x=]", "a/b[!x=]", "a/b[x?,y]", "a/b[y,x?]",
    "=a/b-1[x]", "=a/b-1.0[x]", "~a/b-1[x]", ">=a/b-1:0", ">=a/b-1:0[x,y]", ">=a/b-1:0[y,x]", "=a/b-1-r0:0", "=a/b-1:0", "=a/b-1_p1", "=a/b-1_p1-r0",
    "=a/b-2", "~a/b-2", "<a/b-1", "<=a/b-1-r1", ">a/b-1-r1", "=a/b-1.0-r1", "=a/b-1.0*", "=a/b-1-r1*",
    "=a/b-1-r0*", "=a/b-1.00*", "=a/b-1.0-r0*", "=a/b-01*", "=a/b-1.0*:0", "=a/b-1.00*:0", "=a/b-1*[x]", "=a/b-1-r0*[x]", "=a/b-1.00", "=a/b-1.00-r0", "~a/b-1.00", "=a/b-01",
    "a/b:0", "a/b:1", "a/b:0=", "a/b:0/2", "a/b:1/2", "a/b:1/2=", "a/b:=", "a/b:*", "a/b::r", "a/b:0::r", "a/b:0[x]", "!a/b:0", "!!a/b:0",
]  # fmt: skip


def specs_atom():
    out = []
    for s in ATOMS:
        out.append(["atom", "atom", s, 0])
        if s.lstrip("!")[0] in "<>=~":
            out.append(["atom", "atom", s, 1])
    return out


DEPSETS = [
    ["ru", "a"], ["ru", "a b"], ["ru", "b a"], ["ru", "a a"], ["ru", "!a"], ["ru", "a !a"], ["ru", "|| ( a b )"], ["ru", "|| ( b a )"],
    ["ru", "^^ ( a b )"], ["ru", "^^ ( b a )"], ["ru", "?? ( a b )"], ["ru", "?? ( b a )"], ["ru", "a? ( b )"], ["ru", "!a? ( b )"],
    ["ru", "a? ( b ) c"], ["ru", "c a? ( b )"], ["ru", "a? ( b c )"], ["ru", "a? ( c b )"], ["ru", "|| ( a b ) c"], ["ru", "c || ( a b )"],
    ["ru", "a b c"], ["ru", "c b a"], ["ru", "a b a"], ["ru", "|| ( a b ) || ( a b )"], ["ru", ""],
    ["dep", "a/b"], ["dep", "a/b c/d"], ["dep", "c/d a/b"], ["dep", "a/b a/b"], ["dep", "|| ( a/b c/d )"], ["dep", "|| ( c/d a/b )"],
    ["dep", "x? ( a/b )"], ["dep", "!x? ( a/b )"], ["dep", "x? ( a/b ) c/d"], ["dep", "c/d x? ( a/b )"], ["dep", "a/b[x,y]"], ["dep", "a/b[y,x]"],
    ["dep", "!a/b"], ["dep", "!!a/b"], ["dep", ""], ["dep", "a/b[x?]"], ["dep", "( a/b c/d )"],
]  # fmt: skip


def specs_depset():
    return [["depset", k, s] for k, s in DEPSETS]


FAMILIES = {
    "vm": lambda: specs_vm("vm"),
    "VM": lambda: specs_vm("VM"),
    "sv": specs_sv,
    "udc": specs_udc,
    "pr": specs_pr,
    "cond": specs_cond,
    "bool": specs_bool,
    "atom": specs_atom,
    "depset": specs_depset,
}
_specs = {}


def specs(fam):
    if fam not in _specs:
        _specs[fam] = FAMILIES[fam]()
    return _specs[fam]


def all_specs():
    return [s for fam in FAMILIES for s in specs(fam)]


def tasks(tier):
    out = []
    for fam in FAMILIES:
        n = len(specs(fam))
        step = max(1, 9000 // n)
        for lo in range(0, n, step):
            out.append(("same", fam, lo, min(n, lo + step)))
    nb = len([x for x in specs("bool") if x[1] != "Keyed"])
    for lo in range(0, nb, 24):
        out.append(("incr", "bool", lo, min(nb, lo + 24)))
    nq = len(QUERIES)
    if tier == "quick":
        out += [("seq", 3, i, 0) for i in range(nq)]
    else:
        out += [("seq", 4, i, j) for i in range(nq) for j in range(nq)]
    if tier == "thorough":
        n = len(all_specs())
        step = 8
        for lo in range(0, n, step):
            out.append(("cross", "*", lo, min(n, lo + step)))
    return out


# ----------------------------------------------------------------------------------------------
# construction of the real objects (always fresh, uncached)
# ----------------------------------------------------------------------------------------------


def _rev(r):
    if isinstance(r, str) and r.startswith("R:"):
        from pkgcore.ebuild.cpv import Revision

        return Revision(r[2:])
    return r


def _vals(v):
    if isinstance(v, list):
        tag, rest = v[0], v[1:]
        return {"l": list, "t": tuple, "s": frozenset}[tag](rest)
    return v


def make(spec):
    from pkgcore.ebuild import restricts
    from pkgcore.ebuild.atom import atom
    from pkgcore.ebuild.conditionals import DepSet
    from pkgcore.restrictions import boolean, packages, restriction, values

    fam, kind = spec[0], spec[1]
    nc = {"disable_inst_caching": True}
    if fam == "vm":
        _, _, op, ver, rev, neg = spec
        return restricts._VersionMatch(op, ver, _rev(rev), negate=bool(neg), **nc)
    if fam == "VM":
        _, _, op, ver, rev, neg = spec
        return restricts.VersionMatch(op, ver, _rev(rev), negate=bool(neg), **nc)
    if fam == "sv":
        if kind == "exact":
            return values.StrExactMatch(spec[2], case_sensitive=bool(spec[3]), negate=bool(spec[4]), **nc)
        if kind == "glob":
            return values.StrGlobMatch(spec[2], case_sensitive=bool(spec[3]), prefix=bool(spec[4]), negate=bool(spec[5]), **nc)
        if kind == "regex":
            return values.StrRegex(spec[2], case_sensitive=bool(spec[3]), match=bool(spec[4]), negate=bool(spec[5]), **nc)
        if kind == "contain":
            return values.ContainmentMatch(_vals(spec[2]), match_all=bool(spec[3]), negate=bool(spec[4]), **nc)
        if kind == "equality":
            return values.EqualityMatch(_vals(spec[2]), negate=bool(spec[3]), **nc)
    if fam == "udc":
        return restricts._UseDepDefaultContainment(bool(spec[2]), _vals(spec[3]), negate=bool(spec[4]))
    if fam == "pr":
        if kind == "pr":
            _, _, attr, ch, neg, ign = spec
            return packages.PackageRestriction(attr, make(ch), negate=bool(neg), ignore_missing=bool(ign), **nc)
        if kind in ("CategoryDep", "PackageDep", "RepositoryDep"):
            return getattr(restricts, kind)(spec[2], negate=bool(spec[3]), **nc)
        if kind in ("SlotDep", "SubSlotDep"):
            return getattr(restricts, kind)(spec[2], negate=bool(spec[3]), **nc)
        if kind == "StaticUseDep":
            return restricts.StaticUseDep(tuple(spec[2]), tuple(spec[3]), **nc)
        if kind == "UseDepDefault":
            return restricts.UseDepDefault(bool(spec[2]), tuple(spec[3]), tuple(spec[4]), **nc)
    if fam == "cond":
        _, _, flag, fneg, pl, neg = spec
        return packages.Conditional(
            "use", values.ContainmentMatch(flag, negate=bool(fneg), **nc), tuple(atom(a) for a in pl), negate=bool(neg), **nc
        )
    if fam == "bool":
        leaves = [restricts.CategoryDep("a", **nc), restricts.PackageDep("b", **nc), restricts.SlotDep("0", **nc)]
        if kind == "Keyed":
            _, _, ch, key, tag = spec
            return packages.KeyedAndRestriction(*[leaves[i] for i in ch], key=key, tag=tag, **nc)
        _, _, neg, nt, ch = spec
        cls = {"A": boolean.AndRestriction, "O": boolean.OrRestriction, "J": boolean.JustOneRestriction, "M": boolean.AtMostOneOfRestriction}[kind]
        return cls(*[leaves[i] for i in ch], negate=bool(neg), node_type=nt, **nc)
    if fam == "atom":
        return atom(spec[2], negate_vers=bool(spec[3]), **nc)
    if fam == "depset":
        if kind == "ru":
            ops = {
                "||": boolean.OrRestriction,
                "": boolean.AndRestriction,
                "^^": boolean.JustOneRestriction,
                "??": boolean.AtMostOneOfRestriction,
            }

            def node(data):
                if data[0] == "!":
                    return values.ContainmentMatch(data[1:], negate=True)
                return values.ContainmentMatch(data)

            return DepSet.parse(spec[2], values.ContainmentMatch, operators=ops, element_func=node, attr="REQUIRED_USE")
        return DepSet.parse(spec[2], atom, transitive_use_atoms=True)
    raise ValueError(spec)


# ----------------------------------------------------------------------------------------------
# universes
# ----------------------------------------------------------------------------------------------

_uni = {}


class Bare:
    """a package-like object lacking almost every attribute (exercises the missing-attribute path)"""

    category = "a"

    def __repr__(self):
        return "<Bare>"


def universe(name):
    u = _uni.get(name)
    if u is not None:
        return u
    import logging

    logging.getLogger("pkgcore").setLevel(logging.CRITICAL + 1)  # ignore_missing=False only adds log lines
    if name == "ver":
        from pkgcore.ebuild.cpv import CPV, VersionedCPV

        u = [VersionedCPV("a/b-" + v) for v in ["0.9", "1", "1.0", "1.1", "1-r0", "1-r1", "1-r2", "1.0-r1", "2", "2-r1", "1.00", "01"]]
        u.append(CPV("a/b", versioned=False))
    elif name == "val":
        u = ["a", "A", "ab", "Ab", "ba", "bA", "b", "", "xaby", None, 1, True, 1.0]
        u += [(), ("a",), ("b",), ("a", "b"), ("b", "a"), ("ab",), ("A",), frozenset(("a",)), frozenset(("a", "b")), ["a"], ["b"]]
    elif name == "iuse":
        sets = [frozenset(s) for s in ((), ("x",), ("y",), ("x", "y"))]
        u = [(i, s) for i in sets for s in sets if s <= i]
    elif name == "pkg":
        from pkgcore.test.misc import FakePkg, FakeRepo

        u = []
        repo_r = FakeRepo(repo_id="r")
        n = 0
        for cpv in ["a/b-1", "a/b-1.0", "a/b-1-r1", "a/b-2", "c/d-1", "a/d-1"]:
            for slot, sub in (("0", None), ("1", "2"), ("a", None)):
                for iuse, use in (
                    ((), ()),
                    (("x", "y"), ()),
                    (("x", "y"), ("x",)),
                    (("x", "y"), ("y",)),
                    (("x", "y"), ("x", "y")),
                    (("x",), ("x",)),
                    (("y",), ()),
                    (("x", "y", "z"), ("z",)),
                ):
                    n += 1
                    kw = {"repo": repo_r} if n % 5 == 0 else {}
                    u.append(FakePkg(cpv, slot=slot, subslot=sub, iuse=iuse, use=use, **kw))
        for cpv in ["a/b-1.0.1", "a/b-1.00.1", "a/b-1.00", "a/b-1-r0", "a/b-1.0-r0", "a/b-10", "a/b-01", "a/b-01.5", "a/b-1.0.1-r1"]:
            for iuse, use in (((), ()), (("x", "y"), ("x",))):
                u.append(FakePkg(cpv, slot="0", iuse=iuse, use=use))
        u.append(Bare())
    elif name == "none":
        u = []
    else:
        raise KeyError(name)
    _uni[name] = u
    return u


FAM_UNI = {"vm": "ver", "VM": "ver", "sv": "val", "udc": "iuse", "pr": "pkg", "cond": "pkg", "bool": "pkg", "atom": "pkg", "depset": "none"}
PKG_LEVEL = {"VM", "pr", "cond", "bool", "atom"}


def uname(x):
    """stable, address-free name of a universe element for messages"""
    if hasattr(x, "cpvstr"):
        extra = ""
        if hasattr(x, "slot") and hasattr(x, "use"):
            extra = f":{x.slot}/{x.subslot} use={sorted(x.use)} iuse={sorted(x.iuse_stripped)} repo={getattr(x.repo, 'repo_id', '')!r}"
        return f"<{x.cpvstr}{extra}>"
    if isinstance(x, frozenset):
        return "frozenset(%r)" % (sorted(x),)
    if isinstance(x, tuple) and x and isinstance(x[0], frozenset):
        return "(iuse=%r, use=%r)" % (sorted(x[0]), sorted(x[1]))
    return repr(x)


def outcome(obj, x):
    try:
        return bool(obj.match(x))
    except Exception as e:
        return "exc:" + type(e).__name__


_vectors = {}


def vector(spec, uniname):
    """match outcomes of the restriction built from spec on every element of a universe (memoised: construction
    and match are deterministic functions of the spec)."""
    key = (json.dumps(spec), uniname)
    v = _vectors.get(key)
    if v is None:
        obj = make(spec)
        v = _vectors[key] = tuple(outcome(obj, x) for x in universe(uniname))
    return v


def try_hash(o):
    try:
        return hash(o)
    except TypeError:
        return "unhashable"


# ----------------------------------------------------------------------------------------------
# the check for one ordered pair
# ----------------------------------------------------------------------------------------------


def check_pair(sa, sb, info=None):
    """-> list of (what, msg). info (dict) receives eq / hash / match agreement for classification."""
    a, b = make(sa), make(sb)
    eq_ab = bool(a == b)
    eq_ba = bool(b == a)
    ha, hb = try_hash(a), try_hash(b)
    eq_after = bool(a == b) or bool(b == a)
    eq = eq_ab or eq_ba or eq_after
    if info is not None:
        info["eq"] = eq
        info["asym"] = eq_ab != eq_ba
        info["eq_changes_after_hash"] = (eq_ab or eq_ba) != eq_after
    if not eq:
        return []
    out = []
    fa, fb = sa[0], sb[0]
    hash_ok = ha == hb
    if ha == "unhashable" or hb == "unhashable":
        hash_ok = True  # nothing to compare (never a cache key)
    if not hash_ok:
        out.append(("hash", f"{show(sa)} == {show(sb)} but hash(a) != hash(b)"))
    match_ok = True
    if fa == fb:
        un = FAM_UNI[fa]
        va, vb = vector(sa, un), vector(sb, un)
        if va != vb:
            match_ok = False
            i = next(i for i in range(len(va)) if va[i] != vb[i])
            x = universe(un)[i]
            out.append(("match", f"{show(sa)} == {show(sb)} but match({uname(x)}) gives {va[i]} vs {vb[i]} ({sum(1 for p, q in zip(va, vb) if p != q)} of {len(va)} universe elements differ)"))
    elif FAM_UNI[fa] == FAM_UNI[fb]:
        # different families with the same natural domain (e.g. PackageRestriction vs boolean node vs atom)
        un = FAM_UNI[fa]
        va, vb = vector(sa, un), vector(sb, un)
        for i, (p, q) in enumerate(zip(va, vb)):
            if isinstance(p, bool) and isinstance(q, bool) and p != q:
                match_ok = False
                out.append(("match", f"{show(sa)} == {show(sb)} but match({uname(universe(un)[i])}) gives {p} vs {q}"))
                break
    if info is not None:
        info["hash_ok"], info["match_ok"] = hash_ok, match_ok
    # consumers
    if fa in PKG_LEVEL and fb in PKG_LEVEL and ha != "unhashable" and hb != "unhashable":
        from pkgcore.repository.misc import caching_repo
        from pkgcore.test.misc import FakeRepo

        pkgs = [p for p in universe("pkg") if not isinstance(p, Bare)]
        c = caching_repo(FakeRepo(pkgs=pkgs), iter)
        list(c.match(a))
        got = [id(p) for p in c.match(b)]
        want = [id(p) for p in pkgs if outcome(b, p) is True]
        if got != want:
            out.append(("cache", f"caching_repo primed with {show(sa)} answers {show(sb)} with {len(got)} packages, its own answer has {len(want)}"))
    if fa == fb == "depset" and sa[1] == sb[1] == "ru":
        from pkgcore.restrictions import required_use

        iuse = {"a", "b", "c"}

        def sols(d):
            return sorted(sorted(s.items()) for s in required_use.find_constraint_satisfaction(d, set(iuse)))

        required_use._compiled_constraints.cache_clear()
        fresh = sols(b)
        required_use._compiled_constraints.cache_clear()
        sols(a)
        cached = sols(b)
        required_use._compiled_constraints.cache_clear()
        if fresh != cached:
            out.append(("cache", f"find_constraint_satisfaction({show(sb)}) after compiling {show(sa)} gives {len(cached)} solutions, fresh gives {len(fresh)}"))
        if sols(a) != fresh:
            out.append(("match", f"{show(sa)} == {show(sb)} but REQUIRED_USE solution sets differ"))
        required_use._compiled_constraints.cache_clear()
    return out


def show(spec):
    fam, kind = spec[0], spec[1]
    if fam in ("vm", "VM"):
        _, _, op, ver, rev, neg = spec
        return f"{'_VersionMatch' if fam == 'vm' else 'VersionMatch'}({op!r},{ver!r},rev={rev!r}{',negate=True' if neg else ''})"
    if fam == "atom":
        return f"atom({spec[2]!r}{',negate_vers=True' if spec[3] else ''})"
    if fam == "depset":
        return f"DepSet[{kind}]({spec[2]!r})"
    return kind + json.dumps(spec[2:], separators=(",", ":"))


def classify(sa, sb, info):
    fam = sa[0] if sa[0] == sb[0] else "x"
    if not info["eq"]:
        return f"{fam}:ne"
    k = f"{fam}:eq:{'same' if sa == sb else 'diff'}:hash{'=' if info['hash_ok'] else '!'}:match{'=' if info['match_ok'] else '!'}"
    if info["eq_changes_after_hash"]:
        k += ":eq-changes-after-hash"
    return k


def check_incremental(spec, split):
    """History variant: a boolean node built incrementally (finalize=False, inspected -- hashed, used as a dict and
    query-cache key where the implementation allows it -- while still partial, then completed with add_restriction()
    and finalize()) must be interchangeable with the equal node built in one go. -> list of (what, msg)."""
    from pkgcore.ebuild import restricts
    from pkgcore.repository.misc import caching_repo
    from pkgcore.restrictions import boolean
    from pkgcore.test.misc import FakeRepo

    nc = {"disable_inst_caching": True}
    _, kind, neg, nt, ch = spec
    leaves = [restricts.CategoryDep("a", **nc), restricts.PackageDep("b", **nc), restricts.SlotDep("0", **nc)]
    cls = {"A": boolean.AndRestriction, "O": boolean.OrRestriction, "J": boolean.JustOneRestriction, "M": boolean.AtMostOneOfRestriction}[kind]
    node = cls(*[leaves[i] for i in ch[:split]], negate=bool(neg), node_type=nt, finalize=False)
    pkgs = [p for p in universe("pkg") if not isinstance(p, Bare)]
    cache = caching_repo(FakeRepo(pkgs=pkgs), iter)
    early = []
    for probe in (lambda: hash(node), lambda: {node: 1}, lambda: list(cache.match(node))):
        try:
            probe()
            early.append("ok")
        except TypeError:
            early.append("refused")
    rest = [leaves[i] for i in ch[split:]]
    if rest:
        node.add_restriction(*rest)
    node.finalize()
    fresh = make(spec)
    out = []
    if not (node == fresh and fresh == node):
        return [("incr-eq", f"{show(spec)} built incrementally (split {split}) != the same node built in one go")]
    if hash(node) != hash(fresh):
        out.append(("incr-hash", f"{show(spec)} built incrementally (first {split} children, inspected early: {early}) == the node built in one go but their hashes differ"))
    if len({node: 1, fresh: 2}) != 1:
        out.append(("incr-hash", f"{show(spec)} built incrementally and the equal fresh node occupy two dict slots"))
    va = [outcome(node, x) for x in universe("pkg")]
    vb = [outcome(fresh, x) for x in universe("pkg")]
    if va != vb:
        out.append(("incr-match", f"{show(spec)} built incrementally matches differently from the equal fresh node"))
    got = [id(p) for p in cache.match(node)]
    want = [id(p) for p in pkgs if outcome(fresh, p) is True]
    if got != want:
        out.append(("incr-cache", f"query cache consulted while {show(spec)} was partial (split {split}, early: {early}) answers the finished node with {len(got)} packages, its own answer has {len(want)}"))
    got2 = [id(p) for p in cache.match(fresh)]
    if got2 != want:
        out.append(("incr-cache", f"query cache primed through the incrementally built {show(spec)} answers the equal fresh node with {len(got2)} packages instead of {len(want)}"))
    return out


# Query alphabet for the operation-sequence exploration of the restriction-keyed query cache.  Same-class symbols
# (several atoms, several PackageRestrictions, several boolean nodes) so that an object freed after one step and the
# object built for the next step compete for the same allocation size; equal-but-differently-written pairs included.
QUERIES = [
    ["atom", "atom", "a/b", 0],
    ["atom", "atom", "c/d", 0],
    ["atom", "atom", "a/d", 0],
    ["atom", "atom", "=a/b-1*", 0],
    ["atom", "atom", "=a/b-1-r0*", 0],
    ["atom", "atom", "a/b[x,y]", 0],
    ["atom", "atom", "a/b[y,x]", 0],
    ["pr", "CategoryDep", "a", 0],
    ["pr", "PackageDep", "d", 0],
    ["pr", "PackageDep", "b", 0],
    ["bool", "A", 0, "package", [0, 1]],
    ["bool", "O", 0, "package", [0, 1]],
    ["bool", "A", 0, "package", [1, 0]],
]
SEQ_REPS = {"work": 2, "replay": 25}


def _fresh_query(cache, spec):
    """Build a brand-new restriction for spec, ask the cache, let the restriction die on return.
    Nothing but the cache itself may keep a reference to it."""
    r = make(spec)
    return [id(p) for p in cache.match(r)]


_answers = {}


def _uncached_answer(spec, repo):
    key = json.dumps(spec)
    v = _answers.get(key)
    if v is None:
        v = _answers[key] = [id(p) for p in repo.itermatch(make(spec))]
    return v


_seq_repo = []


def check_sequence(seq, reps):
    """One caching_repo per repetition; every step queries it with a fresh object (the previous step's object is
    already dropped) and the answer must be the uncached repository's answer for *that* restriction.
    -> list of (what, msg)"""
    import gc

    from pkgcore.repository.misc import caching_repo
    from pkgcore.test.misc import FakeRepo

    if not _seq_repo:
        _seq_repo.append(FakeRepo(pkgs=[p for p in universe("pkg") if not isinstance(p, Bare)]))
    repo = _seq_repo[0]
    want = [_uncached_answer(spec, repo) for spec in seq]
    gc.collect()
    was = gc.isenabled()
    gc.disable()  # objects die by refcount the moment a step returns; no collector run may move that point
    try:
        for rep_no in range(reps):
            cache = caching_repo(repo, iter)
            for i, spec in enumerate(seq):
                got = _fresh_query(cache, spec)
                if got != want[i]:
                    hist = " ; ".join(show(x) for x in seq[: i + 1])
                    return [
                        (
                            "seq",
                            f"caching_repo queried with fresh objects [{hist}]: step {i + 1} ({show(spec)}) got {len(got)} packages, "
                            f"{len(set(got) ^ set(want[i]))} of them differ from the uncached repository's {len(want[i])} (repetition {rep_no + 1})",
                        )
                    ]
    finally:
        if was:
            gc.enable()
    return []


def seq_pattern(seq):
    names = {}
    return "".join(names.setdefault(json.dumps(x), "abcd"[len(names)]) for x in seq)


def work(task):
    mode, fam, lo, hi = task
    evals = 0
    classes = {}
    buckets = {}
    samples = []
    if mode == "seq":
        depth, first, second = fam, lo, hi
        viol = []
        prefixes = [[QUERIES[first]]] if depth == 3 else [[QUERIES[first], QUERIES[second]]]
        for pre in prefixes:
            for tail in itertools.product(QUERIES, repeat=depth - len(pre)):
                seq = pre + list(tail)
                evals += 1
                res = check_sequence(seq, SEQ_REPS["work"])
                k = f"seq:{seq_pattern(seq)}:{'ok' if not res else 'wrong-answer'}"
                classes[k] = classes.get(k, 0) + 1
                for what, msg in res:
                    viol.append({"a": seq, "b": ["seq"], "what": what, "msg": msg})
                if len(samples) < 1 and len({json.dumps(x) for x in seq}) > 1:
                    samples.append({"query_sequence": [show(x) for x in seq], "each_step_fresh_object": True})
        viol.sort(key=_size)
        return {"evals": evals, "classes": classes, "viol": viol[:24], "samples": samples, "counters": {"query_sequences": evals, "cache_queries": evals * depth}}
    if mode == "incr":
        viol = []
        for spec in [x for x in specs("bool") if x[1] != "Keyed"][lo:hi]:
            for split in range(0, len(spec[4]) + 1):
                evals += 1
                res = check_incremental(spec, split)
                k = f"incr:{spec[1]}:{'neg' if spec[2] else 'pos'}:{'ok' if not res else res[0][0]}"
                classes[k] = classes.get(k, 0) + 1
                for what, msg in res:
                    viol.append({"a": spec, "b": ["split", split], "what": what, "msg": msg})
        return {"evals": evals, "classes": classes, "viol": viol, "samples": [], "counters": {"incremental_histories": evals}}
    if mode == "same":
        left = specs(fam)[lo:hi]
        right = specs(fam)
    else:
        allsp = all_specs()
        left = allsp[lo:hi]
        right = allsp
    for sa in left:
        for sb in right:
            if mode == "cross" and sa[0] == sb[0]:
                continue
            evals += 1
            info = {}
            res = check_pair(sa, sb, info)
            k = classify(sa, sb, info)
            classes[k] = classes.get(k, 0) + 1
            if info["asym"]:
                classes["asymmetric-eq"] = classes.get("asymmetric-eq", 0) + 1
            for what, msg in res:
                case = {"a": sa, "b": sb, "what": what, "msg": msg}
                tag = next((n for n, f in CLASSIFIERS.items() if f(case)), "other")
                b = buckets.setdefault(tag, [])
                b.append(case)
                if len(b) > 300:
                    b.sort(key=_size)
                    del b[24:]
            if info["eq"] and sa != sb and len(samples) < 2:
                samples.append({"a": show(sa), "b": show(sb), "equal": True, "hash_equal": info["hash_ok"], "match_equal": info["match_ok"]})
    viol = []
    for tag, b in buckets.items():
        b.sort(key=_size)
        viol.extend(b[:24] if tag == "other" else b[:4])
    return {"evals": evals, "classes": classes, "viol": viol, "samples": samples, "counters": {"equal_pairs": sum(v for k, v in classes.items() if ":eq:" in k)}}


def _size(c):
    s = json.dumps([c["a"], c["b"]])
    return (len(s), s, c["what"])


def replay(case):
    if case["what"] == "seq":
        return [msg.split(" (repetition")[0] for what, msg in check_sequence(case["a"], SEQ_REPS["replay"])]
    if case["what"].startswith("incr-"):
        return [msg for what, msg in check_incremental(case["a"], case["b"][1]) if what == case["what"]]
    return [msg for what, msg in check_pair(case["a"], case["b"]) if what == case["what"]]


# ----------------------------------------------------------------------------------------------
# narrow classifiers for the known defects (pure functions of the two specs)
# ----------------------------------------------------------------------------------------------


def _revint(r):
    if r is None or r == "":
        return 0
    if isinstance(r, str) and r.startswith("R:"):
        return int(r[2:] or 0)
    return int(r)


def _opset(op, neg):
    base = {"<": {-1}, "<=": {-1, 0}, "=": {0}, ">=": {0, 1}, ">": {1}, "~": {0}}[op]
    return frozenset({-1, 0, 1} - base) if neg else frozenset(base)


def _vm_tilde_negate(case):
    """two _VersionMatch('~', v) that differ in negate compare equal (and so match differently / hash differently)"""
    a, b = case["a"], case["b"]
    return a[0] == b[0] == "vm" and a[2] == b[2] == "~" and a[3] == b[3] and a[5] != b[5] and case["what"] in ("match", "hash")


def _vm_hash_folds(case):
    """_VersionMatch.__eq__ folds negate into the operator and compares revisions numerically (None == r0), but
    __hash__ is taken over the raw negate/vals/rev fields"""
    a, b = case["a"], case["b"]
    if case["what"] != "hash" or a[0] != b[0] or a[0] not in ("vm", "VM"):
        return False
    if a[3] != b[3] or (a[2] == "~") != (b[2] == "~"):
        return False
    if a[0] == "VM" and a[5] != b[5]:
        return False  # the wrapper compares negate itself
    if a[2] == "~":
        same_ops = a[5] == b[5]  # differing negate on '~' is the other finding
    else:
        same_ops = _opset(a[2], a[5]) == _opset(b[2], b[5])
    return same_ops and _revint(a[4]) == _revint(b[4]) and (a[5] != b[5] or a[4] != b[4] or a[2] != b[2])


def _udc_if_missing(case):
    """_UseDepDefaultContainment / UseDepDefault equality ignores if_missing: x(+) == x(-)"""
    a, b = case["a"], case["b"]
    if case["what"] not in ("match", "cache"):
        return False
    if a[0] == b[0] == "udc":
        return a[2] != b[2] and a[4] == b[4] and set(a[3][1:]) == set(b[3][1:])
    if a[0] == b[0] == "pr" and a[1] == b[1] == "UseDepDefault":
        return a[2] != b[2] and set(a[3]) == set(b[3]) and set(a[4]) == set(b[4])
    return False


def _atom_hash(case):
    """atom.__hash__ is the hash of the spelled text while __eq__ sorts USE deps and ignores strong vs weak blocker (shared with C02)"""
    a, b = case["a"], case["b"]
    return a[0] == b[0] == "atom" and case["what"] == "hash" and a[2] != b[2] and a[3] == b[3]


def _depset_hash(case):
    """DepSet.__eq__ compares the member sets, __hash__ the ordered member tuple"""
    a, b = case["a"], case["b"]
    return a[0] == b[0] == "depset" and case["what"] == "hash" and a[1] == b[1] and a[2] != b[2]


CLASSIFIERS = {
    "versionmatch-tilde-negate-ignored-by-eq": _vm_tilde_negate,
    "versionmatch-hash-not-folded-like-eq": _vm_hash_folds,
    "usedep-default-if-missing-ignored-by-eq": _udc_if_missing,
    "atom-hash-over-spelling": _atom_hash,
    "depset-hash-order-sensitive": _depset_hash,
}
