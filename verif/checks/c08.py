"""C08 repository queries return exactly the matching packages.

Every (restriction, repository) of a bounded space is queried through the real
``prototype.tree.itermatch`` (via ``SimpleTree``), with and without a sorter, unversioned,
and through ``multiplex.tree``, ``filtered.tree``, ``misc.caching_repo`` and
``misc.multiplex_sorting_repo``.  The oracle is a brute-force filter: the restriction's own
``match`` applied to every package of the repository (it never goes through itermatch or
any candidate pruning).
"""

import functools
import itertools
from operator import itemgetter

from verif import ref

PROPERTY = "C08"
LEVEL = "exploration"
ENGINE = "enum"
TECHNIQUE = (
    "bounded exhaustive enumeration of (restriction tree, repository contents, query mode) on the real "
    "itermatch vs a brute-force filter with the restriction's own match (small-scope model checking)"
)
RULE = (
    "restriction trees are generated from a grammar (category/package PackageRestrictions over exact, "
    "case-insensitive exact, prefix/suffix glob, regex and containment values with negate on the value, on the "
    "wrapper or both; VersionMatch; atoms incl. a blocker; AlwaysTrue/False; And/Or/exactly-one/at-most-one nodes "
    "with negate, arity 1-3 and nesting depth 2; Negate wrappers) and every tree is queried against every repository "
    "of a universe of in-memory repositories (all small subsets of 3 categories x 3 packages x 2 versions, plus the "
    "full ones; a case-insensitive universe; a universe of versions whose string order differs from version order) "
    "in every query mode; stacks of mutable repositories are additionally driven through every bounded sequence of "
    "queries / notify_add_package / notify_remove_package / stack+repo before a final query, judged against a "
    "plain-Python model of the members' contents; the result multiset/order is compared with the brute-force filter. A class is "
    "(top-level node kind, how the candidate set was pruned on the full repository) plus the match-none/some/all "
    "outcome; distinct_nontrivial counts classes observed."
)
ASSUMPTIONS = [
    "oracle = the restriction's own match() applied to each package of the repository (match itself is judged by C06/C04, not here)",
    "a stack of repositories is expected to yield every package of every member repository once (multiset concatenation), i.e. packages of different repositories are different packages",
    "Excl: unversioned queries are only issued with raw_pkg_cls=UnversionedCPV and for restrictions that look at category/package only (the default tuple raw package has no attributes a restriction could match)",
    "Excl: itermatch keywords pkg_filter, pkg_cls, force, yield_none are not exercised (the statement does not speak about them)",
    "Excl: PackageRestrictionMulti, Conditional and value-level boolean restrictions on category/package are outside the alphabet",
    "repositories larger than the bound (see bounds) other than the full universe are not covered",
    "Excl: operation sequences in which a mutation (notify_add_package / notify_remove_package / stack + repo) itself raises are not judged (class seq-op-raised); the statement speaks about query answers only. On the current tree this is SimpleTree.notify_remove_package of the last version of a package whose versions were never looked up (KeyError)",
]
BOUNDS = {
    "quick": "universe 3 cats x 3 pkgs x 2 versions: all repos with <=1 package + 10 fixed larger ones incl. all-version-1 and full (29 repos); 5814 restriction trees (depth<=2; depth-2 trees over 4 leaves / 3 leaves for the 4-leaf shapes) + 458 case-insensitive trees on all 16 repos of a 2x2x1 universe + a version-order universe (versions 1_rc1 1 1_p1 1.2 1.9 1.10 9 10 whose string order differs from PMS order: all pairs/triples of one package in scrambled insertion order, 87 repos x 18 restrictions, expected order from verif.ref.pms_ver_cmp); 5 core query modes on every repo, 7 wrapper modes on 4-5 repos, 4 stack modes on those x 3-4 partners x both orders; non-initial states: all enabled operation sequences of length <=3 (10272) over {5 queries through the stack, notify_add_package x 2 members x 3 packages (new package in a known category / new category / new version), notify_remove_package x 2 members x 5 packages, stack + extra repo} on multiplex.tree and RepositoryGroup over 2 initial member layouts, each followed by one of 8 final queries (plain and sorted through the stack, 3 of them also on every member), everything rebuilt per (sequence, final query)",
    "thorough": "same universes: all repos with <=2 packages + the same larger ones (180 repos); 41454 restriction trees (depth<=2, arity<=3, 3-leaf trees over 7 leaves with exactly-one/at-most-one inner nodes, 4-leaf trees over 4 leaves with all node negations) + the case-insensitive and version-order universes as quick; modes as quick; operation sequences of length <=4 (134220)",
}

# ----------------------------------------------------------------------------------------------
# universes (expected orders are always computed with _refkey: category, package, PMS version order)

UNIVERSES = {
    "main": (("a", "ab", "b"), ("p", "pq", "q"), ("1", "2")),
    "ci": (("A", "a"), ("P", "p"), ("1",)),
    # versions whose string order differs from their version order (reference order is the one listed)
    "ver": (("a",), ("p", "q"), ("1_rc1", "1", "1_p1", "1.2", "1.9", "1.10", "9", "10")),
}


def cpvs_of(uni):
    cats, pkgs, vers = UNIVERSES[uni]
    return [(c, p, v) for c in cats for p in pkgs for v in vers]


def _picks(uni):
    """Hand-sized mid/large repositories (deterministic), incl. all-version-1 and the full universe (last)."""
    cpvs = cpvs_of(uni)
    if uni == "ci":
        return [tuple(cpvs)]
    return [
        (("a", "p", "1"), ("a", "p", "2")),
        (("ab", "pq", "1"), ("b", "q", "2")),
        (("a", "p", "2"), ("ab", "p", "1"), ("b", "pq", "1")),
        (("a", "q", "1"), ("ab", "q", "2"), ("b", "p", "1"), ("b", "p", "2")),
        (("a", "pq", "1"), ("ab", "p", "2"), ("ab", "q", "1"), ("b", "q", "1"), ("b", "q", "2")),
        tuple(x for x in cpvs if x[2] == "1"),
        tuple(x for x in cpvs if x[0] != "a"),
        tuple(x for x in cpvs if x[1] != "p"),
        tuple(x for x in cpvs if x[2] == "2" or x[0] == "ab"),
        tuple(cpvs),
    ]


def repos_of(tier, uni):
    """Repositories as tuples of cpv triples, simplest first; the full universe is last."""
    cpvs = cpvs_of(uni)
    if uni == "ci":
        out = []
        for n in range(len(cpvs) + 1):
            out.extend(itertools.combinations(cpvs, n))
        return out
    if uni == "ver":
        # every pair and triple of versions of one package (listed alternately ascending / descending so that
        # no insertion order happens to be the sorted one), a two-package mix, the full universe (descending) last
        ap = [x for x in cpvs if x[1] == "p"]
        out = []
        for n in (2, 3):
            for i, c in enumerate(itertools.combinations(ap, n)):
                out.append(c if i % 2 else c[::-1])
        out.append(tuple(sorted(ap, key=lambda t: t[2])))  # string order
        out.append(tuple(x for x in cpvs if x[2] in ("10", "9", "1.10", "1.9"))[::-1])
        out.append(tuple(cpvs)[::-1])
        return out
    maxn = 1 if tier == "quick" else 2
    out = []
    for n in range(maxn + 1):
        out.extend(itertools.combinations(cpvs, n))
    for x in _picks(uni):
        if x not in out:
            out.append(x)
    return out


def wrapper_repos(uni):
    """Reduced repository set for the wrapper / stack modes."""
    cpvs = cpvs_of(uni)
    if uni == "ci":
        return [(), (cpvs[0],), (cpvs[1], cpvs[2]), tuple(cpvs)]
    if uni == "ver":
        return [
            (("a", "p", "10"), ("a", "p", "9")),
            (("a", "p", "1.10"), ("a", "p", "1.9"), ("a", "p", "1.2")),
            (("a", "p", "1_p1"), ("a", "p", "1"), ("a", "p", "1_rc1"), ("a", "q", "10"), ("a", "q", "9")),
            tuple(cpvs)[::-1],
        ]
    return [
        (),
        (("a", "p", "1"),),
        (("ab", "pq", "1"), ("b", "q", "2")),
        (("a", "q", "1"), ("ab", "q", "2"), ("b", "p", "1"), ("b", "p", "2")),
        tuple(cpvs),
    ]


def stack_partners(uni):
    cpvs = cpvs_of(uni)
    if uni == "ci":
        return [(), (cpvs[0],), tuple(cpvs)]
    if uni == "ver":
        return [(), (("a", "p", "10"), ("a", "p", "1.9")), (("a", "p", "1.10"), ("a", "p", "1"), ("a", "q", "9")), tuple(cpvs)[::-1]]
    return [(), (("a", "p", "1"), ("a", "p", "2")), tuple(cpvs)]


# ----------------------------------------------------------------------------------------------
# restriction descriptors (JSON-serialisable nested lists)
#   ["cat"|"pkg", [vkind, varg], vneg, wneg]     vkind: exact iexact prefix suffix regex contain
#   ["ver", op, version, neg]  ["atom", text]  ["true"]  ["false"]
#   ["and"|"or"|"one"|"amo", neg, [children]]     ["not", child]


def leaf(attr, vkind, varg, vneg=0, wneg=0):
    return [attr, [vkind, varg], vneg, wneg]


def _values(attr, uni):
    if uni == "ci":
        x, y = ("a", "A") if attr == "cat" else ("p", "P")
        return [["iexact", x], ["iexact", y], ["exact", x], ["exact", y]]
    if attr == "cat":
        return [["exact", "a"], ["exact", "ab"], ["exact", "b"], ["prefix", "a"], ["suffix", "b"], ["regex", "^.$"], ["contain", ["a", "b"]]]
    return [["exact", "p"], ["exact", "pq"], ["exact", "q"], ["prefix", "p"], ["suffix", "q"], ["regex", "^.$"], ["contain", ["p", "q"]]]


def all_leaves(uni):
    out = []
    for attr in ("cat", "pkg"):
        for v in _values(attr, uni):
            for vneg in (0, 1):
                for wneg in (0, 1):
                    out.append([attr, v, vneg, wneg])
    if uni == "main":
        out += [["ver", "=", "1", 0], ["ver", ">=", "2", 0], ["ver", "=", "1", 1]]
        out += [["atom", s] for s in ("a/p", "=a/p-1", ">=ab/pq-2", "b/q", "!a/p")]
    else:
        out += [["atom", "A/p"]]
    out += [["true"], ["false"]]
    return out


def core_leaves(uni, size):
    """Leaf subsets used inside bigger trees; one representative per pruning shortcut."""
    if uni == "ci":
        return [leaf("cat", "iexact", "a"), leaf("cat", "iexact", "A", 0, 1), leaf("pkg", "iexact", "p"), leaf("cat", "exact", "a"), leaf("pkg", "exact", "P")]
    c_a, c_a_w, c_a_v = leaf("cat", "exact", "a"), leaf("cat", "exact", "a", 0, 1), leaf("cat", "exact", "a", 1, 0)
    c_ab, c_pre, c_pre_w = leaf("cat", "exact", "ab"), leaf("cat", "prefix", "a"), leaf("cat", "prefix", "a", 0, 1)
    p_p, p_p_w, p_p_v = leaf("pkg", "exact", "p"), leaf("pkg", "exact", "p", 0, 1), leaf("pkg", "exact", "p", 1, 0)
    p_pq, p_suf, p_suf_w = leaf("pkg", "exact", "pq"), leaf("pkg", "suffix", "q"), leaf("pkg", "suffix", "q", 0, 1)
    ver, at, tr = ["ver", "=", "1", 0], ["atom", "b/q"], ["true"]
    if size == 3:
        return [c_a, c_a_w, p_p]
    if size == 4:
        return [c_a, c_a_w, p_p, p_p_w]
    if size == 5:
        return [c_a, c_a_w, p_p, p_p_w, c_pre]
    if size == 7:
        return [c_a, c_a_w, p_p, p_p_w, c_pre, p_suf, ver]
    return [c_a, c_a_w, c_a_v, c_ab, c_pre, c_pre_w, p_p, p_p_w, p_p_v, p_pq, p_suf, p_suf_w, ver, at, tr]


_restr_cache = {}


def restrictions_of(tier, uni):
    """All restriction descriptors of the tier, simplest first (deterministic)."""
    key = (tier, uni)
    if key in _restr_cache:
        return _restr_cache[key]
    if uni == "ver":
        c_a, p_p, p_q = leaf("cat", "exact", "a"), leaf("pkg", "exact", "p"), leaf("pkg", "exact", "q")
        out = [
            ["true"], c_a, p_p, leaf("pkg", "prefix", "p"), leaf("pkg", "exact", "p", 1, 0),
            ["atom", "a/p"], ["atom", ">=a/p-1.9"], ["atom", "<a/p-10"], ["atom", "~a/p-1"],
            ["ver", ">=", "1.9", 0], ["ver", "=", "1.10", 1], ["ver", "<", "1_p1", 0],
            ["and", 0, [c_a, p_p]], ["or", 0, [p_p, p_q]], ["and", 0, [p_p, ["ver", ">=", "1.2", 0]]],
            ["or", 0, [["atom", "a/p"], ["atom", "a/q"]]], ["not", ["false"]], ["and", 1, [p_q]],
        ]
        _restr_cache[key] = out
        return out
    L = all_leaves(uni)
    kinds4 = ("and", "or", "one", "amo")
    out = []
    out.extend(L)
    out.extend(["not", x] for x in L)
    for k in kinds4:
        for neg in (0, 1):
            out.append([k, neg, []])
    for k in kinds4:
        for neg in (0, 1):
            out.extend([k, neg, [x]] for x in L)
    if uni == "ci":
        C = core_leaves(uni, 0)
        for k in ("and", "or"):
            for neg in (0, 1):
                out.extend([k, neg, [x, y]] for x in C for y in C)
        _restr_cache[key] = out
        return out
    # binary nodes over the 15-leaf core, ordered pairs (clause order matters to the pruning code)
    C = core_leaves(uni, 15)
    for k in kinds4:
        for neg in (0, 1):
            out.extend([k, neg, [x, y]] for x in C for y in C)
    # Negate-wrapped children / Negate-wrapped nodes
    C5 = core_leaves(uni, 5)
    for k in ("and", "or"):
        out.extend([k, 0, [["not", x], y]] for x in C5 for y in C5)
        out.extend([k, 0, [y, ["not", x]]] for x in C5 for y in C5)
        out.extend(["not", [k, 0, [x, y]]] for x in C5 for y in C5)
    # flat ternary
    for k in ("and", "or"):
        for neg in (0, 1):
            out.extend([k, neg, [x, y, z]] for x in C5 for y in C5 for z in C5)
    # depth 2, three leaves: outer(inner(x,y), z) and outer(z, inner(x,y))
    C3 = core_leaves(uni, 4) if tier == "quick" else core_leaves(uni, 7)
    inner_kinds = ("and", "or") if tier == "quick" else kinds4
    for ok in ("and", "or"):
        for oneg in (0, 1):
            for ik in inner_kinds:
                for ineg in (0, 1):
                    for x in C3:
                        for y in C3:
                            inner = [ik, ineg, [x, y]]
                            for z in C3:
                                out.append([ok, oneg, [inner, z]])
                                out.append([ok, oneg, [z, inner]])
    # depth 2, four leaves: outer(inner1(x,y), inner2(z,w))
    C4 = core_leaves(uni, 3 if tier == "quick" else 4)
    negs = ((0, 0, 0),) if tier == "quick" else tuple(itertools.product((0, 1), repeat=3))
    for ok in ("and", "or"):
        for ik1 in ("and", "or"):
            for ik2 in ("and", "or"):
                for oneg, n1, n2 in negs:
                    for x, y, z, w in itertools.product(C4, repeat=4):
                        out.append([ok, oneg, [[ik1, n1, [x, y]], [ik2, n2, [z, w]]]])
    _restr_cache[key] = out
    return out


def build(desc):
    from pkgcore.ebuild.atom import atom
    from pkgcore.ebuild.restricts import VersionMatch
    from pkgcore.restrictions import boolean, packages, restriction, values

    tag = desc[0]
    if tag in ("cat", "pkg"):
        (vk, va), vneg, wneg = desc[1], bool(desc[2]), bool(desc[3])
        if vk == "exact":
            v = values.StrExactMatch(va, negate=vneg)
        elif vk == "iexact":
            v = values.StrExactMatch(va, case_sensitive=False, negate=vneg)
        elif vk == "prefix":
            v = values.StrGlobMatch(va, prefix=True, negate=vneg)
        elif vk == "suffix":
            v = values.StrGlobMatch(va, prefix=False, negate=vneg)
        elif vk == "regex":
            v = values.StrRegex(va, negate=vneg)
        elif vk == "contain":
            v = values.ContainmentMatch(frozenset(va), negate=vneg)
        else:
            raise ValueError(desc)
        return packages.PackageRestriction("category" if tag == "cat" else "package", v, negate=wneg)
    if tag == "ver":
        return VersionMatch(desc[1], desc[2], negate=bool(desc[3]))
    if tag == "atom":
        return atom(desc[1])
    if tag == "true":
        return packages.AlwaysTrue
    if tag == "false":
        return packages.AlwaysFalse
    if tag == "not":
        return restriction.Negate(build(desc[1]))
    cls = {
        "and": boolean.AndRestriction,
        "or": boolean.OrRestriction,
        "one": boolean.JustOneRestriction,
        "amo": boolean.AtMostOneOfRestriction,
    }[tag]
    return cls(*[build(c) for c in desc[2]], negate=bool(desc[1]), node_type=restriction.package_type)


def unversionable(desc):
    """True if the restriction only looks at category / package (can be asked of an UnversionedCPV)."""
    tag = desc[0]
    if tag in ("cat", "pkg", "true", "false"):
        return True
    if tag == "ver":
        return False
    if tag == "atom":
        return not any(ch in desc[1] for ch in "<>=~:[")
    if tag == "not":
        return unversionable(desc[1])
    return all(unversionable(c) for c in desc[2])


def kind_of(desc):
    tag = desc[0]
    if tag in ("cat", "pkg"):
        return "leaf" + ("-wneg" if desc[3] else "") + ("-vneg" if desc[2] else "")
    if tag in ("ver", "true", "false"):
        return "leaf-other"
    if tag in ("atom", "not"):
        return tag
    return ("n" if desc[1] else "") + tag


# ----------------------------------------------------------------------------------------------
# the checking function shared by work() and replay()

_pkgobjs = {}


def _vcpv(t):
    from pkgcore.ebuild.cpv import VersionedCPV

    o = _pkgobjs.get(t)
    if o is None:
        o = _pkgobjs[t] = VersionedCPV(t[0], t[1], t[2])
    return o


def _ucpv(t):
    from pkgcore.ebuild.cpv import UnversionedCPV

    o = _pkgobjs.get(t)
    if o is None:
        o = _pkgobjs[t] = UnversionedCPV(t[0], t[1])
    return o


_verkeys = {}


def _verkey(v):
    """Sort key for a version string: PMS order from verif.ref (never pkgcore's own comparison)."""
    k = _verkeys.get(v)
    if k is None:
        k = _verkeys[v] = functools.cmp_to_key(ref.pms_ver_cmp)(v)
    return k


def _refkey(t):
    return (t[0], t[1], _verkey(t[2])) if len(t) == 3 else t


def mk_repo(cpvs):
    from pkgcore.repository.util import SimpleTree

    d = {}
    for c, p, v in cpvs:
        d.setdefault(c, {}).setdefault(p, []).append(v)
    return SimpleTree(d)


def _rsorted(x):
    return sorted(x, reverse=True)


def _pair_sorter(l):
    return sorted(l, key=itemgetter(0))


FILTERS = [["cat", ["exact", "a"], 0, 0], ["ver", "=", "1", 0]]
CORE_MODES = ("plain", "sorted", "rsorted", "unver", "unver-sorted")
WRAP_MODES = ("filtered:0:0", "filtered:0:1", "filtered:1:0", "filtered:1:1", "caching:sorted", "caching:iter", "msr")
STACK_MODES = ("mux", "mux-sorted", "mux-rsorted", "msr")


class Query:
    """One restriction, with its brute-force truth table memoised per package."""

    def __init__(self, desc):
        self.desc = desc
        self.r = build(desc)
        self.unv = unversionable(desc)
        self._m = {}
        self._filters = None

    def matches(self, t):
        m = self._m.get(t)
        if m is None:
            m = self._m[t] = bool(self.r.match(_vcpv(t) if len(t) == 3 else _ucpv(t)))
        return m

    def expected(self, cpvs):
        return [t for t in cpvs if self.matches(t)]

    def filt(self, i):
        if self._filters is None:
            self._filters = [Query(d) for d in FILTERS]
        return self._filters[i]


def _key(pkg):
    return (pkg.category, pkg.package, pkg.fullver)


def _ukey(pkg):
    return (pkg.category, pkg.package)


def run_mode(q, mode, cpvs, repo, partner_cpvs=None, partner=None, first=True):
    """Run one query in one mode. Returns (applicable, got, exp, ordered); got may be an error string.

    ``repo``/``partner`` are SimpleTree objects built from ``cpvs``/``partner_cpvs``.
    """
    from pkgcore.ebuild.cpv import UnversionedCPV
    from pkgcore.repository import filtered, misc, multiplex

    r = q.r
    keyf = _key
    try:
        if mode == "plain":
            exp, ordered = q.expected(cpvs), False
            got = list(repo.itermatch(r))
        elif mode == "sorted":
            exp, ordered = sorted(q.expected(cpvs), key=_refkey), True
            got = list(repo.itermatch(r, sorter=sorted))
        elif mode == "rsorted":
            exp, ordered = sorted(q.expected(cpvs), key=_refkey, reverse=True), True
            got = list(repo.itermatch(r, sorter=_rsorted))
        elif mode in ("unver", "unver-sorted"):
            if not q.unv:
                return False, None, None, False
            cps = list(dict.fromkeys((t[0], t[1]) for t in cpvs))
            keyf = _ukey
            if mode == "unver":
                exp, ordered = q.expected(cps), False
                got = list(repo.itermatch(r, versioned=False, raw_pkg_cls=UnversionedCPV))
            else:
                exp, ordered = sorted(q.expected(cps)), True
                got = list(repo.itermatch(r, versioned=False, raw_pkg_cls=UnversionedCPV, sorter=sorted))
        elif mode.startswith("filtered:"):
            _, fi, sv = mode.split(":")
            f = q.filt(int(fi))
            sv = bool(int(sv))
            exp, ordered = [t for t in q.expected(cpvs) if f.matches(t) == sv], False
            got = list(filtered.tree(repo, f.r, sentinel_val=sv).itermatch(r))
        elif mode == "caching:sorted":
            exp, ordered = sorted(q.expected(cpvs), key=_refkey), True
            c = misc.caching_repo(repo, sorted)
            got = list(c.match(r))
            again = list(c.itermatch(r))
            if [_key(p) for p in again] != [_key(p) for p in got]:
                return True, "second query of caching_repo differs from the first: %r vs %r" % ([_key(p) for p in again], [_key(p) for p in got]), exp, True
        elif mode == "caching:iter":
            exp, ordered = q.expected(cpvs), False
            c = misc.caching_repo(repo, iter)
            got = list(c.itermatch(r))
        elif mode in ("mux", "mux-sorted", "mux-rsorted", "msr"):
            members = [(cpvs, repo)]
            if partner_cpvs is not None:
                members.append((partner_cpvs, partner))
                if not first:
                    members.reverse()
            allexp = [t for cp, _ in members for t in q.expected(cp)]
            trees = [x for _, x in members]
            if mode == "mux":
                exp, ordered = allexp, False
                got = list(multiplex.tree(*trees).itermatch(r))
            elif mode == "mux-sorted":
                exp, ordered = sorted(allexp, key=_refkey), True
                got = list(multiplex.tree(*trees).itermatch(r, sorter=sorted))
            elif mode == "mux-rsorted":
                exp, ordered = sorted(allexp, key=_refkey, reverse=True), True
                got = list(multiplex.tree(*trees).itermatch(r, sorter=_rsorted))
            else:
                exp, ordered = sorted(allexp, key=_refkey), True
                got = list(misc.multiplex_sorting_repo(_pair_sorter, [misc.caching_repo(x, sorted) for x in trees]).itermatch(r))
        else:
            raise ValueError(mode)
    except Exception as e:  # a query must not raise
        return True, f"raised {type(e).__name__}: {e}", None, False
    return True, [keyf(p) for p in got], exp, ordered


def judge(got, exp, ordered):
    """Compare a query result with the brute-force expectation. Returns (message or None, failure kind)."""
    if isinstance(got, str):
        return got, "error"
    got = [tuple(x) for x in got]
    exp = [tuple(x) for x in exp]
    sg, se = sorted(got, key=_refkey), sorted(exp, key=_refkey)
    if sg != se:
        missing = [x for x in se if x not in got]
        extra = [x for x in sg if x not in exp]
        dup = sorted({x for x in got if got.count(x) > exp.count(x) and x in exp})
        kind = "missing" if missing and not extra and not dup else ("extra" if extra else "duplicate")
        return (f"missing={_fmt(missing)} extra={_fmt(extra)} duplicated={_fmt(dup)}", kind)
    if ordered and got != exp:
        return (f"wrong order: got {_fmt(got)} expected {_fmt(exp)}", "order")
    return None, None


def _fmt(l):
    return "[" + ",".join(f"{t[0]}/{t[1]}" + (f"-{t[2]}" if len(t) == 3 else "") for t in l) + "]"


def check_case(desc, cpvs, mode, partner_cpvs=None, first=True, q=None, repo=None, partner=None):
    """Evaluate one (restriction, repository[, partner], mode). Returns (applicable, message or None, failure kind)."""
    cpvs = [tuple(t) for t in cpvs]
    if partner_cpvs is not None:
        partner_cpvs = [tuple(t) for t in partner_cpvs]
    if q is None:
        q = Query(desc)
    if repo is None:
        repo = mk_repo(cpvs)
    if partner_cpvs is not None and partner is None:
        partner = mk_repo(partner_cpvs)
    app, got, exp, ordered = run_mode(q, mode, cpvs, repo, partner_cpvs, partner, first)
    if not app:
        return False, None, None
    msg, kind = judge(got, exp, ordered)
    return True, msg, kind


def mk_case(desc, cpvs, mode, msg, fail, partner_cpvs=None, first=True):
    case = {"r": desc, "repo": [list(t) for t in cpvs], "mode": mode, "fail": fail}
    if partner_cpvs is not None:
        case["partner"] = [list(t) for t in partner_cpvs]
        case["first"] = bool(first)
    case["msg"] = f"itermatch[{mode}] of {show(desc)} on repo {_fmt(cpvs)}" + (f" stacked with {_fmt(partner_cpvs)}" if partner_cpvs is not None else "") + f": {msg}"
    return case


def show(desc):
    tag = desc[0]
    if tag in ("cat", "pkg"):
        s = f"{tag} {'not ' if desc[2] else ''}{desc[1][0]}({desc[1][1] if not isinstance(desc[1][1], list) else ','.join(desc[1][1])})"
        return f"NOT[{s}]" if desc[3] else s
    if tag == "ver":
        return f"{'not ' if desc[3] else ''}ver{desc[1]}{desc[2]}"
    if tag == "atom":
        return f"atom({desc[1]})"
    if tag in ("true", "false"):
        return tag
    if tag == "not":
        return f"Negate({show(desc[1])})"
    return f"{'N' if desc[1] else ''}{tag.upper()}({', '.join(show(c) for c in desc[2])})"


def replay(case):
    if "seq" in case:
        return seq_replay(case)
    partner = case.get("partner")
    app, msg, kind = check_case(case["r"], case["repo"], case["mode"], partner, case.get("first", True))
    if not msg:
        return []
    repo = [tuple(t) for t in case["repo"]]
    partner = [tuple(t) for t in partner] if partner is not None else None
    return [mk_case(case["r"], repo, case["mode"], msg, kind, partner, case.get("first", True))["msg"]]


# ----------------------------------------------------------------------------------------------
# non-initial states: operation sequences on a stack of mutable repositories
#
# A stack (multiplex.tree or util.RepositoryGroup) over SimpleTree members is driven through every
# sequence of operations up to a depth bound; then ONE final query is asked of the stack (or of a
# member) and compared with a brute-force filter over a plain-Python model of the members'
# contents (lists updated by the add/remove operations, concatenated in stack order).  Everything
# is rebuilt from scratch for every (sequence, final query), so only the queries that are part of
# the sequence can have warmed any lazily filled mapping.
#   ops: ["q", desc]  query through the stack (result consumed)
#        ["add", m, cpv] / ["rm", m, cpv]   members[m].notify_add_package / notify_remove_package
#        ["plus"]      stack = stack + extra_repo (extends the stack in place)

SEQ_SETUPS = (
    ((("a", "p", "1"),), ()),
    ((("a", "p", "1"),), (("b", "q", "1"),)),
)
SEQ_EXTRA = (("a", "q", "1"), ("b", "p", "1"))
SEQ_ADD = (("a", "q", "1"), ("b", "p", "1"), ("a", "p", "2"))
SEQ_RM = (("a", "p", "1"), ("a", "q", "1"), ("b", "p", "1"), ("b", "q", "1"), ("a", "p", "2"))
SEQ_QOPS = (["atom", "a/p"], ["atom", "a/q"], ["atom", "b/p"], ["atom", "b/q"], ["pkg", ["exact", "q"], 0, 0])
SEQ_FINAL = (
    ["atom", "a/p"], ["atom", "a/q"], ["atom", "b/p"], ["atom", "b/q"], ["atom", "=a/p-2"],
    ["true"], ["pkg", ["exact", "q"], 0, 0], ["cat", ["exact", "b"], 0, 0],
)
# final queries also asked of every member on its own (is the member itself fresh after notify_*?)
SEQ_MEMBER_FINAL = (["atom", "a/q"], ["atom", "b/p"], ["true"])
SEQ_KINDS = ("mux", "group")
SEQ_DEPTH = {"quick": 3, "thorough": 4}


def seq_all_ops():
    ops = [["q", d] for d in SEQ_QOPS]
    ops += [["add", m, list(c)] for m in (0, 1) for c in SEQ_ADD]
    ops += [["rm", m, list(c)] for m in (0, 1) for c in SEQ_RM]
    ops.append(["plus"])
    return ops


def seq_model_apply(model, op):
    """Apply op to the model (list of lists of cpv tuples). Returns False if the op is not enabled."""
    if op[0] == "q":
        return True
    if op[0] == "plus":
        if len(model) > 2:
            return False
        model.append(list(SEQ_EXTRA))
        return True
    m, c = op[1], tuple(op[2])
    if op[0] == "add":
        if c in model[m]:
            return False
        model[m].append(c)
        return True
    if c not in model[m]:
        return False
    model[m].remove(c)
    return True


def seq_enumerate(setup, depth, first=None):
    """All enabled op sequences of length <= depth (simplest first); optionally only those starting with op #first."""
    ops = seq_all_ops()
    out = []

    def rec(prefix, model, d):
        out.append(list(prefix))
        if d == 0:
            return
        for i, op in enumerate(ops):
            if not prefix and first is not None and i != first:
                continue
            m2 = [list(x) for x in model]
            if seq_model_apply(m2, op):
                rec(prefix + [op], m2, d - 1)

    rec([], [list(x) for x in setup], depth)
    if first is not None:
        out = [x for x in out if x]
    out.sort(key=len)
    return out


def _mk_mutable(cpvs):
    from pkgcore.repository.util import SimpleTree

    d = {}
    for c, p, v in cpvs:
        d.setdefault(c, {}).setdefault(p, []).append(v)
    return SimpleTree(d, frozen=False)


def seq_run(kind, setup, ops, fq, mode, target):
    """Rebuild the stack, replay ops, ask the final query. Returns (message or None, failure kind)."""
    from pkgcore.repository import multiplex
    from pkgcore.repository.util import RepositoryGroup

    members = [_mk_mutable(c) for c in setup]
    model = [[tuple(t) for t in c] for c in setup]
    stack = multiplex.tree(*members) if kind == "mux" else RepositoryGroup(members)
    for i, op in enumerate(ops):
        try:
            if op[0] == "q":
                list(stack.itermatch(build(op[1])))
            elif op[0] == "plus":
                x = _mk_mutable(SEQ_EXTRA)
                stack = stack + x
                members.append(x)
            elif op[0] == "add":
                members[op[1]].notify_add_package(_vcpv(tuple(op[2])))
            else:
                members[op[1]].notify_remove_package(_vcpv(tuple(op[2])))
        except Exception as e:
            # a failing query is a violation; a failing mutation makes the sequence non-executable (the statement
            # speaks about query answers only), it is counted and reported in the classes, not judged
            kind_ = "error" if op[0] == "q" else "op-raised"
            return f"operation #{i + 1} {show_op(op)} raised {type(e).__name__}: {e}", kind_
        if not seq_model_apply(model, op):
            raise ValueError(f"op {op} not enabled in the model")
    if fq is None:
        return None, None
    q = Query(fq)
    if target == "stack":
        exp = [t for m in model for t in m if q.matches(t)]
        src = stack
    else:
        exp = [t for t in model[target] if q.matches(t)]
        src = members[target]
    try:
        if mode == "sorted":
            exp, ordered = sorted(exp, key=_refkey), True
            got = [_key(x) for x in src.itermatch(q.r, sorter=sorted)]
        else:
            ordered = False
            got = [_key(x) for x in src.itermatch(q.r)]
    except Exception as e:
        return f"raised {type(e).__name__}: {e}", "error"
    return judge(got, exp, ordered)


def show_op(op):
    if op[0] == "q":
        return f"query({show(op[1])})"
    if op[0] == "plus":
        return f"stack+[{_fmt([tuple(t) for t in SEQ_EXTRA])}]"
    return f"member{op[1]}.notify_{'add' if op[0] == 'add' else 'remove'}_package({op[2][0]}/{op[2][1]}-{op[2][2]})"


def seq_case(kind, setup, ops, fq, mode, target, msg, fail):
    what = "stack" if target == "stack" else f"member{target}"
    text = (
        f"{'multiplex.tree' if kind == 'mux' else 'RepositoryGroup'} over {[_fmt(c) for c in setup]} after "
        f"[{'; '.join(show_op(o) for o in ops)}]: "
        + (f"{what}.itermatch[{mode}] of {show(fq)}: " if fq is not None else "")
        + msg
    )
    return {
        "seq": {"kind": kind, "setup": [[list(t) for t in c] for c in setup], "ops": ops, "mode": mode, "target": target},
        "r": fq if fq is not None else ["true"],
        "fq": fq,
        "fail": fail,
        "msg": text,
    }


def seq_replay(case):
    sq = case["seq"]
    setup = [[tuple(t) for t in c] for c in sq["setup"]]
    msg, fail = seq_run(sq["kind"], setup, sq["ops"], case["fq"], sq["mode"], sq["target"])
    if not msg:
        return []
    return [seq_case(sq["kind"], setup, sq["ops"], case["fq"], sq["mode"], sq["target"], msg, fail)["msg"]]


def seq_tasks(tier):
    nops = len(seq_all_ops())
    return [(tier, "seq", (kind, si), first) for kind in SEQ_KINDS for si in range(len(SEQ_SETUPS)) for first in [None] + list(range(nops))]


def seq_work(task, record):
    tier, _, (kind, si), first = task
    setup = SEQ_SETUPS[si]
    depth = SEQ_DEPTH[tier]
    seqs = [[]] if first is None else seq_enumerate(setup, depth, first)
    evals = 0
    classes = {}
    samples = []
    for ops in seqs:
        sig = "seq|" + ("+".join(sorted({o[0] for o in ops})) or "initial")
        classes[sig] = classes.get(sig, 0) + 1
        nmembers = 2 + sum(1 for o in ops if o[0] == "plus")
        failed = set()
        for fq in SEQ_FINAL:
            if "opr" in failed:
                break
            targets = [("plain", "stack"), ("sorted", "stack")]
            if fq in SEQ_MEMBER_FINAL:
                targets += [("plain", i) for i in range(nmembers)]
            for mode, target in targets:
                msg, fail = seq_run(kind, setup, ops, fq, mode, target)
                evals += 1
                if fail == "op-raised":
                    failed.add("opr")
                    classes["seq-op-raised"] = classes.get("seq-op-raised", 0) + 1
                    break
                if msg and fail == "error" and msg.startswith("operation #"):
                    # an operation of the sequence itself failed; record once, without a final query
                    if "op" not in failed:
                        failed.add("op")
                        record(seq_case(kind, setup, ops, None, mode, target, msg, fail))
                    continue
                if msg:
                    record(seq_case(kind, setup, ops, fq, mode, target, msg, fail))
        if not samples and len(ops) == depth:
            samples.append({"stack": kind, "sequence": [show_op(o) for o in ops]})
    return evals, classes, samples


# ----------------------------------------------------------------------------------------------
# enumeration

CHUNK = {"quick": 40, "thorough": 120}


def tasks(tier):
    out = []
    for uni in ("main", "ci", "ver"):
        n = len(restrictions_of(tier, uni))
        ch = CHUNK[tier]
        out += [(tier, uni, lo, min(lo + ch, n)) for lo in range(0, n, ch)]
    out += seq_tasks(tier)
    return out


_repo_cache = {}


def _repos(tier, uni):
    key = (tier, uni)
    if key not in _repo_cache:
        rl = repos_of(tier, uni)
        wl = wrapper_repos(uni)
        pl = stack_partners(uni)
        _repo_cache[key] = ([(c, mk_repo(c)) for c in rl], [(c, mk_repo(c)) for c in wl], [(c, mk_repo(c)) for c in pl])
    return _repo_cache[key]


def cand_class(q, fullrepo, ncps):
    """How did the real code prune the candidate set on the full repository (classification only)."""
    from pkgcore.ebuild.atom import atom

    if isinstance(q.r, atom):
        return "atom-direct"
    try:
        c = fullrepo._identify_candidates(q.r, iter)
        if c is fullrepo.versions:
            return "full-scan"
        n = len(list(c))
    except Exception:
        return "cand-error"
    if n >= ncps:
        return "all-cps"
    if n == 0:
        return "no-cand"
    if n == 1:
        return "single-cp"
    return "pruned"


MAX_UNKNOWN = 40
MAX_KNOWN_PER_CLASS = 4


def work(task):
    if task[1] == "seq":
        unknown, known = [], {}

        def record(case):
            for name, fn in CLASSIFIERS.items():
                if fn(case):
                    l = known.setdefault(name, [])
                    if len(l) < MAX_KNOWN_PER_CLASS:
                        l.append(case)
                    return
            if len(unknown) < MAX_UNKNOWN:
                unknown.append(case)

        evals, classes, samples = seq_work(task, record)
        viol = unknown + [c for l in known.values() for c in l]
        return {"evals": evals, "classes": classes, "viol": viol, "samples": samples, "keep_all_viol": True}
    tier, uni, lo, hi = task
    descs = restrictions_of(tier, uni)[lo:hi]
    repos, wrepos, partners = _repos(tier, uni)
    fullcp, full = repos[-1]
    ncps = len({(t[0], t[1]) for t in fullcp})
    evals = 0
    classes = {}
    unknown, known = [], {}
    samples = []

    def record(case):
        for name, fn in CLASSIFIERS.items():
            if fn(case):
                l = known.setdefault(name, [])
                if len(l) < MAX_KNOWN_PER_CLASS:
                    l.append(case)
                return
        if len(unknown) < MAX_UNKNOWN:
            unknown.append(case)

    for desc in descs:
        q = Query(desc)
        k = kind_of(desc) + "|" + cand_class(q, full, ncps)
        classes[k] = classes.get(k, 0) + 1
        failed = set()
        for cpvs, repo in repos:
            nexp = len(q.expected(cpvs))
            if cpvs:
                rc = "result:" + ("none" if nexp == 0 else "all" if nexp == len(cpvs) else "some")
                classes[rc] = classes.get(rc, 0) + 1
            for mode in CORE_MODES:
                app, msg, fk = check_case(desc, cpvs, mode, q=q, repo=repo)
                if not app:
                    continue
                evals += 1
                # the smallest failing repository per (restriction, mode, failure kind) is recorded
                if msg and (mode, fk) not in failed:
                    failed.add((mode, fk))
                    record(mk_case(desc, cpvs, mode, msg, fk))
        for cpvs, repo in wrepos:
            for mode in WRAP_MODES:
                app, msg, fk = check_case(desc, cpvs, mode, q=q, repo=repo)
                evals += 1
                if msg and (mode, fk) not in failed:
                    failed.add((mode, fk))
                    record(mk_case(desc, cpvs, mode, msg, fk))
            for pc, prepo in partners:
                for first in (True, False):
                    for mode in STACK_MODES:
                        app, msg, fk = check_case(desc, cpvs, mode, pc, first, q=q, repo=repo, partner=prepo)
                        evals += 1
                        if msg and (mode + ":stack", fk) not in failed:
                            failed.add((mode + ":stack", fk))
                            record(mk_case(desc, cpvs, mode, msg, fk, pc, first))
        if len(samples) < 2:
            samples.append({"restriction": show(desc), "repo": _fmt(fullcp), "expected": _fmt(q.expected(fullcp))})
    viol = unknown + [c for l in known.values() for c in l]
    return {"evals": evals, "classes": classes, "viol": viol, "samples": samples, "keep_all_viol": True}


# ----------------------------------------------------------------------------------------------
# narrow classifiers for known_findings.json


def _walk(desc, under_bool=False, under_neg_or_opaque=False):
    """Yield (node, is_below_a_boolean_node) for every node of the tree."""
    yield desc, under_bool
    tag = desc[0]
    if tag == "not":
        yield from _walk(desc[1], under_bool)
    elif tag in ("and", "or", "one", "amo"):
        for c in desc[2]:
            yield from _walk(c, True)


def _missing_only(case):
    return case.get("fail") == "missing"


def _has_wneg_leaf_in_bool(case):
    """Pruning drops a wrapper-level negate: a negated category/package PackageRestriction below a boolean node,
    and the only failure is packages missing from the answer."""
    return _missing_only(case) and any(b and n[0] in ("cat", "pkg") and n[3] for n, b in _walk(case["r"]))


def _has_neg_bool_in_bool(case):
    """Pruning flattens a negated And/Or nested in a boolean node; only failure: missing packages."""
    return _missing_only(case) and any(b and n[0] in ("and", "or") and n[1] for n, b in _walk(case["r"]))


def _has_counting_node(case):
    """Pruning treats exactly-one-of / at-most-one-of as a conjunction of its children; only failure: missing packages."""
    return _missing_only(case) and any(n[0] in ("one", "amo") for n, b in _walk(case["r"]))


def _negate_wrapper_crash(case):
    """A top-level restriction.Negate has no .negate attribute: itermatch raises AttributeError."""
    return case["r"][0] == "not" and case.get("fail") == "error" and "AttributeError" in case["msg"] and "negate" in case["msg"]


def _iexact_shortcut(case):
    """A case-insensitive StrExactMatch on category/package is used as a literal dict key; only failure: missing packages."""
    return _missing_only(case) and any(n[0] in ("cat", "pkg") and n[1][0] == "iexact" and not n[2] for n, b in _walk(case["r"]))


CLASSIFIERS = {
    "negate-wrapper-crash": _negate_wrapper_crash,
    "pruning-ignores-wrapper-negate": _has_wneg_leaf_in_bool,
    "pruning-flattens-negated-boolean": _has_neg_bool_in_bool,
    "pruning-flattens-counting-node": _has_counting_node,
    "pruning-case-insensitive-exact": _iexact_shortcut,
}
