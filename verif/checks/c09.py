"""C09 dependency strings round-trip; USE evaluation preserves meaning.

Every tree of a small dependency grammar (per string style: dependencies, LICENSE, RESTRICT, SRC_URI with
renames, REQUIRED_USE) is rendered to text by the harness, fed to the real ``DepSet.parse`` and

* must parse, ``str()`` of the result must parse again to the same structure (own structural dump, pkgcore ``==``,
  ``str`` idempotent);
* for every subset U of the conditional flags ``evaluate_depset(U)`` must be free of conditionals and, for every
  set S of true leaves, be satisfied exactly when the generated tree read under U is (PMS 8.2 semantics evaluated
  by a plain recursive function on the harness' own tree; the pkgcore result is walked structurally, its ``match``
  is never called);
* every single-token deletion / insertion of ``( ) || x?`` (``^^`` for REQUIRED_USE, ``->`` for SRC_URI) is
  classified by an independent token scanner; strings with unbalanced parentheses or a dangling operator must
  raise, anything that parses must round-trip.
"""

import itertools
from functools import lru_cache

PROPERTY = "C09"
LEVEL = "exploration"
ENGINE = "enum"
TECHNIQUE = "bounded exhaustive grammar enumeration against a propositional reference evaluator"
RULE = (
    "all trees with <= N nodes (depth <= 3, <= 3 children per group, <= 3 top-level items) of five dependency-string "
    "grammars (dep atoms incl. a blocker, LICENSE, RESTRICT, SRC_URI with '->' renames, REQUIRED_USE with ^^ ?? and "
    "negated flags) are rendered, parsed by DepSet.parse, re-rendered and re-parsed; evaluate_depset is run for every "
    "subset of the conditional flags and compared on every subset of leaf tokens with a PMS 8.2 evaluator of the "
    "generated tree; every single-token deletion and every insertion of one structural token at every position is "
    "classified by an independent scanner (valid / unbalanced / dangling / silent) and parsed. A class is (style, what "
    "the flag set did to the tree), (scanner verdict, accepted or rejected) or the truth value; distinct_nontrivial "
    "counts classes observed."
)
ASSUMPTIONS = [
    "Excl: an all-of group or enabled conditional that becomes empty under the flag set while being a member of an "
    "any-of / exactly-one-of / at-most-one-of group, and a choice group emptied inside another choice group (PMS only "
    "defines 'disabled conditional that is an immediate child is not a member' and 'empty any-of counts as matched'; "
    "whether an emptied nested group is a matched member is left open) -- such (tree, flag set) pairs are counted as "
    "class 'arguable' and not judged",
    "Excl: empty groups '( )' and group/operator kinds the string style does not enable (plain '(' or '||' in "
    "RESTRICT/SRC_URI) -- the statement is silent, either outcome accepted; what parses must still round-trip",
    "Excl: SRC_URI strings where '->' is not between two plain tokens (accept/reject not judged)",
    "Excl: USE-dependency atoms that expand to conditionals (transitive_use_atoms) are not in the leaf alphabet",
    "'rejected' = DepSet.parse raises an Exception (all observed rejections were DepsetParseError)",
    "leaf alphabet is 3 leaves per style (2 for the deeper reduced styles dep2/requse2), conditional flags x (positive) and y (negated); thorough adds !x",
]
BOUNDS = {
    "quick": "valid strings: nodes <= 5 (dep, requse, restrict, srcuri), <= 4 (license), <= 6 for the reduced alphabets dep2 (2 leaves, || ( ) x?) and requse2 (2 leaves, ^^ ?? x?) -- ~115k strings x every flag subset x every leaf subset; single-token corruptions of every string with <= 4 nodes (~390k)",
    "thorough": "valid strings: nodes <= 6 (dep, requse, restrict, srcuri; extra conditional !x?), <= 5 (license), <= 7 (dep2, requse2); corruptions of every string with <= 5 nodes (<= 6 for restrict/srcuri)",
}

MAXKIDS = 3
MAXDEPTH = 3

STYLES = {
    "dep": {"leaves": ("a/b", "a/c", "!a/d"), "ops": ("||", "()")},
    "license": {"leaves": ("L1", "L2", "L3"), "ops": ("||", "()")},
    "restrict": {"leaves": ("r1", "r2", "r3"), "ops": ()},
    "srcuri": {"leaves": ("h://s/f1", "h://s/f2 -> n2", "m://f3"), "ops": ()},
    "requse": {"leaves": ("a", "!a", "b"), "ops": ("||", "()", "^^", "??")},
    # reduced alphabets that reach one node deeper (nested groups next to a conditional); parsed like their base style
    "dep2": {"leaves": ("a/b", "!a/d"), "ops": ("||", "()"), "conds": ("x?",), "base": "dep"},
    "requse2": {"leaves": ("a", "b"), "ops": ("^^", "??"), "conds": ("x?",), "base": "requse"},
}


def base(style):
    return STYLES[style].get("base", style)


CHOICE = ("||", "^^", "??")
ALL_OPS = ("||", "^^", "??")
SIZES = {
    "quick": {"dep": 5, "license": 4, "restrict": 5, "srcuri": 5, "requse": 5, "dep2": 6, "requse2": 6},
    "thorough": {"dep": 6, "license": 5, "restrict": 6, "srcuri": 6, "requse": 6, "dep2": 7, "requse2": 7},
}


def conds(tier):
    return ("x?", "!y?") if tier == "quick" else ("x?", "!y?", "!x?")


def kinds(style, tier):
    return STYLES[style]["ops"] + STYLES[style].get("conds", conds(tier))


def compositions(n, maxparts):
    """Ordered tuples of 1..maxparts positive ints summing to n, fewest parts first."""
    out = []
    for k in range(1, maxparts + 1):
        if k > n:
            break
        for cuts in itertools.combinations(range(1, n), k - 1):
            parts = []
            prev = 0
            for c in cuts:
                parts.append(c - prev)
                prev = c
            parts.append(n - prev)
            out.append(tuple(parts))
    return out


@lru_cache(None)
def trees(style, tier, n, d):
    """All trees with exactly n nodes and depth <= d. A leaf is a str, a group is (kind, (children...))."""
    if n == 1:
        return STYLES[style]["leaves"]
    if d == 0:
        return ()
    out = []
    for kind in kinds(style, tier):
        for comp in compositions(n - 1, MAXKIDS):
            for combo in itertools.product(*[trees(style, tier, s, d - 1) for s in comp]):
                out.append((kind, combo))
    return tuple(out)


def render(t):
    if isinstance(t, str):
        return t
    kind, ch = t
    inner = " ".join(render(c) for c in ch)
    if kind == "()":
        return "( " + inner + " )"
    return kind + " ( " + inner + " )"


def render_seq(seq):
    return " ".join(render(t) for t in seq)


# ---------------------------------------------------------------- reference semantics (PMS 8.2)


class Arguable(Exception):
    pass


def _cond_enabled(kind, U):
    if kind[0] == "!":
        return kind[1:-1] not in U
    return kind[:-1] in U


def _is_cond(t):
    return not isinstance(t, str) and t[0][-1] == "?" and t[0] not in ALL_OPS


def ref_empty(t, U):
    """True when nothing of t is left under flag set U."""
    if isinstance(t, str):
        return False
    kind, ch = t
    if _is_cond(t) and not _cond_enabled(kind, U):
        return True
    return all(ref_empty(c, U) for c in ch)


def leaf_true(style, leaf, S):
    if base(style) == "requse" and leaf[0] == "!":
        return leaf[1:] not in S
    return leaf in S


def ref_sat(style, t, U, S):
    if isinstance(t, str):
        return leaf_true(style, t, S)
    kind, ch = t
    if _is_cond(t):
        if not _cond_enabled(kind, U):
            return True  # only reached in an all-of context
        return all(ref_sat(style, c, U, S) for c in ch)
    if kind == "()":
        return all(ref_sat(style, c, U, S) for c in ch)
    # choice group: disabled conditionals that are immediate children are not members
    members = [c for c in ch if not (_is_cond(c) and not _cond_enabled(c[0], U))]
    for m in members:
        if ref_empty(m, U):
            raise Arguable()
    if not members:
        return True
    n = sum(1 for m in members if ref_sat(style, m, U, S))
    if kind == "||":
        return n >= 1
    if kind == "^^":
        return n == 1
    if kind == "??":
        return n <= 1
    raise AssertionError(kind)


def ref_sat_seq(style, seq, U, S):
    return all(ref_sat(style, t, U, S) for t in seq)


def tree_flags(t, acc):
    if isinstance(t, str):
        return acc
    if _is_cond(t):
        acc.add(t[0].strip("!?"))
    for c in t[1]:
        tree_flags(c, acc)
    return acc


def tree_vars(style, t, acc):
    if isinstance(t, str):
        acc.add(t[1:] if base(style) == "requse" and t[0] == "!" else t)
        return acc
    for c in t[1]:
        tree_vars(style, c, acc)
    return acc


def eval_class(seq, U):
    """What the flag set does to the tree (outcome class, measured on the reference tree)."""
    st = {"cond": False, "off": False, "emptied": False}

    def walk(t):
        if isinstance(t, str):
            return
        if _is_cond(t):
            st["cond"] = True
            if not _cond_enabled(t[0], U):
                st["off"] = True
                return
        elif t[0] in CHOICE and all(ref_empty(c, U) for c in t[1]):
            st["emptied"] = True
        for c in t[1]:
            walk(c)

    for t in seq:
        walk(t)
    if not st["cond"]:
        return "no-cond"
    if st["emptied"]:
        return "choice-emptied"
    if st["off"]:
        return "cond-dropped"
    return "all-enabled"


# ---------------------------------------------------------------- independent token scanner / parser


def scan(style, s):
    """Verdict for an arbitrary token string: 'unbalanced' / 'dangling' (must be rejected), 'valid' (must parse),
    'silent:<why>' (statement silent, not judged)."""
    toks = s.split()
    ops = STYLES[style]["ops"]
    if style == "srcuri":
        special = lambda t: t in ("(", ")", "->") or t in ALL_OPS or t[-1] == "?"
        for i, t in enumerate(toks):
            if t == "->":
                if i == 0 or i + 1 >= len(toks) or special(toks[i - 1]) or special(toks[i + 1]):
                    return "silent:arrow"
                if i >= 2 and toks[i - 2] == "->":
                    return "silent:arrow"
    depth = 0
    unbalanced = False
    dangling = False
    silent = None
    for i, t in enumerate(toks):
        if t == "(":
            depth += 1
            prev = toks[i - 1] if i else ""
            headed = prev in ALL_OPS or (prev[-1:] == "?" and prev not in ALL_OPS)
            if not headed and "()" not in ops:
                silent = "silent:unsupported"
            if i + 1 < len(toks) and toks[i + 1] == ")":
                silent = silent or "silent:empty-group"
        elif t == ")":
            depth -= 1
            if depth < 0:
                unbalanced = True
                depth = 0
        elif t in ALL_OPS or t[-1] == "?":
            if i + 1 >= len(toks) or toks[i + 1] != "(":
                dangling = True
            if t in ALL_OPS and t not in ops:
                silent = silent or "silent:unsupported"
        elif "|" in t:
            silent = silent or "silent:unsupported"
    if depth != 0:
        unbalanced = True
    if unbalanced:
        return "unbalanced"
    if dangling:
        return "dangling"
    return silent or "valid"


def ref_parse(style, s):
    """Token string with verdict 'valid' -> sequence of trees."""
    toks = s.split()
    pos = [0]

    def seq(closing):
        items = []
        while pos[0] < len(toks):
            t = toks[pos[0]]
            if t == ")":
                assert closing
                return items
            if t == "(":
                pos[0] += 1
                ch = seq(True)
                assert toks[pos[0]] == ")" and ch
                pos[0] += 1
                items.append(("()", tuple(ch)))
            elif t in ALL_OPS or t[-1] == "?":
                assert toks[pos[0] + 1] == "("
                pos[0] += 2
                ch = seq(True)
                assert toks[pos[0]] == ")" and ch
                pos[0] += 1
                items.append((t, tuple(ch)))
            else:
                if style == "srcuri" and pos[0] + 1 < len(toks) and toks[pos[0] + 1] == "->":
                    items.append(f"{t} -> {toks[pos[0] + 2]}")
                    pos[0] += 3
                else:
                    items.append(t)
                    pos[0] += 1
        assert not closing
        return items

    return tuple(seq(False))


# ---------------------------------------------------------------- driving the real code


class Uri:
    """Harness-side SRC_URI element: uri with optional rename; str() is the SRC_URI spelling."""

    __slots__ = ("uri", "name")

    def __init__(self, uri, name=None):
        self.uri, self.name = uri, name

    def __str__(self):
        return self.uri if self.name is None else f"{self.uri} -> {self.name}"

    def __eq__(self, other):
        return isinstance(other, Uri) and (self.uri, self.name) == (other.uri, other.name)

    def __hash__(self):
        return hash((self.uri, self.name))


def _mk_ru(data):
    from pkgcore.restrictions import values

    if data[0] == "!":
        return values.ContainmentMatch(data[1:], negate=True)
    return values.ContainmentMatch(data)


def real_parse(style, s):
    from pkgcore.ebuild.atom import atom
    from pkgcore.ebuild.conditionals import DepSet
    from pkgcore.restrictions import boolean, values

    style = base(style)
    if style == "dep":
        return DepSet.parse(s, atom, attr="DEPEND")
    if style == "license":
        return DepSet.parse(s, str, operators={"||": boolean.OrRestriction, "": boolean.AndRestriction}, attr="LICENSE")
    if style == "restrict":
        return DepSet.parse(s, str, operators={}, attr="RESTRICT")
    if style == "srcuri":
        return DepSet.parse(s, Uri, operators={}, element_func=Uri, attr="SRC_URI", allow_src_uri_file_renames=True)
    if style == "requse":
        ops = {
            "||": boolean.OrRestriction,
            "": boolean.AndRestriction,
            "^^": boolean.JustOneRestriction,
            "??": boolean.AtMostOneOfRestriction,
        }
        return DepSet.parse(s, values.ContainmentMatch, operators=ops, element_func=_mk_ru, attr="REQUIRED_USE")
    raise AssertionError(style)


def dump(node):
    """Own structural dump of a pkgcore structure: leaf -> str, group -> (kind, (children...))."""
    from pkgcore.ebuild.atom import atom
    from pkgcore.ebuild.conditionals import DepSet
    from pkgcore.restrictions import boolean, packages, values

    if isinstance(node, DepSet):
        return tuple(dump(x) for x in node.restrictions)
    if isinstance(node, (str, Uri, atom)):
        return str(node)
    if isinstance(node, values.ContainmentMatch):
        (v,) = node.vals
        return ("!" if node.negate else "") + v
    if isinstance(node, packages.Conditional):
        (v,) = node.restriction.vals
        return (("!" if node.restriction.negate else "") + v + "?", tuple(dump(x) for x in node.payload))
    for cls, kind in (
        (boolean.OrRestriction, "||"),
        (boolean.AndRestriction, "()"),
        (boolean.JustOneRestriction, "^^"),
        (boolean.AtMostOneOfRestriction, "??"),
    ):
        if isinstance(node, cls):
            if node.negate:
                return ("negated-" + kind, tuple(dump(x) for x in node.restrictions))
            return (kind, tuple(dump(x) for x in node.restrictions))
    return ("unknown-node:" + type(node).__name__, ())


def has_cond(dumped):
    if isinstance(dumped, str):
        return False
    kind, ch = dumped
    if kind[-1] == "?" and kind not in ALL_OPS:
        return True
    return any(has_cond(c) for c in ch)


def struct_sat(style, dumped, S):
    """Satisfaction of a conditional-free pkgcore structure (semantics pkgcore gives its own node classes;
    an any-of node with no children matches nothing)."""
    if isinstance(dumped, str):
        return leaf_true(style, dumped, S)
    kind, ch = dumped
    n = sum(1 for c in ch if struct_sat(style, c, S))
    if kind == "()":
        return n == len(ch)
    if kind == "||":
        return n >= 1
    if kind == "^^":
        return n == 1 or not ch
    if kind == "??":
        return n <= 1
    raise ValueError(f"unexpected node {kind!r} in evaluated structure")


def subsets(items):
    items = sorted(items)
    for r in range(len(items) + 1):
        for c in itertools.combinations(items, r):
            yield c


def check_roundtrip(style, s, d):
    """d = real_parse(style, s) succeeded. Returns messages."""
    msgs = []
    s2 = str(d)
    try:
        d2 = real_parse(style, s2)
    except Exception as e:
        return [f"{style}: {s!r} parses, renders to {s2!r} which does not parse ({type(e).__name__})"]
    if dump(d2) != dump(d):
        msgs.append(f"{style}: {s!r} renders to {s2!r} which parses to a different structure {dump(d2)!r} != {dump(d)!r}")
    elif not (d2 == d):
        msgs.append(f"{style}: {s!r} -> {s2!r}: re-parsed DepSet compares unequal")
    if not msgs and str(d2) != s2:
        msgs.append(f"{style}: str not idempotent: {s2!r} -> {str(d2)!r}")
    return msgs


def truth_table(style, de, leafvars):
    return "".join("1" if all(struct_sat(style, x, S) for x in de) else "0" for S in subsets(leafvars))


def check_valid(style, s, seq, classes=None, only=None):
    """Grammar-generated string s with reference tree seq. Returns a list of (aspect, U, extra, msg); aspects are
    'parse', 'roundtrip' and 'sem' (one entry per failing flag set U). ``only`` = (aspect, U) restricts the work."""
    out = []
    try:
        d = real_parse(style, s)
    except Exception as e:
        return [("parse", None, {}, f"{style}: valid string {s!r} rejected ({type(e).__name__}: {e})")]
    if only is None or only[0] == "roundtrip":
        for m in check_roundtrip(style, s, d):
            out.append(("roundtrip", None, {}, m))
        if only is not None:
            return out
    elif only[0] == "parse":
        return out
    flags = set()
    leafvars = set()
    for t in seq:
        tree_flags(t, flags)
        tree_vars(style, t, leafvars)
    first = {}
    for U in subsets(flags):
        if only is not None and only[0] == "inspect":
            first[tuple(U)] = dump(d.evaluate_depset(U))
            continue
        if only is not None and list(U) != list(only[1]):
            continue
        e = d.evaluate_depset(U)
        de = dump(e)
        first[tuple(U)] = de
        if any(has_cond(x) for x in de):
            out.append(("sem", U, {}, f"{style}: evaluate_depset({list(U)}) of {s!r} still has a conditional: {str(e)!r}"))
            continue
        arguable = False
        try:
            exp = ["1" if ref_sat_seq(style, seq, U, S) else "0" for S in subsets(leafvars)]
        except Arguable:
            arguable = True
        if classes is not None:
            k = f"{style}:{'arguable' if arguable else eval_class(seq, U)}"
            classes[k] = classes.get(k, 0) + 1
        if arguable:
            continue
        exp = "".join(exp)
        try:
            got = truth_table(style, de, leafvars)
        except ValueError as ex:
            out.append(("sem", U, {}, f"{style}: evaluate_depset({list(U)}) of {s!r}: {ex}"))
            continue
        if classes is not None:
            classes["sat"] = classes.get("sat", 0) + exp.count("1")
            classes["unsat"] = classes.get("unsat", 0) + exp.count("0")
        if got != exp:
            i = next(i for i in range(len(exp)) if exp[i] != got[i])
            S = list(subsets(leafvars))[i]
            out.append(
                (
                    "sem",
                    U,
                    {"got": got},
                    f"{style}: {s!r} under USE={list(U)} with true leaves {list(S)}: original is "
                    f"{'satisfied' if exp[i] == '1' else 'not satisfied'}, evaluate_depset gives {str(e)!r} which is "
                    f"{'satisfied' if got[i] == '1' else 'not satisfied'} (truth tables over leaf subsets: expected {exp} got {got})",
                )
            )
    # history variant (differential oracle): reading the inspection attributes of a freshly parsed, equal
    # structure before evaluating must not change what evaluation yields
    if only is None or only[0] == "inspect":
        d2 = real_parse(style, s)
        try:
            d2.node_conds, d2.known_conditionals, d2.has_conditionals
        except Exception as ex:
            return out + [("inspect", None, {}, f"{style}: inspecting conditionals of {s!r} raised {type(ex).__name__}: {ex}")]
        for U in subsets(flags):
            if only is not None and list(U) != list(only[1]):
                continue
            if tuple(U) not in first:
                continue
            e2 = d2.evaluate_depset(U)
            if dump(e2) != first[tuple(U)]:
                if classes is not None:
                    classes["inspect-changed-evaluation"] = classes.get("inspect-changed-evaluation", 0) + 1
                out.append(
                    (
                        "inspect",
                        U,
                        {},
                        f"{style}: {s!r} under USE={list(U)}: after reading node_conds/known_conditionals evaluate_depset "
                        f"gives {str(e2)!r}, without it {str(d.evaluate_depset(U))!r}",
                    )
                )
            elif classes is not None:
                classes["inspect-same"] = classes.get("inspect-same", 0) + 1
    return out


def check_corrupt(style, s, classes=None):
    verdict = scan(style, s)
    try:
        d = real_parse(style, s)
    except Exception as e:
        d = None
        exc = type(e).__name__
    if classes is not None:
        k = f"corrupt:{verdict}:{'parsed' if d is not None else 'rejected'}"
        classes[k] = classes.get(k, 0) + 1
    if d is None:
        if verdict == "valid":
            return [f"{style}: valid string {s!r} rejected ({exc})"]
        return []
    if verdict in ("unbalanced", "dangling"):
        return [f"{style}: {verdict} string {s!r} accepted as {str(d)!r}"]
    return check_roundtrip(style, s, d)


def corruptions(style, s):
    toks = s.split()
    ins = ["(", ")", "||", "x?"]
    if base(style) == "requse":
        ins.append("^^")
    if style == "srcuri":
        ins.append("->")
    seen = set()
    for i in range(len(toks)):
        c = " ".join(toks[:i] + toks[i + 1 :])
        if c not in seen:
            seen.add(c)
            yield c
    for i in range(len(toks) + 1):
        for t in ins:
            c = " ".join(toks[:i] + [t] + toks[i:])
            if c not in seen:
                seen.add(c)
                yield c


# ---------------------------------------------------------------- partition

CORRUPT_SIZES = {
    "quick": {"dep": 4, "license": 4, "restrict": 4, "srcuri": 4, "requse": 4, "dep2": 0, "requse2": 0},
    "thorough": {"dep": 5, "license": 5, "restrict": 6, "srcuri": 6, "requse": 5, "dep2": 0, "requse2": 0},
}


def _seq_count(style, tier, comp):
    n = 1
    for s in comp:
        n *= len(trees(style, tier, s, MAXDEPTH))
    return n


def tasks(tier):
    out = []
    target = 1200 if tier == "quick" else 4000
    for style, nmax in SIZES[tier].items():
        out.append((tier, style, (), 0, 0))  # the empty string
        for n in range(1, nmax + 1):
            for comp in compositions(n, 3):
                first = len(trees(style, tier, comp[0], MAXDEPTH))
                total = _seq_count(style, tier, comp)
                if total == 0:
                    continue
                rest = total // first
                tgt = target if n > CORRUPT_SIZES[tier][style] else max(1, target // 8)
                step = max(1, tgt // max(1, rest))
                for lo in range(0, first, step):
                    out.append((tier, style, comp, lo, min(first, lo + step)))
    trees.cache_clear()
    return out


def _case(style, s, aspect, U, extra, msg):
    c = {"kind": "valid", "style": style, "s": s, "aspect": aspect, "msg": msg}
    if U is not None:
        c["U"] = list(U)
    c.update(extra)
    return c


def work(task):
    tier, style, comp, lo, hi = task
    evals = 0
    classes = {}
    viol = []
    samples = []
    if not comp:
        seqs = [()]
    else:
        pools = [trees(style, tier, comp[0], MAXDEPTH)[lo:hi]] + [trees(style, tier, s, MAXDEPTH) for s in comp[1:]]
        seqs = itertools.product(*pools)
    corrupt = sum(comp) <= CORRUPT_SIZES[tier][style]
    for seq in seqs:
        s = render_seq(seq)
        evals += 1
        for aspect, U, extra, msg in check_valid(style, s, seq, classes):
            viol.append(_case(style, s, aspect, U, extra, msg))
        if len(samples) < 2:
            samples.append([style, s])
        if not corrupt:
            continue
        for c in corruptions(style, s):
            evals += 1
            msgs = check_corrupt(style, c, classes)
            if msgs:
                viol.append({"kind": "corrupt", "style": style, "s": c, "msg": msgs[0]})
    return {"evals": evals, "classes": classes, "viol": viol, "samples": samples}


def replay(case):
    if case["kind"] == "valid":
        assert scan(case["style"], case["s"]) == "valid"
        seq = ref_parse(case["style"], case["s"])
        assert render_seq(seq) == " ".join(case["s"].split())
        res = check_valid(case["style"], case["s"], seq, only=(case["aspect"], case.get("U", [])))
        return [m for a, U, extra, m in res if a == case["aspect"]]
    return check_corrupt(case["style"], case["s"])


# ---------------------------------------------------------------- classifiers for known findings


def _stringify_choice_ops(case):
    """stringify_boolean has no rendering for ^^ / ?? nodes: a REQUIRED_USE string that keeps such a group after
    parsing does not round-trip. Narrow: REQUIRED_USE style, the failing aspect is the round trip, and the string
    has a ?? group, or a ^^ group with at least two children (a one-child ^^ group is the child itself)."""
    if case.get("style") not in ("requse", "requse2"):
        return False
    if case.get("kind") == "valid":
        if case.get("aspect") != "roundtrip":
            return False
    elif "renders to" not in case.get("msg", ""):  # a corrupted string that is itself valid and parsed
        return False
    if "exactly-one-of (" not in case.get("msg", "") and "at-most-one-of (" not in case.get("msg", ""):
        return False  # the rendering must show the defect's spelling
    if scan("requse", case["s"]) != "valid":
        return False

    def has(t):
        if isinstance(t, str):
            return False
        if t[0] == "^^" and len(t[1]) >= 2 or t[0] == "??":
            return True
        return any(has(c) for c in t[1])

    return any(has(t) for t in ref_parse("requse", case["s"]))


def _defect_sat_amo(t, U, S):
    """Reference semantics with exactly this defect injected: a ?? group with one member is that member."""
    if isinstance(t, str):
        return leaf_true("requse", t, S)
    kind, ch = t
    if _is_cond(t):
        return (not _cond_enabled(kind, U)) or all(_defect_sat_amo(c, U, S) for c in ch)
    if kind == "()":
        return all(_defect_sat_amo(c, U, S) for c in ch)
    members = [c for c in ch if not (_is_cond(c) and not _cond_enabled(c[0], U))]
    if not members:
        return True
    n = sum(1 for m in members if _defect_sat_amo(m, U, S))
    if kind == "||":
        return n >= 1
    if kind == "^^":
        return n == 1
    return n == 1 if len(members) == 1 else n <= 1


def _amo_single(case):
    """A ?? (at-most-one-of) group left with exactly one member (written with one child, or after disabled
    conditionals are dropped) is replaced by that member, i.e. the member becomes required. Narrow: REQUIRED_USE
    style, semantic aspect, and the whole observed truth table equals the reference semantics with exactly this
    substitution made (so any other deviation on the same string still alarms)."""
    if case.get("style") not in ("requse", "requse2") or case.get("kind") != "valid" or case.get("aspect") != "sem" or "got" not in case:
        return False
    if scan("requse", case["s"]) != "valid":
        return False
    seq = ref_parse("requse", case["s"])
    U = tuple(case.get("U", []))
    leafvars = set()
    for t in seq:
        tree_vars("requse", t, leafvars)
    try:
        ref = "".join("1" if ref_sat_seq("requse", seq, U, S) else "0" for S in subsets(leafvars))
    except Arguable:
        return False
    model = "".join("1" if all(_defect_sat_amo(t, U, S) for t in seq) else "0" for S in subsets(leafvars))
    return model == case["got"] and model != ref


CLASSIFIERS = {
    "stringify-exactly-one-at-most-one": _stringify_choice_ops,
    "at-most-one-of-single-member-collapsed": _amo_single,
}
