"""C10 REQUIRED_USE solving is sound, complete and preference-first.

Every REQUIRED_USE tree of a small grammar is rendered, parsed the way ``ebuild_src.required_use`` parses it and
handed to the real ``find_constraint_satisfaction`` for every configuration of the flags (each flag: outside IUSE /
free / forced on / forced off / preferred on).  The reference is a brute-force sweep over all assignments with a plain
PMS 8.2 evaluator of the generated tree; the solver's output must be exactly that set, without repeats, and start
with the preferred assignment whenever that one satisfies the constraint.
"""

import itertools

PROPERTY = "C10"
LEVEL = "exploration"
ENGINE = "enum"
TECHNIQUE = "bounded exhaustive enumeration of constraints x flag configurations against brute-force satisfying sets"
RULE = (
    "all REQUIRED_USE trees with <= N nodes (leaves f / !f for every flag; groups ||, ^^, ??, ( ), f? ( ), !f? ( ); "
    "nesting <= 2, <= 3 children, <= 2 top-level clauses, plus the empty constraint) x all 5^k configurations of the k "
    "flags (not in IUSE / free / force_true / force_false / prefer_true): list(find_constraint_satisfaction(...)) is "
    "compared with the brute-force satisfying set (flags outside IUSE and forced-off flags off, forced-on flags on): "
    "every produced assignment in the set, every member produced, none twice, preferred assignment first when it "
    "satisfies. A class is (shape of the constraint, number of solutions bucket, whether the preferred assignment "
    "satisfies); distinct_nontrivial counts classes observed."
)
ASSUMPTIONS = [
    "force_true, force_false, prefer_true are pairwise disjoint subsets of IUSE (a forced-on flag outside IUSE is contradictory and not generated)",
    "Excl: constraints in which, under some assignment, an all-of group / enabled conditional becomes empty while being a member of a choice group, or a choice group is emptied inside another choice group (PMS leaves the reading open) -- class 'arguable', not judged",
    "an assignment is identified by its set of enabled flags; a flag missing from a produced dict counts as off",
    "satisfaction is PMS 8.2: a disabled conditional that is an immediate child of ||, ^^ or ?? is not a member of the group; an emptied ||/^^ group is satisfied",
]
BOUNDS = {
    "quick": "3 flags: all constraints with <= 3 nodes (1783) x all 125 configurations; all constraints with 4 nodes (28080) x 7 configurations",
    "thorough": "3 flags: <= 4 nodes (~29.9k) x 125; 4 flags: <= 3 nodes x 625; 5 flags: <= 2 nodes x 3125",
}

ALL_OPS = ("||", "^^", "??")
MAXKIDS = 3
MAXDEPTH = 2
MAXTOP = 2
# (flags, smallest node count (0 = include the empty constraint), largest node count, configuration list)
PLAN = {
    "quick": (("abc", 0, 3, "all"), ("abc", 4, 4, "few")),
    "thorough": (("abc", 0, 4, "all"), ("abcd", 0, 3, "all"), ("abcde", 0, 2, "all")),
}
# reduced configuration list for the largest quick constraints: every state occurs in every position
FEW = ("fff", "pTF", "FpT", "TFp", "-ff", "f-p", "ff-")
STATES = "-fTFp"  # not in IUSE, free, force_true, force_false, prefer_true


def compositions(n, maxparts):
    out = []
    for k in range(1, maxparts + 1):
        if k > n:
            break
        for cuts in itertools.combinations(range(1, n), k - 1):
            parts, prev = [], 0
            for c in cuts:
                parts.append(c - prev)
                prev = c
            parts.append(n - prev)
            out.append(tuple(parts))
    return out


_tree_memo = {}


def trees(flags, n, d):
    key = (flags, n, d)
    if key in _tree_memo:
        return _tree_memo[key]
    if n == 1:
        out = tuple(x for f in flags for x in (f, "!" + f))
    elif d == 0:
        out = ()
    else:
        kinds = ("||", "^^", "??", "()") + tuple(x for f in flags for x in (f + "?", "!" + f + "?"))
        acc = []
        for kind in kinds:
            for comp in compositions(n - 1, MAXKIDS):
                for combo in itertools.product(*[trees(flags, s, d - 1) for s in comp]):
                    acc.append((kind, combo))
        out = tuple(acc)
    _tree_memo[key] = out
    return out


def constraints(flags, nmin, nmax):
    """Simplest first: the empty constraint, then by node count."""
    if nmin == 0:
        yield ()
    for n in range(max(1, nmin), nmax + 1):
        for comp in compositions(n, MAXTOP):
            yield from itertools.product(*[trees(flags, s, MAXDEPTH) for s in comp])


def render(t):
    if isinstance(t, str):
        return t
    kind, ch = t
    inner = " ".join(render(c) for c in ch)
    return ("( " if kind == "()" else kind + " ( ") + inner + " )"


def render_seq(seq):
    return " ".join(render(t) for t in seq)


def ref_parse(s):
    toks = s.split()
    pos = [0]

    def seq(closing):
        items = []
        while pos[0] < len(toks):
            t = toks[pos[0]]
            if t == ")":
                assert closing
                return items
            if t == "(":
                pos[0] += 1
                ch = seq(True)
                pos[0] += 1
                items.append(("()", tuple(ch)))
            elif t in ALL_OPS or t[-1] == "?":
                assert toks[pos[0] + 1] == "("
                pos[0] += 2
                ch = seq(True)
                pos[0] += 1
                items.append((t, tuple(ch)))
            else:
                items.append(t)
                pos[0] += 1
        assert not closing
        return items

    return tuple(seq(False))


# ---------------------------------------------------------------- reference semantics (PMS 8.2)


class Arguable(Exception):
    pass


def _is_cond(t):
    return not isinstance(t, str) and t[0][-1] == "?" and t[0] not in ALL_OPS


def _enabled(kind, on):
    if kind[0] == "!":
        return kind[1:-1] not in on
    return kind[:-1] in on


def _empty(t, on):
    if isinstance(t, str):
        return False
    if _is_cond(t) and not _enabled(t[0], on):
        return True
    return all(_empty(c, on) for c in t[1])


def sat(t, on, amo_defect=False, vac_defect=False):
    """PMS satisfaction of tree t by the set of enabled flags. The two *_defect switches inject the two known
    pkgcore deviations (used only by the classifiers)."""
    if isinstance(t, str):
        return (t[1:] not in on) if t[0] == "!" else (t in on)
    kind, ch = t
    if _is_cond(t):
        return (not _enabled(kind, on)) or all(sat(c, on, amo_defect, vac_defect) for c in ch)
    if kind == "()":
        return all(sat(c, on, amo_defect, vac_defect) for c in ch)
    if vac_defect:
        members = list(ch)  # a disabled conditional stays a member and counts as true
    else:
        members = [c for c in ch if not (_is_cond(c) and not _enabled(c[0], on))]
        for m in members:
            if _empty(m, on):
                raise Arguable()
    if not members:
        return True
    n = sum(1 for m in members if sat(m, on, amo_defect, vac_defect))
    if kind == "||":
        return n >= 1
    if kind == "^^":
        return n == 1
    if amo_defect and len(ch) == 1:
        return n == 1  # '?? ( x )' parsed as 'x'
    return n <= 1


def flags_of(t, acc):
    if isinstance(t, str):
        acc.add(t.lstrip("!"))
        return acc
    if _is_cond(t):
        acc.add(t[0].strip("!?"))
    for c in t[1]:
        flags_of(c, acc)
    return acc


def sat_table(seq, universe, **kw):
    """frozenset of enabled-flag strings (sorted, joined) over the universe that satisfy every clause."""
    out = set()
    for r in range(len(universe) + 1):
        for on in itertools.combinations(universe, r):
            s = frozenset(on)
            if all(sat(t, s, **kw) for t in seq):
                out.add("".join(on))
    return out


def shape(seq):
    """Outcome-class label of a constraint: which group kinds occur, and whether a conditional sits in a choice group."""
    st = set()

    def walk(t, parent):
        if isinstance(t, str):
            if t[0] == "!":
                st.add("neg")
            return
        if _is_cond(t):
            st.add("cond-in-choice" if parent in ALL_OPS else "cond")
        else:
            st.add(t[0])
        for c in t[1]:
            walk(c, t[0])

    for t in seq:
        walk(t, "")
    order = ["||", "^^", "??", "()", "cond", "cond-in-choice"]
    return "+".join(x for x in order if x in st) or ("neg-leaf" if "neg" in st else "leaf" if seq else "empty")


# ---------------------------------------------------------------- the real code


def _mk(data):
    from pkgcore.restrictions import values

    if data[0] == "!":
        return values.ContainmentMatch(data[1:], negate=True)
    return values.ContainmentMatch(data)


def real_parse(s):
    from pkgcore.ebuild.conditionals import DepSet
    from pkgcore.restrictions import boolean, values

    ops = {
        "||": boolean.OrRestriction,
        "": boolean.AndRestriction,
        "^^": boolean.JustOneRestriction,
        "??": boolean.AtMostOneOfRestriction,
    }
    return DepSet.parse(s, values.ContainmentMatch, operators=ops, element_func=_mk, attr="REQUIRED_USE")


def split_cfg(flags, cfg):
    iuse = {f for f, c in zip(flags, cfg) if c != "-"}
    ft = {f for f, c in zip(flags, cfg) if c == "T"}
    ff = {f for f, c in zip(flags, cfg) if c == "F"}
    pt = {f for f, c in zip(flags, cfg) if c == "p"}
    return iuse, ft, ff, pt


def solve(d, flags, cfg):
    from pkgcore.restrictions.required_use import find_constraint_satisfaction

    iuse, ft, ff, pt = split_cfg(flags, cfg)
    out = []
    for sol in find_constraint_satisfaction(d, set(iuse), force_true=set(ft), force_false=set(ff), prefer_true=set(pt)):
        out.append("".join(sorted(k for k, v in sol.items() if v)))
    return out


def expected(table, flags, cfg):
    """Members of the satisfying table compatible with the configuration, and the preferred assignment."""
    iuse, ft, ff, pt = split_cfg(flags, cfg)
    allowed = {on for on in table if set(on) <= iuse - ff and ft <= set(on)}
    return allowed, "".join(sorted(ft | pt))


def judge(s, flags, cfg, got, table):
    allowed, preferred = expected(table, flags, cfg)
    msgs = []
    head = f"REQUIRED_USE={s!r} flags={flags} cfg={cfg} (IUSE/force_true/force_false/prefer_true={[''.join(sorted(x)) for x in split_cfg(flags, cfg)]})"
    bad = [g for g in got if g not in allowed]
    if bad:
        msgs.append(f"{head}: produced assignment with enabled={bad[0]!r} does not satisfy the constraint / forcing")
    missing = sorted(allowed - set(got))
    if missing:
        msgs.append(f"{head}: satisfying assignment enabled={missing[0]!r} never produced (produced {got})")
    if len(set(got)) != len(got):
        dup = next(g for i, g in enumerate(got) if g in got[:i])
        msgs.append(f"{head}: assignment enabled={dup!r} produced more than once")
    if preferred in allowed and (not got or got[0] != preferred):
        msgs.append(f"{head}: preferred assignment enabled={preferred!r} satisfies but the first produced is {got[:1]}")
    return msgs


def cfg_list(k, mode):
    if mode == "few":
        assert k == 3
        return list(FEW)
    return ["".join(c) for c in itertools.product(STATES, repeat=k)]


def check_case(s, flags, cfg):
    seq = ref_parse(s)
    try:
        table = sat_table(seq, flags)
    except Arguable:
        return [], None
    d = real_parse(s)
    got = solve(d, flags, cfg)
    return judge(s, flags, cfg, got, table), got


# ---------------------------------------------------------------- partition


def tasks(tier):
    out = []
    for flags, nmin, nmax, mode in PLAN[tier]:
        total = sum(1 for _ in constraints(flags, nmin, nmax))
        ncfg = len(cfg_list(len(flags), mode))
        per = max(1, (2500 if tier == "quick" else 40000) // ncfg)
        for lo in range(0, total, per):
            out.append((flags, nmin, nmax, mode, lo, min(total, lo + per)))
    _tree_memo.clear()
    return out


def work(task):
    flags, nmin, nmax, mode, lo, hi = task
    evals = 0
    classes = {}
    viol = []
    samples = []
    cfgs = cfg_list(len(flags), mode)
    for seq in itertools.islice(constraints(flags, nmin, nmax), lo, hi):
        s = render_seq(seq)
        try:
            table = sat_table(seq, flags)
        except Arguable:
            classes["arguable"] = classes.get("arguable", 0) + 1
            continue
        d = real_parse(s)
        sh = shape(seq)
        if len(samples) < 2:
            samples.append([s, flags])
        for cfg in cfgs:
            evals += 1
            got = solve(d, flags, cfg)
            allowed, preferred = expected(table, flags, cfg)
            nsol = len(allowed)
            bucket = "0" if nsol == 0 else "1" if nsol == 1 else "n"
            for k in (f"{sh} nsol={bucket}", f"{'pref-sat' if preferred in allowed else 'pref-unsat'} nsol={bucket}"):
                classes[k] = classes.get(k, 0) + 1
            ok = len(got) == len(allowed) and set(got) == allowed and (preferred not in allowed or got[0] == preferred)
            if not ok:
                msgs = judge(s, flags, cfg, got, table)
                viol.append({"s": s, "flags": flags, "cfg": cfg, "got": got, "msg": msgs[0]})
    # too many shapes x buckets would exceed the class budget: fold rare combined shapes
    return {"evals": evals, "classes": _fold(classes), "viol": viol, "samples": samples}


def _fold(classes):
    out = {}
    for k, v in classes.items():
        parts = k.rsplit(" ", 1)
        if parts[0].count("+") >= 1:
            parts[0] = ("cond-in-choice+" if "cond-in-choice" in parts[0] else "") + "mixed"
        kk = " ".join(parts)
        out[kk] = out.get(kk, 0) + v
    return out


def replay(case):
    msgs, got = check_case(case["s"], case["flags"], case["cfg"])
    return msgs


# ---------------------------------------------------------------- classifiers for known findings


def _explained(case, amo, vac):
    """The produced set equals the brute-force set of the reference semantics with exactly the given deviation(s)
    injected, that differs from the true one, and order/duplicate demands hold w.r.t. the deviated set."""
    try:
        seq = ref_parse(case["s"])
        flags, cfg, got = case["flags"], case["cfg"], list(case["got"])
        true_table = sat_table(seq, flags)
        table = sat_table(seq, flags, amo_defect=amo, vac_defect=vac)
    except (Arguable, AssertionError, KeyError, IndexError):
        return False
    if not judge(case["s"], flags, cfg, got, true_table):
        return False
    if judge(case["s"], flags, cfg, got, table):
        return False
    # each injected deviation must be needed
    for a, v in ((False, vac), (amo, False)):
        if (a, v) != (amo, vac) and not judge(case["s"], flags, cfg, got, sat_table(seq, flags, amo_defect=a, vac_defect=v)):
            return False
    return True


CLASSIFIERS = {
    "at-most-one-of-single-child-required": lambda case: _explained(case, True, False),
    "disabled-conditional-counts-as-true-member": lambda case: _explained(case, False, True),
    "at-most-one-single-child-and-disabled-conditional-member": lambda case: _explained(case, True, True),
}
