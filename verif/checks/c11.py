"""C11 stacked USE configuration applies entries in order, including -* / -PREFIX_* resets.

Two task kinds:
  * "bfs": explicit-state search over operation histories of a real ``ChunkedDataDict``
    (add_bare_global / add / update_from_stream / merge / freeze / clone / optimize),
    every reached state probed with ``pull_data`` for matching and non-matching packages and
    compared with the A6 fold of the logical entry history;
  * "dom": small on-disk profile + user ``package.use`` configurations driven through a real
    ``domain`` and read back with ``domain.get_package_use_unconfigured``.
"""

import itertools
import hashlib
import json
import os
import shutil
import tempfile

from verif.engines import bfs

PROPERTY = "C11"
LEVEL = "model_checking"
ENGINE = "bfs"
TECHNIQUE = "explicit-state BFS over operation histories of the real ChunkedDataDict / domain, A6 fold as reference"
RULE = (
    "every operation history up to the depth bound over the event alphabet (global / a/p / =a/p-1 / a/* entries with "
    "+f, -f, -*, -foo_*, '-* y'; add_bare_global, add, update_from_stream, merge of a frozen dict built from a sub-history, "
    "freeze, clone(unfreeze), clone(), optimize() with and without a shared cache) is replayed on a fresh real "
    "ChunkedDataDict; in every state pull_data(pkg, pre_defaults) for 4 packages x 3 pre_defaults sets (and for every "
    "original a clone was taken from) must equal the in-order fold of the applicable logical entries. States are "
    "de-duplicated on the exact internal state (_global_settings, _dict lists, container types, default factory binding, "
    "frozen flag) plus the expected probe vector. Second kind: generated package.use / make.defaults / profile package.use "
    "files through a real domain. A class is (deciding feature of the history: wildcard kind present, keyed kinds present, "
    "ops used, result); distinct_nontrivial counts classes observed."
)
ASSUMPTIONS = [
    "Excl: a single entry that both adds and removes the same flag",
    "Excl: '-*' / '-foo_*' anywhere but first in an API-level entry (an entry is a (neg,pos) pair: clear, then remove neg, "
    "then add pos); package.use lines of the dom kind may carry a plain -* mid-line and are read token by token in order",
    "Excl: a package.use line that adds a flag and removes it again (by name or by a group -*) after the line's last plain -*",
    "Excl: continuations after an operation raised (mutating a frozen dict; mutating an unfrozen dict after optimize() "
    "turned its per-key lists into tuples) are pruned and counted in outcome class op-raised:*, not judged",
    "Excl: PayloadDict subclass; render_to_dict / render_to_payload output shapes",
    "flags universe {x, y, z, foo_a}; probe packages a/p-1, a/p-2, a/q-1, b/r-1; pre_defaults {}, {x}, {foo_a,foox,y,z} (foox: a flag that merely starts with the letters of a cleared prefix)",
    "dom kind: package IUSE contains every universe flag, no use.mask/use.force besides the arch flag, USE_EXPAND=FOO",
    "the seen-set stores a 128-bit BLAKE2 digest of the exact state snapshot (memory), not the snapshot itself",
]
BOUNDS = {
    "quick": "bfs: core alphabet (24 events) to depth 4 plus full alphabet (70 events) to depth 3, partitioned by 2-event / 1-event root prefixes; dom: 4 make.defaults variants x (every sequence of <=3 profile/user package.use lines out of 15 + every sequence of <=2 lines out of 20 containing a parser-shape line: plain flag, in-line -*, USE_EXPAND group)",
    "thorough": "bfs: core alphabet to depth 5 plus full alphabet to depth 4; dom: every sequence of <=4 base lines + <=3 lines with a parser-shape line",
}

TIME_CAP = {"quick": 300, "thorough": 2400}

PKGS = ("a/p-1", "a/p-2", "a/q-1", "b/r-1")
PRES = ((), ("x",), ("foo_a", "foox", "y", "z"))

# ---------------------------------------------------------------- reference model (A6)


def m_match(key, cpv):
    if key == "*":
        return True
    if key == "a/p":
        return cpv.startswith("a/p-")
    if key == "=a/p-1":
        return cpv == "a/p-1"
    if key == "a/*":
        return cpv.startswith("a/")
    raise ValueError(key)


def m_apply(s, neg, pos):
    if "*" in neg:
        s = set()
    for n in neg:
        if n.endswith("_*"):
            pre = n[:-1]
            s = {f for f in s if not f.startswith(pre)}
    s = {f for f in s if f not in neg}
    s.update(pos)
    return s


def expected(logical, cpv, pre):
    s = set(pre)
    for key, neg, pos in logical:
        if m_match(key, cpv):
            s = m_apply(s, neg, pos)
    return s


def exp_vector(logical):
    return tuple(tuple(sorted(expected(logical, c, p))) for c in PKGS for p in PRES)


# ---------------------------------------------------------------- alphabet

G_ENTRIES = [
    ["*", [], ["x"]],
    ["*", ["x"], []],
    ["*", ["*"], []],
    ["*", [], ["foo_a"]],
    ["*", ["foo_*"], []],
    ["*", ["*"], ["y"]],
]
P_ENTRIES = [["a/p", [], ["x"]], ["a/p", ["x"], []], ["a/p", ["*"], []], ["a/p", [], ["y"]]]
V_ENTRIES = [["=a/p-1", [], ["x"]], ["=a/p-1", ["x"], []], ["=a/p-1", ["*"], []]]
C_ENTRIES = [["a/*", [], ["x"]], ["a/*", ["x"], []], ["a/*", ["foo_*"], ["z"]]]
STRUCT = [["f"], ["c"], ["k"], ["o"], ["oc"]]


def _add_events(entries):
    out = []
    for k, n, p in entries:
        out.append(["g", n, p] if k == "*" else ["a", k, n, p])
    return out


def alphabet(name):
    core_adds = _add_events(G_ENTRIES + P_ENTRIES + V_ENTRIES)
    if name == "core":
        merges = [
            ["m", [G_ENTRIES[0]]],
            ["m", [G_ENTRIES[2]]],
            ["m", [P_ENTRIES[1]]],
            ["m", [V_ENTRIES[0]]],
            ["m", [G_ENTRIES[0], P_ENTRIES[1]]],
            ["m", [P_ENTRIES[0], G_ENTRIES[5]]],
        ]
        return core_adds + merges + STRUCT
    # full
    allent = G_ENTRIES + P_ENTRIES + V_ENTRIES + C_ENTRIES
    adds = _add_events(allent)
    adds += [["a", "*", ["x"], []]]  # add_global(item) rather than add_bare_global
    red = [G_ENTRIES[0], G_ENTRIES[2], P_ENTRIES[1], V_ENTRIES[0], C_ENTRIES[1]]
    streams = [["u", [a, b]] for a, b in itertools.product([G_ENTRIES[0], G_ENTRIES[2], P_ENTRIES[1], V_ENTRIES[0]], repeat=2) if a != b]
    merges = [["m", [e]] for e in allent] + [["m", [a, b]] for a, b in itertools.product(red, repeat=2) if a != b]
    return adds + streams + merges + STRUCT


def _depths(tier):
    return {"core": 4, "full": 3} if tier == "quick" else {"core": 5, "full": 4}


# ---------------------------------------------------------------- real side

_keys = {}
_pkgs = {}


def _key(k):
    o = _keys.get(k)
    if o is None:
        from pkgcore.ebuild.atom import atom
        from pkgcore.restrictions import packages
        from pkgcore.util.parserestrict import parse_match

        if k == "*":
            o = packages.AlwaysTrue
        elif k == "a/*":
            o = parse_match(k)
        else:
            o = atom(k)
        _keys[k] = o
    return o


def _pkg(cpv):
    o = _pkgs.get(cpv)
    if o is None:
        from pkgcore.test.misc import FakePkg

        o = _pkgs[cpv] = FakePkg(cpv)
    return o


def _chunk(entry):
    from pkgcore.ebuild.misc import chunked_data

    k, n, p = entry
    return chunked_data(_key(k), tuple(n), tuple(p))


class St:
    __slots__ = ("obj", "wit", "logical", "cache", "dead", "canon")


def _keyname(k):
    from pkgcore.restrictions import packages

    if k is packages.AlwaysTrue or k == packages.AlwaysTrue:
        return "*"
    if hasattr(k, "key"):
        return str(k)
    return "a/*"


def _chunks(seq):
    return (type(seq).__name__,) + tuple((_keyname(c.key), tuple(c.neg), tuple(c.pos)) for c in seq)


def snapshot_obj(o):
    d = o._dict
    fac = getattr(d, "default_factory", None)
    facinfo = None
    if fac is not None:
        bound = fac.args[0]
        facinfo = (bound is o._global_settings, _chunks(bound))
    return (
        bool(o.frozen),
        type(d).__name__,
        _chunks(o._global_settings),
        tuple(sorted((k, _chunks(v)) for k, v in d.items())),
        facinfo,
    )


def apply_event(st, ev, prefix):
    from pkgcore.ebuild.misc import ChunkedDataDict

    kind = ev[0]
    o = st.obj
    if kind == "g":
        o.add_bare_global(tuple(ev[1]), tuple(ev[2]))
        st.logical.append(("*", tuple(ev[1]), tuple(ev[2])))
    elif kind == "a":
        o.add(_chunk(ev[1:]))
        st.logical.append((ev[1], tuple(ev[2]), tuple(ev[3])))
    elif kind == "u":
        o.update_from_stream(_chunk(e) for e in ev[1])
        for e in ev[1]:
            st.logical.append((e[0], tuple(e[1]), tuple(e[2])))
    elif kind == "m":
        sub = ChunkedDataDict()
        for e in ev[1]:
            if e[0] == "*":
                sub.add_bare_global(tuple(e[1]), tuple(e[2]))
            else:
                sub.add(_chunk(e))
        sub.freeze()
        o.merge(sub)
        for e in ev[1]:
            st.logical.append((e[0], tuple(e[1]), tuple(e[2])))
    elif kind == "f":
        o.freeze()
    elif kind == "c":
        st.wit.append((o, tuple(st.logical)))
        st.obj = o.clone(unfreeze=True)
    elif kind == "k":
        st.wit.append((o, tuple(st.logical)))
        st.obj = o.clone()
    elif kind == "o":
        o.optimize()
    elif kind == "oc":
        # a twin built by replaying the same prefix is optimized first through the shared cache, so that
        # every sequence of the object under test is then served from the cache
        twin = build(tuple(prefix)).obj
        twin.optimize(cache=st.cache)
        o.optimize(cache=st.cache)
    else:
        raise ValueError(ev)


def build(hist):
    from pkgcore.ebuild.misc import ChunkedDataDict

    st = St()
    st.obj = ChunkedDataDict()
    st.wit = []
    st.logical = []
    st.cache = {}
    st.dead = None
    for i, ev in enumerate(hist):
        try:
            apply_event(st, ev, hist[:i])
        except (TypeError, AttributeError, KeyError) as e:
            st.dead = f"{ev[0]}:{type(e).__name__}"
            break
    if st.dead:
        st.canon = ("dead",)
    else:
        st.canon = (
            snapshot_obj(st.obj),
            exp_vector(st.logical),
            tuple((snapshot_obj(w), exp_vector(l)) for w, l in st.wit),
        )
    return st


def canon(st):
    # the exact snapshot, kept as a 128-bit digest of its repr so that seen-sets of 10^5..10^6 states stay small
    return hashlib.blake2b(repr(st.canon).encode(), digest_size=16).digest()


def probe(obj, logical, which):
    """Compare every probe of one real object with the fold; returns list of case fragments (first failing probe only)."""
    for cpv in PKGS:
        pkg = _pkg(cpv)
        for pre in PRES:
            arg = list(pre)
            try:
                got = obj.pull_data(pkg, pre_defaults=arg)
                got = sorted(got)
            except Exception as e:  # computing the flag set failed
                got = [f"<raised {type(e).__name__}>"]
            if arg != list(pre):
                return [{"which": which, "pkg": cpv, "pre": list(pre), "got": ["<pre_defaults mutated>"], "exp": list(pre)}]
            exp = sorted(expected(logical, cpv, pre))
            if got != exp:
                return [{"which": which, "pkg": cpv, "pre": list(pre), "got": got, "exp": exp}]
    return []


def check_state(st):
    if st.dead:
        return []
    out = probe(st.obj, st.logical, 0)
    for i, (w, l) in enumerate(st.wit):
        if out:
            break
        out = probe(w, l, i + 1)
    return out


def check(st, hist):
    return [json.dumps(f, sort_keys=True) for f in check_state(st)]


def make_enabled(alpha):
    def enabled(st, hist):
        if st.dead:
            return []
        if st.obj.frozen:
            return [e for e in alpha if e[0] in ("f", "c", "k", "o", "oc")]
        return alpha

    return enabled


# ---------------------------------------------------------------- outcome classes


def hist_class(hist, bad):
    """Feature class of a history (measured, for vacuity control)."""
    ents = []
    ops = set()
    for ev in hist:
        ops.add(ev[0])
        if ev[0] == "g":
            ents.append(("*", ev[1], ev[2]))
        elif ev[0] == "a":
            ents.append((ev[1], ev[2], ev[3]))
        elif ev[0] in ("u", "m"):
            ents.extend((e[0], e[1], e[2]) for e in ev[1])
    gw = kw = False
    for k, n, p in ents:
        for f in n:
            if f == "*" or f.endswith("_*"):
                if k == "*":
                    gw = True
                else:
                    kw = True
    w = "GK" if gw and kw else "G" if gw else "K" if kw else "-"
    simple = any(k == "a/p" for k, _, _ in ents)
    cond = any(k in ("=a/p-1", "a/*") for k, _, _ in ents)
    kk = "both" if simple and cond else "simple" if simple else "cond" if cond else "-"
    if ops & {"o", "oc"}:
        s = "optimize"
    elif ops & {"f", "c", "k"}:
        s = "clone/freeze"
    elif ops & {"m", "u"}:
        s = "merge/stream"
    else:
        s = "adds"
    return f"wild={w}|keyed={kk}|{s}|{'BAD' if bad else 'ok'}"


# ---------------------------------------------------------------- domain kind

DOM_FLAGS = ("x", "y", "z", "foo_a", "foo_b")
# make.defaults variants: (USE, FOO)
DOM_MK = [((), ()), (("x",), ()), ((), ("a",)), (("x",), ("a",))]
# layer, text ("pp" = profile package.use, "pu" = user package.use, one file per line, read in name order)
DOM_LINES = [
    ("pp", "a/p -x"),
    ("pp", "=a/p-1 y"),
    ("pp", "a/p -* z"),
    ("pu", "*/* x"),
    ("pu", "*/* -x"),
    ("pu", "*/* -* y"),
    ("pu", "*/* FOO: -* b"),
    ("pu", "*/* FOO: a"),
    ("pu", "a/p -x"),
    ("pu", "a/p y"),
    ("pu", "=a/p-1 -* z"),
    ("pu", "a/* -x"),
    ("pu", "a/* x"),
    ("pu", "a/* -* z"),
    ("pu", "a/p FOO: -* b"),
]


# user package.use line shapes that exercise the line parser itself (a plain flag, then a plain in-line -*, then
# optionally a USE_EXPAND group with or without its own -*); indices continue DOM_LINES. They are crossed with every
# other line in sequences of <= 2 (quick) / <= 3 (thorough) lines rather than added to the depth-3/4 product.
DOM_PARSER_LINES = [
    ("pu", "*/* x -* y FOO: a"),
    ("pu", "a/p x -* y FOO: -* b"),
    ("pu", "=a/p-1 z x -* FOO: a"),
    ("pu", "a/* foo_a x -* y FOO: b"),
    ("pu", "*/* x -* y"),
]
N_BASE_LINES = len(DOM_LINES)
DOM_LINES = DOM_LINES + DOM_PARSER_LINES


def dom_configs(tier):
    """[mk index, line indices...]: every make.defaults variant x every sequence of <= n base lines (profile lines first,
    at least one user line), plus every sequence of <= n-1 lines containing at least one parser-shape line."""
    n = 3 if tier == "quick" else 4
    idx = range(N_BASE_LINES)
    seqs = []
    for r in range(1, n):
        for combo in itertools.product(range(len(DOM_LINES)), repeat=r):
            li = [0 if DOM_LINES[i][0] == "pp" else 1 for i in combo]
            if li != sorted(li) or not any(i >= N_BASE_LINES for i in combo):
                continue
            seqs.append(list(combo))
    for r in range(1, n + 1):
        for combo in itertools.product(idx, repeat=r):
            li = [0 if DOM_LINES[i][0] == "pp" else 1 for i in combo]
            if li != sorted(li) or 1 not in li:
                continue
            seqs.append(list(combo))
    return [[m] + c for c in seqs for m in range(len(DOM_MK))]


def _parse_use_line(text):
    """Chunk view of a package.use line (key, neg, pos); only used by the classifiers to describe a case's shape."""
    toks = text.split()
    key = toks[0]
    key = "*" if key == "*/*" else key
    neg, pos = [], []
    expand = None
    for t in toks[1:]:
        if t.endswith(":"):
            expand = t[:-1].lower()
            continue
        if expand is not None:
            if t == "-*":
                t = f"-{expand}_*"
            elif t.startswith("-"):
                t = f"-{expand}_{t[1:]}"
            else:
                t = f"{expand}_{t}"
        if t.startswith("-"):
            neg.append(t[1:])
        else:
            pos.append(t)
    return key, tuple(neg), tuple(pos)


def _line_tokens(text):
    """Reference reading of one package.use line: its tokens applied one by one in the order written
    -> [(key, neg, pos)] with exactly one flag each.  Inside a 'FOO:' group a value v is foo_v and -* is -foo_*."""
    toks = text.split()
    key = "*" if toks[0] == "*/*" else toks[0]
    out = []
    expand = None
    for t in toks[1:]:
        if t.endswith(":"):
            expand = t[:-1].lower()
            continue
        neg = t.startswith("-")
        f = t[1:] if neg else t
        if expand is not None:
            f = f"{expand}_{f}"
        out.append((key, (f,), ()) if neg else (key, (), (f,)))
    return out


def dom_logical(cfg):
    use, foo = DOM_MK[cfg[0]]
    logical = []
    # domain order: global USE (make.defaults USE + expanded USE_EXPAND), profile package.use, user package.use
    glob = tuple(use) + tuple("foo_" + f for f in foo)
    if glob:
        logical.append(("*", (), glob))
    for layer in ("pp", "pu"):
        for i in cfg[1:]:
            if DOM_LINES[i][0] == layer:
                logical.extend(_line_tokens(DOM_LINES[i][1]))
    return logical


def dom_expected(cfg, cpv):
    s = expected(dom_logical(cfg), cpv, ())
    return sorted((s & set(DOM_FLAGS)) | {"x86"})


def dom_eval(cfg, base):
    """Write the configuration under a fresh directory below base and ask a real domain; {cpv: sorted enabled}."""
    from pkgcore.ebuild import domain as domain_mod
    from pkgcore.ebuild import profiles
    from pkgcore.test.misc import FakePkg

    root = tempfile.mkdtemp(dir=base, prefix="cfg")
    prof = os.path.join(root, "profiles")
    p1 = os.path.join(prof, "p1")
    conf = os.path.join(root, "conf")
    os.makedirs(p1)
    os.makedirs(os.path.join(conf, "package.use"))
    os.makedirs(os.path.join(root, "root"))
    use, foo = DOM_MK[cfg[0]]
    with open(os.path.join(p1, "make.defaults"), "w") as f:
        f.write('ARCH="x86"\nUSE_EXPAND="FOO"\n')
        f.write('USE="%s"\n' % " ".join(use))
        if foo:
            f.write('FOO="%s"\n' % " ".join(foo))
    pp = [DOM_LINES[i][1] for i in cfg[1:] if DOM_LINES[i][0] == "pp"]
    if pp:
        with open(os.path.join(p1, "package.use"), "w") as f:
            f.write("\n".join(pp) + "\n")
    pu = [DOM_LINES[i][1] for i in cfg[1:] if DOM_LINES[i][0] == "pu"]
    for n, line in enumerate(pu):
        with open(os.path.join(conf, "package.use", "%02d" % n), "w") as f:
            f.write(line + "\n")
    saved = os.environ.pop("USE", None)
    try:
        dom = domain_mod.domain(
            profiles.OnDiskProfile(prof, "p1"), [], [], ROOT=os.path.join(root, "root"), config_dir=conf
        )
        out = {}
        for cpv in DOM_PKGS:
            pkg = FakePkg(cpv, iuse=DOM_FLAGS, keywords=("x86",))
            _immutable, enabled, _disabled = dom.get_package_use_unconfigured(pkg)
            out[cpv] = sorted(enabled)
    finally:
        if saved is not None:
            os.environ["USE"] = saved
        shutil.rmtree(root, ignore_errors=True)
    return out


def dom_describe(cfg):
    use, foo = DOM_MK[cfg[0]]
    return [f"make.defaults USE={' '.join(use)!r} FOO={' '.join(foo)!r}"] + [
        ("profile package.use: " if DOM_LINES[i][0] == "pp" else "user package.use: ") + DOM_LINES[i][1] for i in cfg[1:]
    ]


def dom_check(cfg, base, only=None):
    got = dom_eval(cfg, base)
    out = []
    for cpv in DOM_PKGS:
        if only is not None and cpv != only:
            continue
        exp = dom_expected(cfg, cpv)
        if got[cpv] != exp:
            out.append((cpv, f"domain.get_package_use_unconfigured({cpv}) with {dom_describe(cfg)}: got {got[cpv]} expected {exp}"))
    return out


DOM_PKGS = ("a/p-1", "a/p-2", "a/q-1")
DOM_CHUNK = 100

# ---------------------------------------------------------------- runner interface


def tasks(tier):
    out = []
    d = _depths(tier)
    core = alphabet("core")
    full = alphabet("full")
    out.append(("bfs", "core", 1, []))  # depth 0 and 1 of the core alphabet
    for i in range(len(core)):
        for j in range(len(core)):
            out.append(("bfs", "core", d["core"], [i, j]))
    if tier == "quick":
        for i in range(len(full)):
            out.append(("bfs", "full", d["full"], [i]))
    else:
        out.append(("bfs", "full", 1, []))
        for i in range(len(full)):
            for j in range(0, len(full), 8):
                out.append(("bfs", "full", d["full"], [i, list(range(j, min(j + 8, len(full))))]))
    n = len(dom_configs(tier))
    for lo in range(0, n, DOM_CHUNK):
        out.append(("dom", tier, lo, min(lo + DOM_CHUNK, n)))
    return out


def _merge(dst, src):
    for k, v in src.items():
        dst[k] = dst.get(k, 0) + v


def work_bfs(task):
    _, aname, depth, rootidx = task
    alpha = alphabet(aname)
    roots = []
    if len(rootidx) == 2 and isinstance(rootidx[1], list):
        roots = [(alpha[rootidx[0]], alpha[j]) for j in rootidx[1]]
    else:
        roots = [tuple(alpha[i] for i in rootidx)]
    classes = {}
    viol = []
    samples = []
    counters = {"states": 0, "transitions": 0, "max_depth": 0}
    evals = 0
    enabled = make_enabled(alpha)
    for root in roots:
        # a root is only a valid path if every event was enabled where it occurs
        ok = True
        for i in range(len(root)):
            st = build(root[:i])
            if root[i] not in enabled(st, root[:i]):
                ok = False
                break
        if not ok:
            classes["root-not-enabled"] = classes.get("root-not-enabled", 0) + 1
            continue
        seen_cls = {}

        def chk(st, hist, seen_cls=seen_cls):
            msgs = check(st, hist)
            if st.dead:
                k = "op-raised:" + st.dead
            else:
                k = hist_class(hist, bool(msgs))
            seen_cls[k] = seen_cls.get(k, 0) + 1
            return msgs

        res = bfs.explore(root, build, enabled, canon, chk, depth)
        # classes at the root's own prefix states are covered by the tasks of shorter depth only implicitly; count root
        _merge(classes, seen_cls)
        counters["states"] += res["states"]
        counters["transitions"] += res["transitions"]
        counters["max_depth"] = max(counters["max_depth"], res["max_depth"])
        evals += (res["transitions"] + 1) * len(PKGS) * len(PRES)
        for hist, msg in res["viol"]:
            frag = json.loads(msg)
            frag["kind"] = "bfs"
            frag["hist"] = [list(e) for e in hist]
            frag["msg"] = (
                f"pull_data({frag['pkg']}, pre_defaults={frag['pre']}) on "
                f"{'the object' if frag['which'] == 0 else 'the original clone #%d was taken from' % frag['which']} "
                f"after {json.dumps(frag['hist'])}: got {frag['got']} expected {frag['exp']}"
            )
            viol.append(frag)
        if not samples:
            samples.append({"history": [list(e) for e in res["sample"]]})
    viol.sort(key=lambda c: len(json.dumps(c)))
    return {"evals": evals, "classes": classes, "viol": viol, "samples": samples, "counters": counters}


def work_dom(task):
    _, tier, lo, hi = task
    cfgs = dom_configs(tier)[lo:hi]
    base = tempfile.mkdtemp(dir="/dev/shm", prefix=f"verif-C11-{os.getpid()}-")
    classes = {}
    viol = []
    evals = 0
    try:
        for cfg in cfgs:
            evals += len(DOM_PKGS)
            bad = dom_check(cfg, base)
            layers = ("m" if cfg[0] else "") + "".join(sorted({DOM_LINES[i][0][1] for i in cfg[1:]}))
            wild = "wild" if any("-*" in DOM_LINES[i][1] for i in cfg[1:]) else "plain"
            k = f"dom|layers={layers}|{wild}|{'BAD' if bad else 'ok'}"
            classes[k] = classes.get(k, 0) + 1
            if bad:
                cpv, msg = bad[0]
                viol.append({"kind": "dom", "cfg": cfg, "lines": dom_describe(cfg), "pkg": cpv, "msg": msg})
    finally:
        shutil.rmtree(base, ignore_errors=True)
    viol.sort(key=lambda c: len(json.dumps(c)))
    return {
        "evals": evals,
        "classes": classes,
        "viol": viol,
        "samples": [{"domain_config": dom_describe(cfgs[0])}] if cfgs else [],
        "counters": {"states": 0, "transitions": 0, "domain_configs": len(cfgs)},
    }


def work(task):
    if task[0] == "bfs":
        return work_bfs(task)
    return work_dom(task)


def replay(case):
    if case["kind"] == "dom":
        base = tempfile.mkdtemp(dir="/dev/shm", prefix=f"verif-C11-{os.getpid()}-")
        try:
            return [m for _, m in dom_check(case["cfg"], base, only=case["pkg"])]
        finally:
            shutil.rmtree(base, ignore_errors=True)
    hist = tuple(case["hist"])
    st = build(hist)
    if st.dead:
        return []
    out = []
    for f in check_state(st):
        out.append(f"pull_data({f['pkg']}, pre_defaults={f['pre']}) which={f['which']}: got {f['got']} expected {f['exp']}")
    return out


# ---------------------------------------------------------------- classifiers for known findings
# Structural, deliberately narrow: each looks only at the shape of the recorded history.


def _case_events(case):
    """Flatten a case into [(position, op, key, neg, pos)] entries plus [(position, structural op)]."""
    if case["kind"] == "dom":
        cfg = case["cfg"]
        use, foo = DOM_MK[cfg[0]]
        hist = []
        glob = list(use) + ["foo_" + f for f in foo]
        hist.append(["g", [], glob])
        pp = [list(_parse_use_line(DOM_LINES[i][1])) for i in cfg[1:] if DOM_LINES[i][0] == "pp"]
        pu = [list(_parse_use_line(DOM_LINES[i][1])) for i in cfg[1:] if DOM_LINES[i][0] == "pu"]
        if pp:
            hist.append(["m", pp])
        hist.append(["u", pu])
    else:
        hist = case["hist"]
    ents, ops = [], []
    for i, ev in enumerate(hist):
        if ev[0] == "g":
            ents.append((i, "g", "*", tuple(ev[1]), tuple(ev[2])))
        elif ev[0] == "a":
            ents.append((i, "a", ev[1], tuple(ev[2]), tuple(ev[3])))
        elif ev[0] in ("u", "m"):
            for e in ev[1]:
                ents.append((i, ev[0], e[0], tuple(e[1]), tuple(e[2])))
        else:
            ops.append((i, ev[0]))
    return ents, ops


def _is_wild(neg):
    return any(f == "*" or f.endswith("_*") for f in neg)


def _has_wild(ents):
    return any(_is_wild(e[3]) for e in ents)


def _k_wildcard(case):
    """-* / -PREFIX_* entry somewhere in a history of at least two entries: collapsing (global collapse on add/merge,
    per-key collapse in optimize() and in profile package.use parsing) moves settings across the wildcard."""
    ents, _ = _case_events(case)
    return len(ents) >= 2 and _has_wild(ents)


def _k_delta(case):
    """No wildcard; a collapse that has conditional (versioned-atom or category-glob) entries in the sequence --
    optimize(), or a category-glob entry in the global list -- after two conditional entries touched the same flag."""
    ents, ops = _case_events(case)
    if _has_wild(ents):
        return False
    cond = [e for e in ents if e[2] in ("=a/p-1", "a/*")]
    touched = {}
    for e in cond:
        for f in e[3] + e[4]:
            touched[f] = touched.get(f, 0) + 1
    if not any(n >= 2 for n in touched.values()):
        return False
    return any(o in ("o", "oc") for _, o in ops) or any(e[2] == "a/*" for e in ents)


def _k_sync(case):
    """No wildcard; per-key lists out of step with the global list: (a) a keyed add()/update_from_stream() to a key that
    already exists after >= 2 global entries (the collapsed globals are appended again, after earlier keyed entries);
    (b) clone()/clone(unfreeze=True), then a global entry, then a keyed entry (the clone's new keys start from the
    original's globals)."""
    ents, ops = _case_events(case)
    if _has_wild(ents):
        return False

    def cp(k):
        return "a/p" if k in ("a/p", "=a/p-1") else None

    for n, e in enumerate(ents):
        if e[1] in ("a", "u") and cp(e[2]):
            before = ents[:n]
            if any(cp(b[2]) == cp(e[2]) for b in before) and sum(1 for b in before if b[2] in ("*", "a/*")) >= 2:
                return True
    for i, o in ops:
        if o in ("c", "k"):
            seen_global = False
            for e in ents:
                if e[0] < i:
                    continue
                if e[2] in ("*", "a/*"):
                    seen_global = True
                elif seen_global and cp(e[2]):
                    return True
    return False


def _k_prefix(case):
    """The only difference is that 'foox' (not a foo_ flag) was cleared by a -foo_* entry."""
    if case["kind"] != "bfs" or "foox" not in case.get("pre", ()):
        return False
    ents, _ = _case_events(case)
    if not any("foo_*" in e[3] for e in ents):
        return False
    return "foox" not in case["got"] and sorted(case["got"] + ["foox"]) == sorted(case["exp"])


CLASSIFIERS = {
    "prefix-wildcard-clears-unprefixed-flag": _k_prefix,
    "wildcard-negation-moved-by-collapse": _k_wildcard,
    "collapse-drops-respecified-flag": _k_delta,
    "keyed-list-out-of-step-with-globals": _k_sync,
}
