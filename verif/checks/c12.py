"""C12 incremental token expansion follows left-to-right incremental semantics.

Four exhaustive sweeps of the real functions in ``pkgcore.ebuild.misc`` against one boring left-to-right fold:

* ``use``     every token stream over {a -a b -b c -c -* -} up to a length bound x every starting set within {a,b,c}:
              ``incremental_expansion`` == fold; the stream condensed by ``optimize_incrementals`` (and by
              ``incremental_expansion(finalize=False)``) and applied the way pkgcore consumes a condensed set
              (negatives first -- ``-*`` clears --, then positives) == fold; a bare ``-`` raises.
* ``license`` every stream over {L1 -L1 L2 -L2 -* * @g -@g @h -@h @k @missing -@missing - -@ @} with the group map
              produced by the real ``Licenses`` manager from a scratch ``profiles/license_groups`` (h nests @g, k nests
              a missing group): ``incremental_expansion_license`` == fold; ``-``, ``-@``, ``@`` raise.
* ``pull``    ``collapsed_restrict_to_data``: a defaults stream plus 0-2 package-specific entries (AlwaysTrue /
              category / unversioned atom / versioned atom), probed with three packages and with/without
              ``pre_defaults``: ``pull_data`` == fold of the tokens of every matching entry.
"""

import itertools
import os
import shutil
import tempfile

PROPERTY = "C12"
LEVEL = "exploration"
ENGINE = "enum"
TECHNIQUE = "bounded exhaustive enumeration of token streams against a left-to-right fold"
RULE = (
    "all token streams up to a length bound over a USE-like alphabet (x every starting set) through "
    "incremental_expansion and optimize_incrementals, over an ACCEPT_LICENSE alphabet with nested/missing @groups, * "
    "and the three incomplete-negation tokens through incremental_expansion_license, and all "
    "collapsed_restrict_to_data configurations (defaults stream + <= 2 specific entries x 3 probe packages x "
    "pre_defaults modes) through pull_data; each compared with a plain left-to-right fold. A class is (sweep, which "
    "incremental effects the stream exercises: clear / drop-after-add / re-add-after-drop / no-op negation / group / "
    "star / rejection kind / number of matching entries); distinct_nontrivial counts classes observed."
)
ASSUMPTIONS = [
    "Excl: for optimize_incrementals a bare '-' that is followed (to its right) by '-*' is not required to be rejected: the scan stops at '-*' and everything to its left is discarded anyway",
    "Excl: '-PREFIX_*' glob negations (a USE_EXPAND feature of chunked USE data, property C11) and a literal '*' in USE-like streams are not in the use alphabet",
    "the condensed form of optimize_incrementals is consumed as pkgcore does (frozenset -> split into negatives and positives -> '-*' clears, negatives removed, positives added); it is not re-fed to incremental_expansion in yield order",
    "Excl (pull): an AlwaysTrue entry listed after a more specific entry, and entries listed out of specificity order (global < category < atom): the statement does not define how sources of different specificity interleave",
    "Excl (pull): pre_defaults combined with finalize_defaults=True (negations of the defaults stream are dropped by design when it is finalized)",
    "'*' in a license stream adds the 'licenses' argument (the set of known licenses handed in by the caller)",
    "PYTHONHASHSEED is fixed to 0 by the launcher; set iteration order inside pkgcore is therefore one fixed order, not all orders",
]
BOUNDS = {
    "quick": "use: length <= 5 (37449 streams) x 8 starting sets; license: length <= 4 (69905 streams); pull: defaults <= 2 tokens of 4, <= 2 entries with <= 2 tokens of 4 (~145k configurations) x 3 packages x 3 modes",
    "thorough": "use: length <= 7 x 8 starting sets; license: length <= 5 (1.1M streams); pull: defaults <= 3 tokens of 5, entries <= 2 tokens of 5",
}

USE_TOKENS = ("a", "-a", "b", "-b", "c", "-c", "-*", "-")
USE_ORIGS = [tuple(c) for r in range(4) for c in itertools.combinations("abc", r)]
LIC_TOKENS = ("L1", "-L1", "L2", "-L2", "-*", "*", "@g", "-@g", "@h", "-@h", "@k", "@missing", "-@missing", "-", "-@", "@")
LICENSES = ("L1", "L2", "L3")
GROUP_FILE = "g L1 L2\nh @g L3\nk @nosuch L3\n"
REF_GROUPS = {"g": {"L1", "L2"}, "h": {"L1", "L2", "L3"}, "k": {"L3"}}

LENGTHS = {"quick": {"use": 5, "license": 4}, "thorough": {"use": 7, "license": 5}}
PULL = {
    "quick": {"dtok": ("x", "-x", "y", "-*"), "dlen": 2, "etok": ("x", "-x", "y", "-*"), "elen": 2},
    "thorough": {"dtok": ("x", "-x", "y", "-y", "-*"), "dlen": 3, "etok": ("x", "-x", "y", "-y", "-*"), "elen": 2},
}
PULL_PARTS = {"quick": 4, "thorough": 2}
KEYS = ("always", "cat", "atom", "vatom")  # AlwaysTrue, category=a, a/p, =a/p-1
RANK = {"always": 0, "cat": 1, "atom": 2, "vatom": 2}
PKGS = ("a/p-1", "a/p-2", "b/q-1")
MATCH = {
    "always": {"a/p-1", "a/p-2", "b/q-1"},
    "cat": {"a/p-1", "a/p-2"},
    "atom": {"a/p-1", "a/p-2"},
    "vatom": {"a/p-1"},
}
# (finalize_defaults, pre_defaults)
MODES = ((True, ()), (False, ()), (False, ("x",)), (False, ("z",)))


# ---------------------------------------------------------------- reference fold (DESIGN A6)


def fold_use(tokens, orig):
    """Left-to-right. Returns (set, features) or raises ValueError on a bare '-'."""
    s = set(orig)
    feats = set()
    added, dropped = set(), set()
    for t in tokens:
        if t == "-":
            raise ValueError("incomplete negation")
        if t == "-*":
            s.clear()
            feats.add("clear")
        elif t[0] == "-":
            f = t[1:]
            if f in s:
                feats.add("drop")
            else:
                feats.add("noop-neg")
            s.discard(f)
            dropped.add(f)
        else:
            if t in dropped and t not in s:
                feats.add("re-add")
            s.add(t)
            added.add(t)
    return s, feats


def fold_license(tokens):
    s = set()
    feats = set()
    for t in tokens:
        if t == "-":
            raise ValueError("-")
        if t == "-@":
            raise ValueError("-@")
        if t == "@":
            raise ValueError("@")
        if t == "-*":
            s.clear()
            feats.add("clear")
        elif t == "*":
            s.update(LICENSES)
            feats.add("star")
        elif t.startswith("-@"):
            s.difference_update(REF_GROUPS.get(t[2:], ()))
            feats.add("neg-group")
        elif t[0] == "@":
            s.update(REF_GROUPS.get(t[1:], ()))
            feats.add("group" if t[1:] in REF_GROUPS else "missing-group")
        elif t[0] == "-":
            s.discard(t[1:])
        else:
            s.add(t)
    return s, feats


def apply_condensed(condensed, orig):
    """How pkgcore consumes frozenset(optimize_incrementals(...)): split_negations + one incremental chunk."""
    neg = {t[1:] for t in condensed if t[0] == "-"}
    pos = {t for t in condensed if t[0] != "-"}
    s = set(orig)
    if "*" in neg:
        s.clear()
    s -= neg
    s |= pos
    return s


# ---------------------------------------------------------------- checks


def check_use(tokens, classes=None):
    from pkgcore.ebuild.misc import incremental_expansion, optimize_incrementals

    tokens = list(tokens)
    msgs = []
    try:
        fold_use(tokens, ())
        bad = False
    except ValueError:
        bad = True
    # ---- incremental_expansion
    for orig in USE_ORIGS:
        try:
            got = incremental_expansion(list(tokens), orig=set(orig))
            err = None
        except ValueError:
            got, err = None, "ValueError"
        if bad:
            if err is None:
                msgs.append(f"incremental_expansion({tokens}, orig={list(orig)}) accepted a bare '-' -> {sorted(got)}")
            if classes is not None:
                classes["use:reject"] = classes.get("use:reject", 0) + 1
            continue
        exp, feats = fold_use(tokens, orig)
        if classes is not None:
            k = "use:" + ("+".join(sorted(feats)) or "plain")
            classes[k] = classes.get(k, 0) + 1
        if err is not None:
            msgs.append(f"incremental_expansion({tokens}, orig={list(orig)}) raised {err}, expected {sorted(exp)}")
        elif got != exp:
            msgs.append(f"incremental_expansion({tokens}, orig={list(orig)}) = {sorted(got)}, left-to-right gives {sorted(exp)}")
    # ---- the unfinalized (condensed) result of incremental_expansion, consumed negatives-first like a chunk
    if not bad:
        try:
            unfinal = incremental_expansion(list(tokens), finalize=False)
        except ValueError:
            unfinal = None
            msgs.append(f"incremental_expansion({tokens}, finalize=False) raised ValueError on a well-formed stream")
        if unfinal is not None:
            for orig in USE_ORIGS:
                exp, _ = fold_use(tokens, orig)
                got = apply_condensed(unfinal, orig)
                if got != exp:
                    msgs.append(
                        f"incremental_expansion({tokens}, finalize=False) = {sorted(unfinal)}: applied to {list(orig)} gives {sorted(got)}, the stream itself gives {sorted(exp)}"
                    )
                    break
    # ---- optimize_incrementals
    try:
        cond = list(optimize_incrementals(list(tokens)))
        err = None
    except ValueError:
        cond, err = None, "ValueError"
    if bad:
        last_dash = max(i for i, t in enumerate(tokens) if t == "-")
        shadowed = "-*" in tokens[last_dash + 1 :]
        if classes is not None:
            k = "opt:reject-shadowed" if shadowed else "opt:reject"
            classes[k] = classes.get(k, 0) + 1
        if err is None and not shadowed:
            msgs.append(f"optimize_incrementals({tokens}) accepted a bare '-' -> {cond}")
        return msgs
    if err is not None:
        msgs.append(f"optimize_incrementals({tokens}) raised {err} on a well-formed stream")
        return msgs
    if classes is not None:
        k = "opt:" + ("shorter" if len(cond) < len(tokens) else "same-length") + (":clear" if "-*" in cond else "")
        classes[k] = classes.get(k, 0) + 1
    if len(set(cond)) != len(cond):
        msgs.append(f"optimize_incrementals({tokens}) = {cond} repeats a token")
    for orig in USE_ORIGS:
        exp, _ = fold_use(tokens, orig)
        got = apply_condensed(cond, orig)
        if got != exp:
            msgs.append(
                f"optimize_incrementals({tokens}) = {cond}: applied to {list(orig)} gives {sorted(got)}, the stream itself gives {sorted(exp)}"
            )
            break
    return msgs


class _Loc:
    def __init__(self, location):
        self.location = location


def real_groups(scratch):
    """Group map produced by the real Licenses manager from a scratch repo."""
    import logging

    from pkgcore.ebuild.repo_objs import Licenses

    os.makedirs(os.path.join(scratch, "profiles"), exist_ok=True)
    os.makedirs(os.path.join(scratch, "licenses"), exist_ok=True)
    with open(os.path.join(scratch, "profiles", "license_groups"), "w") as f:
        f.write(GROUP_FILE)
    for l in LICENSES:
        with open(os.path.join(scratch, "licenses", l), "w") as f:
            f.write("text\n")
    lg = logging.getLogger("pkgcore")
    old = lg.level
    lg.setLevel(logging.CRITICAL)  # the nested reference to a missing group is reported through the logger
    try:
        mgr = Licenses(_Loc(scratch))
        return dict(mgr.groups), frozenset(mgr.licenses)
    finally:
        lg.setLevel(old)


def check_license(tokens, groups, licenses, classes=None):
    from pkgcore.ebuild.misc import incremental_expansion_license

    tokens = list(tokens)
    try:
        exp, feats = fold_license(tokens)
        bad = None
    except ValueError as e:
        bad = str(e)
    try:
        got = incremental_expansion_license("cat/pkg-1", licenses, groups, list(tokens))
        err = None
    except ValueError:
        got, err = None, "ValueError"
    if classes is not None:
        if not bad:  # fold the group flavours into one feature to keep the class list short
            feats = {"group" if f in ("group", "neg-group", "missing-group") else f for f in feats}
        k = "lic:reject:" + bad if bad else "lic:" + ("+".join(sorted(feats)) or "plain")
        classes[k] = classes.get(k, 0) + 1
    if bad:
        if err is None:
            return [f"incremental_expansion_license({tokens}) accepted the incomplete token {bad!r} -> {sorted(got)}"]
        return []
    if err is not None:
        return [f"incremental_expansion_license({tokens}) raised {err}, expected {sorted(exp)}"]
    if set(got) != exp:
        return [f"incremental_expansion_license({tokens}) = {sorted(got)}, left-to-right gives {sorted(exp)} (groups {sorted((k, sorted(v)) for k, v in groups.items())})"]
    return []


def check_groups(groups, licenses):
    msgs = []
    got = {k: set(v) for k, v in groups.items()}
    if got != REF_GROUPS:
        msgs.append(f"Licenses.groups for {GROUP_FILE!r} = {got}, expected {REF_GROUPS}")
    if set(licenses) != set(LICENSES):
        msgs.append(f"Licenses.licenses = {sorted(licenses)}, expected {sorted(LICENSES)}")
    return msgs


_objs = {}


def _key_obj(key):
    if key not in _objs:
        from pkgcore.ebuild.atom import atom
        from pkgcore.restrictions import packages, values

        _objs["always"] = packages.AlwaysTrue
        _objs["cat"] = packages.PackageRestriction("category", values.StrExactMatch("a"))
        _objs["atom"] = atom("a/p")
        _objs["vatom"] = atom("=a/p-1")
    return _objs[key]


def _pkg(cpv):
    k = "pkg:" + cpv
    if k not in _objs:
        from pkgcore.test.misc import FakePkg

        _objs[k] = FakePkg(cpv)
    return _objs[k]


def check_pull(defaults, entries, classes=None, only=None):
    """defaults: tuple of tokens; entries: tuple of (key, tokens). Returns a list of failure dicts, one per
    (finalize_defaults, pre_defaults, package); ``only`` = (finalize, pre, cpv) restricts the probes."""
    from pkgcore.ebuild.misc import collapsed_restrict_to_data

    out = []
    src_default = ((_key_obj("always"), tuple(defaults)),)
    src_specific = tuple((_key_obj(k), tuple(d)) for k, d in entries)
    for finalize, pre in MODES:
        if only is not None and (finalize, tuple(pre)) != (only[0], tuple(only[1])):
            continue
        obj = collapsed_restrict_to_data(src_default, src_specific, finalize_defaults=finalize)
        for cpv in PKGS:
            if only is not None and cpv != only[2]:
                continue
            stream = list(defaults)
            nmatch = 0
            for k, d in entries:
                if cpv in MATCH[k]:
                    stream.extend(d)
                    nmatch += 1
            exp, _ = fold_use(stream, pre)
            got = obj.pull_data(_pkg(cpv), pre_defaults=pre)
            if classes is not None:
                k = f"pull:match{nmatch}:{'final' if finalize else 'unfinal'}:{'pre' if pre else 'nopre'}:{'clear' if '-*' in stream else 'noclear'}"
                classes[k] = classes.get(k, 0) + 1
            if set(got) != exp:
                out.append(
                    {
                        "finalize": finalize,
                        "pre": list(pre),
                        "cpv": cpv,
                        "got": sorted(got),
                        "msg": f"collapsed_restrict_to_data(defaults={list(defaults)}, entries={[[k, list(d)] for k, d in entries]}, "
                        f"finalize_defaults={finalize}).pull_data({cpv}, pre_defaults={list(pre)}) = {sorted(got)}, "
                        f"left-to-right over {list(pre)} + {stream} gives {sorted(exp)}",
                    }
                )
    return out


# ---------------------------------------------------------------- enumeration / partition


def streams(alphabet, maxlen):
    for n in range(maxlen + 1):
        yield from itertools.product(alphabet, repeat=n)


def entry_lists(tier):
    """0-2 specific entries in non-decreasing specificity order."""
    p = PULL[tier]
    datas = [d for n in range(1, p["elen"] + 1) for d in itertools.product(p["etok"], repeat=n)]
    single = [(k, d) for k in KEYS for d in datas]
    yield ()
    for e in single:
        yield (e,)
    for e1 in single:
        for e2 in single:
            if RANK[e1[0]] <= RANK[e2[0]]:
                yield (e1, e2)


def tasks(tier):
    out = []
    L = LENGTHS[tier]
    # use / license: partition by a 2-token prefix; shorter streams go to one extra task each
    pl = 2
    for sweep, alpha in (("use", USE_TOKENS), ("license", LIC_TOKENS)):
        out.append((sweep, tier, "short", pl))
        for prefix in itertools.product(range(len(alpha)), repeat=pl):
            out.append((sweep, tier, prefix, L[sweep] - pl))
    p = PULL[tier]
    dstreams = list(streams(p["dtok"], p["dlen"]))
    nd = len(dstreams)
    for i in range(nd):
        for part in range(PULL_PARTS[tier]):
            out.append(("pull", tier, i, part))
    return out


def work(task):
    sweep, tier = task[0], task[1]
    evals = 0
    classes = {}
    viol = []
    samples = []
    if sweep in ("use", "license"):
        alpha = USE_TOKENS if sweep == "use" else LIC_TOKENS
        if task[2] == "short":
            it = streams(alpha, task[3] - 1)
        else:
            prefix = tuple(alpha[i] for i in task[2])
            it = (prefix + rest for rest in streams(alpha, task[3]))
        scratch = None
        try:
            if sweep == "license":
                scratch = tempfile.mkdtemp(dir="/dev/shm", prefix=f"verif-C12-{os.getpid()}-")
                groups, licenses = real_groups(scratch)
                gm = check_groups(groups, licenses)
                if gm:
                    viol.append({"kind": "groups", "msg": gm[0]})
            for toks in it:
                evals += 1
                if sweep == "use":
                    msgs = check_use(toks, classes)
                else:
                    msgs = check_license(toks, groups, licenses, classes)
                if msgs:
                    viol.append({"kind": sweep, "tokens": list(toks), "msg": msgs[0]})
                if len(samples) < 1:
                    samples.append([sweep, list(toks)])
        finally:
            if scratch:
                shutil.rmtree(scratch, ignore_errors=True)
    else:
        p = PULL[tier]
        nparts = PULL_PARTS[tier]
        defaults = list(streams(p["dtok"], p["dlen"]))[task[2]]
        for j, entries in enumerate(entry_lists(tier)):
            if j % nparts != task[3]:
                continue
            evals += 1
            for f in check_pull(defaults, entries, classes):
                c = {"kind": "pull", "defaults": list(defaults), "entries": [[k, list(d)] for k, d in entries]}
                c.update(f)
                viol.append(c)
            if len(samples) < 1:
                samples.append(["pull", list(defaults), [[k, list(d)] for k, d in entries]])
    return {"evals": evals, "classes": classes, "viol": viol, "samples": samples}


def replay(case):
    if case["kind"] == "use":
        return check_use(case["tokens"])
    if case["kind"] in ("license", "groups"):
        scratch = tempfile.mkdtemp(dir="/dev/shm", prefix=f"verif-C12-{os.getpid()}-")
        try:
            groups, licenses = real_groups(scratch)
            if case["kind"] == "groups":
                return check_groups(groups, licenses)
            return check_license(case["tokens"], groups, licenses)
        finally:
            shutil.rmtree(scratch, ignore_errors=True)
    res = check_pull(
        tuple(case["defaults"]),
        tuple((k, tuple(d)) for k, d in case["entries"]),
        only=(case["finalize"], case["pre"], case["cpv"]),
    )
    return [f["msg"] for f in res]


# ---------------------------------------------------------------- classifiers for known findings


def _unfinalized_defaults_order(case):
    """collapsed_restrict_to_data(finalize_defaults=False) keeps the condensed defaults (tokens incl. '-x' and '-*')
    in a set and pull_data(pre_defaults=...) re-expands that set in set-iteration order, so '-*' may be applied after
    the positives it should precede. Narrow: pull case, finalize_defaults=False with pre_defaults, the condensed
    defaults hold '-*' together with a positive token, and the observed result is exactly what applying the
    condensed defaults in some other order (then the matching specific entries) produces."""
    if case.get("kind") != "pull" or case.get("finalize") is not False or not case.get("pre") or "got" not in case:
        return False
    stream = list(case["defaults"])
    specific = []
    for k, d in case["entries"]:
        if k == "always":
            stream.extend(d)
        elif case["cpv"] in MATCH[k]:
            specific.extend(d)
    # condensed, unfinalized form of the defaults stream
    cond = set()
    for t in stream:
        if t == "-*":
            cond = {"-*"}
        elif t[0] == "-":
            cond.discard(t[1:])
            cond.add(t)
        else:
            cond.discard("-" + t)
            cond.add(t)
    if "-*" not in cond or not any(t[0] != "-" for t in cond):
        return False
    right, _ = fold_use(stream + specific, case["pre"])
    for order in itertools.permutations(sorted(cond)):
        s, _ = fold_use(list(order) + specific, case["pre"])
        if sorted(s) == list(case["got"]) and s != right:
            return True
    return False


CLASSIFIERS = {"unfinalized-defaults-expanded-in-set-order": _unfinalized_defaults_order}
