"""C13 package visibility follows mask, keyword and license configuration.

Seam: a real ``pkgcore.ebuild.domain.domain`` built on scratch directories -- an ``OnDiskProfile`` (base + child node,
make.defaults, package.mask / package.unmask with ``-atom`` removals, package.accept_keywords), a user ``config_dir``
(package.mask, package.unmask, package.accept_keywords, package.license), ACCEPT_KEYWORDS / ACCEPT_LICENSE settings --
and ``domain.filter_repo`` applied to a ``SimpleTree`` of 120 ``FakePkg``s whose license manager is the real
``repo_objs.Licenses`` reading a scratch ``profiles/license_groups``.  The set of packages the filtered repository
yields is compared, package by package, with a reference evaluator (Appendix A7) that works on plain strings and never
imports pkgcore.
"""

import itertools
import os
import shutil
import tempfile

PROPERTY = "C13"
LEVEL = "exploration"
ENGINE = "enum"
TECHNIQUE = "bounded exhaustive enumeration of domain configurations against a plain-Python visibility evaluator"
RULE = (
    "a configuration is (repository masks, profile stack variant incl. -atom removals (of profile masks and of repository-level masks, in base, in child, in both with re-add) and profile unmasks, user "
    "package.mask, user package.unmask, ACCEPT_KEYWORDS, user and profile package.accept_keywords, ACCEPT_LICENSE, "
    "package.license); every configuration of the tier's product is materialised on tmpfs, a real domain is built on it "
    "and every one of 120 packages (4 identity classes a/p-1*, a/p-2*, a/q, b/r x 6 KEYWORDS values x 5 LICENSE "
    "values) is asked for through the filtered repository; visible must equal not masked and keyword accepted and "
    "license accepted as computed by the reference.  A further part builds one domain over two repositories that hold the "
    "same packages but define the license groups differently (FREE={GPL}, EULAS={EULA} vs FREE={GPL,EULA}, EULAS={BSD}), "
    "filters them one after the other in both orders under ACCEPT_LICENSE / package.license stacks using @FREE, -@FREE, "
    "@EULAS, -@EULAS, and judges every package with the groups of its own repository.  A class is the deciding rule of each of the three parts (mask "
    "source / unmask / profile removal; keyword rule; license rule) and the combination of failing parts; "
    "distinct_nontrivial counts classes observed."
)
ASSUMPTIONS = [
    "mask order: repository-level masks seed the incremental stack, every profile node (parent first) applies its '-atom' "
    "removals and then its additions on top, user package.mask is added and package.unmask applied last; so a profile "
    "'-atom' lifts a repository-level mask with the same atom text",
    "Excl: negated tokens in package.accept_keywords / ACCEPT_KEYWORDS, profile package.keywords, the deprecated user package.keywords file",
    "Excl: ACCEPT_LICENSE unset (no default is stated); USE-conditional LICENSE; nested license groups; LICENSE empty",
    "atoms limited to cat/pkg, ~cat/pkg-ver, =cat/pkg-ver-rN and cat/* (user files only); '-atom' removal is by identical atom text",
    "ARCH=amd64 from the profile; profile make.defaults sets ACCEPT_KEYWORDS=amd64 and the user setting is stacked on it",
    "a '~k' token in ACCEPT_KEYWORDS also accepts 'k' (standard stacking rule, Appendix A7); not relied upon by the alphabet since k is ARCH",
    "one file per configuration file name (no directories of fragments); one line per entry",
    "@group / -@group tokens expand through the license groups of the package's own repository (two-repository part); "
    "both repositories are registered with the domain and filtered through the same domain object",
]
BOUNDS = {
    "quick": "all 660 mask configurations x 3 keyword x 2 license configurations; 7 mask x all 120 keyword x 2 license; "
    "7 mask x 3 keyword x all 42 license configurations; every configuration judged on 120 packages; two-repository part: "
    "8 ACCEPT_LICENSE x 7 package.license x 2 evaluation orders = 112 configurations judged on 2 x 120 packages",
    "thorough": "all 660 mask x all 120 keyword x 4 license; all 660 mask x 6 keyword x all 42 license; "
    "24 mask x all 120 keyword x all 42 license configurations; every configuration judged on 120 packages; two-repository "
    "part: 2 mask x 3 keyword x 8 ACCEPT_LICENSE x 7 package.license x 2 evaluation orders = 672 configurations on 2 x 120 packages",
}

# ----------------------------------------------------------------------------------------------------------------
# alphabet
# ----------------------------------------------------------------------------------------------------------------
KW = ["amd64", "~amd64", "x86", "~x86", "-*", ""]
LIC = ["GPL", "EULA", "|| ( GPL EULA )", "GPL EULA", "|| ( EULA ( GPL BSD ) )"]
COMBOS = list(itertools.product(KW, LIC))  # 30
# identity classes: (category, package, version); revision r runs over the 30 combos
CLASSES = [("a", "p", "1"), ("a", "p", "2"), ("a", "q", "1"), ("b", "r", "1")]
LICENSE_GROUPS = {"FREE": ["GPL"], "EULAS": ["EULA"]}
ARCH = "amd64"


def packages():
    """[(cat, pkg, fullver, keywords str, license str)] -- the 120-package repository."""
    out = []
    for ci, (c, p, v) in enumerate(CLASSES):
        for r in range(len(COMBOS)):
            kw, lic = COMBOS[(r + 7 * ci) % len(COMBOS)]
            out.append((c, p, v if r == 0 else f"{v}-r{r}", kw, lic))
    return out


REPO_MASKS = [[], ["a/p"], ["~a/p-2"]]
# profile variants: files of the base node and of the child node (child inherits base)
PROFILES = [
    {"name": "none", "base": {}, "child": {}},
    {"name": "base-mask", "base": {"package.mask": "a/p\n"}, "child": {}},
    {"name": "mask-removed", "base": {"package.mask": "a/p\n"}, "child": {"package.mask": "-a/p\n"}},
    {"name": "one-of-two-removed", "base": {"package.mask": "a/p\na/q\n"}, "child": {"package.mask": "-a/p\n"}},
    {"name": "profile-unmask", "base": {"package.mask": "~a/p-2\n"}, "child": {"package.unmask": "a/p\n"}},
    {"name": "unmask-removed", "base": {"package.mask": "~a/p-2\n", "package.unmask": "a/p\n"}, "child": {"package.unmask": "-a/p\n"}},
    {"name": "removal-before-add", "base": {"package.mask": "-a/p\n"}, "child": {"package.mask": "a/p\n"}},
    # negations that have nothing to remove in the profile itself: they lift the repository-level mask a/p / ~a/p-2
    # when the repository has it (and are no-ops otherwise)
    {"name": "neg-in-base", "base": {"package.mask": "-a/p\n"}, "child": {}},
    {"name": "neg-in-child", "base": {}, "child": {"package.mask": "-a/p\n"}},
    {"name": "neg-in-both-readd-in-child", "base": {"package.mask": "-a/p\n"}, "child": {"package.mask": "-a/p\na/p\n"}},
    {"name": "neg-versioned-in-child", "base": {}, "child": {"package.mask": "-~a/p-2\n"}},
]
USER_MASK = ["", "a/p\n", "~a/p-2\n", "a/*\n"]
USER_UNMASK = ["", "a/p\n", "~a/p-2\n", "a/*\n", "=a/p-2-r1\n"]
ACCEPT_KEYWORDS = [None, "~amd64", "**", "*", "~*"]  # user setting stacked on the profile's "amd64"
USER_AK = ["", "a/p\n", "a/p **\n", "a/p *\n", "a/p ~*\n", "a/p ~x86\n", "~a/p-2 ~x86\na/p\n", "a/* x86 ~x86\n"]
PROFILE_AK = ["", "a/q ~x86\n", "a/q\n"]
ACCEPT_LICENSE = ["*", "-* GPL", "@FREE", "* -@EULAS", "-* @FREE BSD", "* -GPL"]
USER_LICENSE = ["", "a/p EULA\n", "a/p -GPL\n", "a/p @EULAS\n", "a/p -*\n", "a/* *\n", "~a/p-2 -@FREE\na/p BSD\n"]


# two-repository part: both repositories hold the same 120 packages but define the license groups differently
TWO_REPO_GROUPS = [{"FREE": ["GPL"], "EULAS": ["EULA"]}, {"FREE": ["GPL", "EULA"], "EULAS": ["BSD"]}]
TWO_REPO_ACCEPT_LICENSE = ACCEPT_LICENSE + ["* -@FREE", "@EULAS @FREE -GPL"]
TWO_REPO_ORDERS = [[0, 1], [1, 0]]


def two_repo_configs(tier):
    """[(cfg, order)] -- license stacks with @FREE / -@FREE / @EULAS over both evaluation orders."""
    ms = [(0, 0, 0, 0)] if tier == "quick" else [(0, 0, 0, 0), (0, 1, 0, 1)]
    ks = [(0, 0, 0)] if tier == "quick" else [(0, 0, 0), (1, 1, 1), (0, 2, 0)]
    out = []
    for m in ms:
        for k in ks:
            for al in TWO_REPO_ACCEPT_LICENSE:
                for ul in range(len(USER_LICENSE)):
                    cfg = make_config(m, k, (0, ul))
                    cfg["settings"]["ACCEPT_LICENSE"] = al
                    for order in TWO_REPO_ORDERS:
                        out.append((cfg, order))
    return out


def mask_configs():
    out = []
    for rm in range(len(REPO_MASKS)):
        for pv in range(len(PROFILES)):
            for um in range(len(USER_MASK)):
                for uu in range(len(USER_UNMASK)):
                    out.append((rm, pv, um, uu))
    return out


def kw_configs():
    return list(itertools.product(range(len(ACCEPT_KEYWORDS)), range(len(USER_AK)), range(len(PROFILE_AK))))


def lic_configs():
    return list(itertools.product(range(len(ACCEPT_LICENSE)), range(len(USER_LICENSE))))


def make_config(m, k, l):
    rm, pv, um, uu = m
    ak, uak, pak = k
    al, ul = l
    prof = PROFILES[pv]
    base = dict(prof["base"])
    child = dict(prof["child"])
    if PROFILE_AK[pak]:
        base["package.accept_keywords"] = PROFILE_AK[pak]
    user = {}
    if USER_MASK[um]:
        user["package.mask"] = USER_MASK[um]
    if USER_UNMASK[uu]:
        user["package.unmask"] = USER_UNMASK[uu]
    if USER_AK[uak]:
        user["package.accept_keywords"] = USER_AK[uak]
    if USER_LICENSE[ul]:
        user["package.license"] = USER_LICENSE[ul]
    settings = {"ACCEPT_LICENSE": ACCEPT_LICENSE[al]}
    if ACCEPT_KEYWORDS[ak] is not None:
        settings["ACCEPT_KEYWORDS"] = ACCEPT_KEYWORDS[ak]
    return {
        "repo_masks": list(REPO_MASKS[rm]),
        "profile": {"base": base, "child": child},
        "profile_accept_keywords": "amd64",
        "user": user,
        "settings": settings,
    }


# ----------------------------------------------------------------------------------------------------------------
# reference evaluator (A7): plain strings only
# ----------------------------------------------------------------------------------------------------------------
def _split_ver(fullver):
    if "-r" in fullver:
        v, r = fullver.rsplit("-r", 1)
        return v, int(r)
    return fullver, 0


def ref_atom_match(a, pkg):
    """a in {'c/p', '~c/p-v', '=c/p-v[-rN]', 'c/*'}; pkg = (cat, pkg, fullver, ...)."""
    c, p, fv = pkg[0], pkg[1], pkg[2]
    v, r = _split_ver(fv)
    if a.endswith("/*"):
        return a[:-2] == c
    if a[0] == "~":
        cp, av = a[1:].rsplit("-", 1)
        return cp == f"{c}/{p}" and av == v
    if a[0] == "=":
        body = a[1:]
        ar = 0
        if "-r" in body:
            body, x = body.rsplit("-r", 1)
            ar = int(x)
        cp, av = body.rsplit("-", 1)
        return cp == f"{c}/{p}" and av == v and ar == r
    return a == f"{c}/{p}"


def _stack(nodes, fn):
    """Profile stacking of an atom list with -atom removals, parent first."""
    cur = []
    for files in nodes:
        lines = files.get(fn, "").split()
        for ln in lines:
            if ln.startswith("-"):
                cur = [x for x in cur if x != ln[1:]]
        for ln in lines:
            if not ln.startswith("-") and ln not in cur:
                cur.append(ln)
    return cur


def _stack_masks(repo_masks, nodes):
    """The incremental mask stack: repository-level masks first, then every profile node (parent first), each node's
    '-atom' removals before its additions.  -> [(atom, 'repo' | 'profile')]"""
    cur = [(a, "repo") for a in repo_masks]
    for files in nodes:
        lines = files.get("package.mask", "").split()
        for ln in lines:
            if ln.startswith("-"):
                cur = [(a, src) for a, src in cur if a != ln[1:]]
        for ln in lines:
            if not ln.startswith("-") and all(a != ln for a, _ in cur):
                cur.append((ln, "profile"))
    return cur


def _entries(text):
    out = []
    for line in text.splitlines():
        toks = line.split()
        if toks:
            out.append((toks[0], toks[1:]))
    return out


_dnf_memo = {}


def license_dnf(s):
    """LICENSE string -> list of alternatives (each a frozenset of license names)."""
    r = _dnf_memo.get(s)
    if r is None:
        r = _dnf_memo[s] = _license_dnf(s)
    return r


def _license_dnf(s):
    toks = s.split()
    pos = 0

    def parse_all(closing):
        nonlocal pos
        items = []  # each item: list of alternatives
        while pos < len(toks):
            t = toks[pos]
            if t == ")":
                if not closing:
                    raise ValueError(s)
                pos += 1
                return items
            if t == "||":
                assert toks[pos + 1] == "("
                pos += 2
                sub = parse_all(True)
                alts = []
                for it in sub:
                    alts.extend(it)
                items.append(alts)
            elif t == "(":
                pos += 1
                sub = parse_all(True)
                items.append(conj(sub))
            else:
                pos += 1
                items.append([frozenset([t])])
        if closing:
            raise ValueError(s)
        return items

    def conj(items):
        alts = [frozenset()]
        for it in items:
            alts = [a | b for a in alts for b in it]
        return alts

    return conj(parse_all(False))


def prepare(cfg):
    """Package-independent part of the reference evaluation."""
    nodes = [cfg["profile"]["base"], cfg["profile"]["child"]]
    ents = _entries(cfg["user"].get("package.accept_keywords", ""))
    for files in nodes:
        ents += _entries(files.get("package.accept_keywords", ""))
    return {
        "nodes": nodes,
        "stacked_masks": _stack_masks(cfg["repo_masks"], nodes),
        "prof_unmasks": _stack(nodes, "package.unmask"),
        "user_masks": cfg["user"].get("package.mask", "").split(),
        "user_unmasks": cfg["user"].get("package.unmask", "").split(),
        "ak": cfg["profile_accept_keywords"].split() + cfg["settings"].get("ACCEPT_KEYWORDS", "").split(),
        "kw_entries": ents,
        "lic_entries": _entries(cfg["user"].get("package.license", "")),
    }


def reference(cfg, pkg, pre=None, groups=None):
    """-> (visible, {'mask': rule, 'kw': rule, 'lic': rule}, (not masked, keyword ok, license ok))."""
    why = {}
    if groups is None:
        groups = LICENSE_GROUPS  # license groups of the package's own repository
    if pre is None:
        pre = prepare(cfg)
    # ---- masks
    nodes = pre["nodes"]
    stacked = pre["stacked_masks"]
    prof_unmasks = pre["prof_unmasks"]
    user_masks = pre["user_masks"]
    user_unmasks = pre["user_unmasks"]
    src = None
    # order: repository masks -> profile nodes (negations then additions, per node, parent first) -> user mask/unmask
    for name, lst in (
        ("repo", [a for a, s_ in stacked if s_ == "repo"]),
        ("profile", [a for a, s_ in stacked if s_ == "profile"]),
        ("user", user_masks),
    ):
        if any(ref_atom_match(a, pkg) for a in lst):
            src = name if src is None else "several"
    if src is None:
        masked = False
        why["mask"] = "unmasked-none"
        if any(ref_atom_match(a, pkg) for a in cfg["repo_masks"]):
            why["mask"] = "repo-mask-removed-by-profile"
        elif _profile_removed_hit(nodes, pkg):
            why["mask"] = "mask-removed-by-profile"
    else:
        un = None
        if any(ref_atom_match(a, pkg) for a in prof_unmasks):
            un = "profile-unmask"
        if any(ref_atom_match(a, pkg) for a in user_unmasks):
            un = "user-unmask" if un is None else "both-unmask"
        masked = un is None
        why["mask"] = f"masked-by-{src}" if masked else f"{un}-over-{src}"
    # ---- keywords
    ak = pre["ak"]
    acc = {ARCH} | set(ak) | {k[1:] for k in ak if k.startswith("~")}
    stable_system = ("~" + ARCH) not in acc
    entry_rule = None
    ents = pre["kw_entries"]
    for a, toks in ents:
        if not ref_atom_match(a, pkg):
            continue
        if not toks:
            if stable_system:
                acc.add("~" + ARCH)
                entry_rule = "empty-entry"
        else:
            acc.update(toks)
            entry_rule = entry_rule or "entry-tokens"
    kws = pkg[3].split()
    if "**" in acc:
        kw_ok, rule = True, "star-star"
    elif "*" in acc and any(k[0] not in "~-" for k in kws):
        kw_ok, rule = True, "star-stable"
    elif "~*" in acc and any(k[0] == "~" for k in kws):
        kw_ok, rule = True, "tilde-star"
    elif any(k in acc for k in kws):
        kw_ok = True
        base_acc = {ARCH} | set(ak) | {k[1:] for k in ak if k.startswith("~")}
        rule = "global" if any(k in base_acc for k in kws) else entry_rule or "entry-tokens"
    else:
        kw_ok, rule = False, "none" if kws else "no-keywords"
    glob = [t for t in cfg["settings"].get("ACCEPT_KEYWORDS", "").split() if t in ("**", "*", "~*")]
    why["kw"] = ("ok-" if kw_ok else "rejected-") + rule + ("(global-wildcard)" if glob and kw_ok and rule in ("star-star", "star-stable", "tilde-star") and not _entry_has(ents, pkg, glob) else "")
    # ---- license
    tokens = cfg["settings"]["ACCEPT_LICENSE"].split()
    matched_entry = False
    for a, toks in pre["lic_entries"]:
        if ref_atom_match(a, pkg):
            tokens += toks
            matched_entry = True
    lic_ok = False
    alts = license_dnf(pkg[4])
    for idx, alt in enumerate(alts):
        accd = set()
        for t in tokens:
            if t == "-*":
                accd.clear()
            elif t.startswith("-@"):
                accd -= set(groups.get(t[2:], ()))
            elif t.startswith("-"):
                accd.discard(t[1:])
            elif t.startswith("@"):
                accd |= set(groups.get(t[1:], ()))
            elif t == "*":
                accd |= alt
            else:
                accd.add(t)
        if alt <= accd:
            lic_ok = True
            why["lic"] = f"ok-alt{min(idx, 1) + 1}of{min(len(alts), 2)}" + ("-entry" if matched_entry else "")
            break
    else:
        why["lic"] = "rejected" + ("-entry" if matched_entry else "")
    return (not masked) and kw_ok and lic_ok, why, (not masked, kw_ok, lic_ok)


def _entry_has(ents, pkg, glob):
    return any(ref_atom_match(a, pkg) and set(toks) & set(glob) for a, toks in ents)


def _profile_removed_hit(nodes, pkg):
    for files in nodes:
        for ln in files.get("package.mask", "").split():
            if ln.startswith("-") and ref_atom_match(ln[1:], pkg):
                return True
    return False


# ----------------------------------------------------------------------------------------------------------------
# harness: the real domain
# ----------------------------------------------------------------------------------------------------------------
class _Ref:
    name = "c13-fake"

    def __init__(self, tree):
        self.tree = tree

    def instantiate(self):
        return self.tree


class Harness:
    """One scratch root per task; directories are written once per distinct content and never rewritten."""

    def __init__(self, root, pkgs, groups_list=None):
        from pkgcore.ebuild.repo_objs import Licenses
        from pkgcore.repository.util import SimpleTree
        from pkgcore.test.misc import FakePkg

        self.root = root
        self.dirs = {}
        os.makedirs(os.path.join(root, "sysroot"))
        self.trees = []
        for idx, groups in enumerate(groups_list or [LICENSE_GROUPS]):
            # every repository has its own location, hence its own profiles/license_groups and license manager
            repo_root = os.path.join(root, "repo" if idx == 0 else f"repo{idx}")
            os.makedirs(os.path.join(repo_root, "profiles"))
            with open(os.path.join(repo_root, "profiles", "license_groups"), "w") as f:
                for g, members in groups.items():
                    f.write(f"{g} {' '.join(members)}\n")
            cpv = {}
            inst = {}
            for c, p, fv, kw, lic in pkgs:
                cpv.setdefault(c, {}).setdefault(p, []).append(fv)
            tree = SimpleTree(cpv, pkg_klass=lambda c, p, v, inst=inst: inst[(c, p, v)], repo_id="c13-fake" if idx == 0 else f"c13-fake{idx}")
            tree.location = repo_root
            tree.supported = True
            tree.pkg_masks = frozenset()
            tree.licenses = Licenses(tree)
            for c, p, fv, kw, lic in pkgs:
                inst[(c, p, fv)] = FakePkg(f"{c}/{p}-{fv}", repo=tree, keywords=tuple(kw.split()), data={"LICENSE": lic})
            self.trees.append(tree)
        self.tree = self.trees[0]
        self.pkgs = pkgs

    def _dir(self, kind, files, extra=()):
        key = (kind, tuple(sorted(files.items())), extra)
        d = self.dirs.get(key)
        if d is None:
            d = os.path.join(self.root, f"{kind}{len(self.dirs)}")
            os.makedirs(d)
            for fn, content in files.items():
                with open(os.path.join(d, fn), "w") as f:
                    f.write(content)
            self.dirs[key] = d
        return d

    def _profile(self, cfg):
        base = dict(cfg["profile"]["base"])
        base["make.defaults"] = f'ARCH="{ARCH}"\nACCEPT_KEYWORDS="{cfg["profile_accept_keywords"]}"\n'
        child = dict(cfg["profile"]["child"])
        key = ("profile", tuple(sorted(base.items())), tuple(sorted(child.items())))
        d = self.dirs.get(key)
        if d is None:
            d = os.path.join(self.root, f"profiles{len(self.dirs)}")
            for node, files in (("base", base), ("child", child)):
                os.makedirs(os.path.join(d, node))
                for fn, content in files.items():
                    with open(os.path.join(d, node, fn), "w") as f:
                        f.write(content)
            with open(os.path.join(d, "child", "parent"), "w") as f:
                f.write("../base\n")
            self.dirs[key] = d
        return d

    def visible(self, cfg):
        """Set of (cat, pkg, fullver) the filtered repository yields under cfg."""
        from pkgcore.ebuild import domain as domain_mod
        from pkgcore.ebuild import profiles
        from pkgcore.ebuild.atom import atom
        from pkgcore.restrictions import packages as prestrict

        prof = profiles.OnDiskProfile(self._profile(cfg), "child")
        etc = self._dir("etc", cfg["user"])
        self.tree.pkg_masks = frozenset(atom(a) for a in cfg["repo_masks"])
        dom = domain_mod.domain(
            prof, [_Ref(self.tree)], [], root=os.path.join(self.root, "sysroot"), config_dir=etc, **cfg["settings"]
        )
        filtered = dom.filter_repo(self.tree)
        return {(p.category, p.package, p.fullver) for p in filtered.itermatch(prestrict.AlwaysTrue)}

    def visible_multi(self, cfg, order):
        """One domain over all repositories; they are filtered and listed one after the other in the given order.
        -> {repository index: set of (cat, pkg, fullver)}"""
        from pkgcore.ebuild import domain as domain_mod
        from pkgcore.ebuild import profiles
        from pkgcore.ebuild.atom import atom
        from pkgcore.restrictions import packages as prestrict

        prof = profiles.OnDiskProfile(self._profile(cfg), "child")
        etc = self._dir("etc", cfg["user"])
        for t in self.trees:
            t.pkg_masks = frozenset(atom(a) for a in cfg["repo_masks"])
        dom = domain_mod.domain(
            prof, [_Ref(t) for t in self.trees], [], root=os.path.join(self.root, "sysroot"), config_dir=etc, **cfg["settings"]
        )
        out = {}
        for idx in order:
            filtered = dom.filter_repo(self.trees[idx])
            out[idx] = {(p.category, p.package, p.fullver) for p in filtered.itermatch(prestrict.AlwaysTrue)}
        return out


def _mkroot():
    return tempfile.mkdtemp(dir="/dev/shm", prefix=f"verif-{PROPERTY}-{os.getpid()}-")


def check_config(h, cfg, classes=None):
    """-> list of violation cases for this configuration (one per misjudged package)."""
    got = h.visible(cfg)
    out = []
    pre = prepare(cfg)
    for pkg in h.pkgs:
        exp, why, parts = reference(cfg, pkg, pre)
        g = (pkg[0], pkg[1], pkg[2]) in got
        if classes is not None:
            for fam in ("mask", "kw", "lic"):
                k = f"{fam}:{why[fam]}"
                classes[k] = classes.get(k, 0) + 1
            k = "visible" if exp else "hidden-by:" + "+".join(n for n, ok in zip(("mask", "kw", "lic"), parts) if not ok)
            classes[k] = classes.get(k, 0) + 1
        if g != exp:
            out.append(
                {
                    "cfg": cfg,
                    "pkg": list(pkg),
                    "got": g,
                    "exp": exp,
                    "why": why,
                    "msg": f"{pkg[0]}/{pkg[1]}-{pkg[2]} KEYWORDS={pkg[3]!r} LICENSE={pkg[4]!r}: filtered repo says "
                    f"{'visible' if g else 'hidden'}, reference says {'visible' if exp else 'hidden'} "
                    f"(mask: {why['mask']}, keywords: {why['kw']}, license: {why['lic']}) under repo_masks={cfg['repo_masks']} "
                    f"profile={cfg['profile']} user={cfg['user']} settings={cfg['settings']}",
                }
            )
    return out


# ----------------------------------------------------------------------------------------------------------------
# runner interface
def check_two_repos(h, cfg, groups_list, order, classes=None):
    """Both repositories through one domain, in the given order; every package is judged with the license groups of
    its own repository."""
    got = h.visible_multi(cfg, order)
    out = []
    pre = prepare(cfg)
    for idx in order:
        for pkg in h.pkgs:
            exp, why, parts = reference(cfg, pkg, pre, groups_list[idx])
            g = (pkg[0], pkg[1], pkg[2]) in got[idx]
            if classes is not None:
                other = any(reference(cfg, pkg, pre, groups_list[j])[0] != exp for j in range(len(groups_list)) if j != idx)
                k = "two-repos:" + ("verdict-depends-on-own-repository-groups" if other else "same-verdict-under-both-group-definitions")
                classes[k] = classes.get(k, 0) + 1
                k = f"two-repos:lic:{why['lic']}"
                classes[k] = classes.get(k, 0) + 1
            if g != exp:
                out.append(
                    {
                        "cfg": cfg,
                        "two_repos": {"groups": groups_list, "order": list(order)},
                        "repo": idx,
                        "pkg": list(pkg),
                        "got": g,
                        "exp": exp,
                        "why": why,
                        "msg": f"repository {idx} (license_groups {groups_list[idx]}), filtered {'first' if order[0] == idx else 'second'} "
                        f"through one domain: {pkg[0]}/{pkg[1]}-{pkg[2]} KEYWORDS={pkg[3]!r} LICENSE={pkg[4]!r}: filtered repo says "
                        f"{'visible' if g else 'hidden'}, reference says {'visible' if exp else 'hidden'} "
                        f"(mask: {why['mask']}, keywords: {why['kw']}, license: {why['lic']}) under the other repository's groups "
                        f"{[groups_list[j] for j in range(len(groups_list)) if j != idx]} user={cfg['user']} settings={cfg['settings']}",
                    }
                )
    return out


# ----------------------------------------------------------------------------------------------------------------
def _parts(tier):
    M, K, L = mask_configs(), kw_configs(), lic_configs()
    # small representative sub-alphabets used for the dimensions that are not being swept
    ksmall = [(0, 0, 0), (1, 1, 1), (0, 2, 0)]
    lsmall = [(0, 0), (1, 1)]
    if tier == "quick":
        msmall = [m for m in M if m in {(0, 0, 0, 0), (0, 1, 0, 1), (1, 0, 2, 0), (0, 2, 1, 3), (2, 4, 0, 0), (0, 5, 3, 4), (1, 8, 0, 0)}]
        return [("masks", M, ksmall, lsmall), ("keywords", msmall, K, lsmall), ("licenses", msmall, ksmall, L)]
    ksmall_t = ksmall + [(2, 0, 0), (3, 5, 1), (4, 6, 2)]
    lsmall_t = lsmall + [(3, 3), (4, 6)]
    msmall_t = M[:: max(1, len(M) // 24)][:24]
    return [("masks-x-keywords", M, K, lsmall_t), ("masks-x-licenses", M, ksmall_t, L), ("keywords-x-licenses", msmall_t, K, L)]


def _part_configs(tier, part):
    for name, M, K, L in _parts(tier):
        if name == part:
            return [(m, k, l) for m in M for k in K for l in L]
    raise KeyError(part)


def tasks(tier):
    out = []
    per = 60 if tier == "quick" else 1500
    for name, M, K, L in _parts(tier):
        n = len(M) * len(K) * len(L)
        for lo in range(0, n, per):
            out.append((tier, name, lo, min(lo + per, n)))
    n2 = len(two_repo_configs(tier))
    per2 = 28 if tier == "quick" else 112
    for lo in range(0, n2, per2):
        out.append((tier, "two-repos", lo, min(lo + per2, n2)))
    return out


def _work_two_repos(task):
    tier, part, lo, hi = task
    cfgs = two_repo_configs(tier)[lo:hi]
    root = _mkroot()
    classes = {}
    viol = []
    evals = 0
    try:
        h = Harness(root, packages(), TWO_REPO_GROUPS)
        for cfg, order in cfgs:
            bad = check_two_repos(h, cfg, TWO_REPO_GROUPS, order, classes)
            evals += len(h.pkgs) * len(order)
            viol.extend(bad[:2])
    finally:
        shutil.rmtree(root, ignore_errors=True)
    viol.sort(key=lambda c: len(repr(c["cfg"])))
    return {
        "evals": evals,
        "classes": classes,
        "viol": viol,
        "samples": [{"config": cfgs[0][0], "order": cfgs[0][1], "groups": TWO_REPO_GROUPS, "packages": 240}] if cfgs else [],
        "counters": {"configurations": len(cfgs), "two_repository_configurations": len(cfgs)},
    }


def work(task):
    tier, part, lo, hi = task
    if part == "two-repos":
        return _work_two_repos(task)
    cfgs = _part_configs(tier, part)[lo:hi]
    root = _mkroot()
    classes = {}
    viol = []
    evals = 0
    try:
        h = Harness(root, packages())
        for m, k, l in cfgs:
            cfg = make_config(m, k, l)
            bad = check_config(h, cfg, classes)
            evals += len(h.pkgs)
            # keep the report small: at most two packages per configuration
            viol.extend(bad[:2])
    finally:
        shutil.rmtree(root, ignore_errors=True)
    viol.sort(key=lambda c: len(repr(c["cfg"])))
    return {
        "evals": evals,
        "classes": classes,
        "viol": viol,
        "samples": [{"config": make_config(*cfgs[0]), "packages": 120}] if cfgs else [],
        "counters": {"configurations": len(cfgs)},
    }


def replay(case):
    root = _mkroot()
    try:
        # replay the whole configuration over the same package universe and in the same order as work():
        # a defect that depends on which package was judged first (e.g. a cache keyed too coarsely) must
        # reproduce, so the single package is not evaluated in isolation
        if "two_repos" in case:
            tr = case["two_repos"]
            h = Harness(root, packages(), tr["groups"])
            bad = check_two_repos(h, case["cfg"], tr["groups"], tr["order"])
            return [c["msg"] for c in bad if list(c["pkg"]) == list(case["pkg"]) and c["repo"] == case["repo"]]
        h = Harness(root, packages())
        return [c["msg"] for c in check_config(h, case["cfg"]) if list(c["pkg"]) == list(case["pkg"])]
    finally:
        shutil.rmtree(root, ignore_errors=True)


def _global_wildcard_without_entries(case):
    """ACCEPT_KEYWORDS itself holds '**', '*' or '~*', there is no package.accept_keywords entry anywhere (user or
    profile), mask and license parts accept the package, and the package is hidden although the wildcard accepts one
    of its keywords: domain._make_keywords_filter takes a plain containment shortcut that ignores wildcards."""
    cfg = case["cfg"]
    glob = [t for t in cfg["settings"].get("ACCEPT_KEYWORDS", "").split() if t in ("**", "*", "~*")]
    if not glob or case["got"] or not case["exp"]:
        return False
    if cfg["user"].get("package.accept_keywords"):
        return False
    if any("package.accept_keywords" in cfg["profile"][n] for n in ("base", "child")):
        return False
    return case["why"]["kw"].endswith("(global-wildcard)")


CLASSIFIERS = {"global-keyword-wildcard-ignored-without-entries": _global_wildcard_without_entries}
