"""C14 USE-configured package views always reflect the current USE set.

Explicit-state search over histories of request_enable / request_disable / rollback / commit / attribute reads on a
real ``package.conditionals`` wrapper (built with ``ConfiguredTree.config_wrappables``) around a FakePkg whose
DEPEND/RDEPEND/PDEPEND/BDEPEND/IDEPEND/LICENSE/RESTRICT/REQUIRED_USE/fetchables/distfiles mention the flags, both as
``flag? ( ... )`` groups and inside conditional USE deps of atoms (``dev/b[b?]``, ``dev/c[a=]``).
"""

import hashlib
import json

from verif.engines import bfs

PROPERTY = "C14"
LEVEL = "model_checking"
ENGINE = "bfs"
TECHNIQUE = "explicit-state BFS over request/rollback/commit/read histories of the real PackageWrapper, raw attribute re-evaluated under the observed USE set as reference"
RULE = (
    "every history up to the depth bound over {request_enable/request_disable('use', ...) of changeable flags a,b, a "
    "locked-on flag L, a locked-off flag K, multi-flag requests mixing them; rollback(p) for every p <= changes_count(); "
    "commit(); read of one wrapped attribute; read of all wrapped attributes} is replayed on a fresh wrapper. In every state "
    "every wrapped attribute must equal the raw attribute evaluated under set(pkg.use) (string form of "
    "raw.evaluate_depset on a pristine raw package and, independently, the leaf set computed by a plain evaluator of the "
    "attribute's structure incl. conditional USE-dep atoms); the same holds for a second configured view of the same raw "
    "package created afterwards; and a "
    "request that did not return True must have left set(pkg.use) unchanged. States are de-duplicated on the exact wrapper "
    "state (USE set, change log, changed set, _reuse_pt, cached (generation, value) per attribute). A class is (last event "
    "kind, its outcome, whether a cached read preceded it, verdict)."
)
ASSUMPTIONS = [
    "requests go through attr 'use' (the configurable attribute), the path restrictions' force_True/force_False use; "
    "requests naming a wrapped attribute (depend=...) are not covered",
    "a request that raises (LimitedChangeSet.remove raises KeyError for an absent locked flag) is counted as not granted",
    "which requests must be granted is not judged (the statement only fixes the views and the refused case)",
    "Excl: freeze()/lock()/__copy__ of the wrapper; iuse_effective and user_patches (need a domain); src_uri (no such package attribute)",
    "one package: initial USE {b, L}, unchangeable {L, K}",
    "the seen-set stores a 128-bit BLAKE2 digest of the exact state snapshot (memory), not the snapshot itself",
]
BOUNDS = {
    "quick": "20-event alphabet, all histories to depth 5, partitioned by 2-event root prefixes",
    "thorough": "22-event alphabet (rollback points up to 5), all histories to depth 6, partitioned by 3-event root prefixes",
}

TIME_CAP = {"quick": 300, "thorough": 2400}

# ---------------------------------------------------------------- package under test (structure -> text and -> model)
# node: ("leaf", text) | ("if", flag, wanted, [nodes]) | ("or", [nodes]) | ("uatom", base, flag, kind)
# kind is the conditional USE-dep operator: "?", "=", "!?", "!="


def L(t):
    return ("leaf", t)


def IF(flag, *nodes):
    return ("if", flag, True, list(nodes))


def IFN(flag, *nodes):
    return ("if", flag, False, list(nodes))


def OR(*nodes):
    return ("or", list(nodes))


def UA(base, flag, kind):
    return ("uatom", base, flag, kind)


def _ua_text(n):
    return f"{n[1]}[{'!' if n[3].startswith('!') else ''}{n[2]}{n[3][-1]}]"


def _ua_eval(n, use):
    """PMS 8.3.4: [f?] -> [f] if f else nothing; [f=] -> [f] / [-f]; [!f?] -> nothing / [-f]; [!f=] -> [-f] / [f]."""
    on = n[2] in use
    dep = {"?": (n[2], None), "=": (n[2], "-" + n[2]), "!?": (None, "-" + n[2]), "!=": ("-" + n[2], n[2])}[n[3]][0 if on else 1]
    return n[1] + (f"[{dep}]" if dep else "")


ATTRS = {
    "depend": [IF("a", L("x/a")), IFN("b", L("x/nb")), IF("L", L("x/l")), IF("K", L("x/k")), L("x/always")],
    "rdepend": [IF("a", IF("b", L("x/ab")), IFN("b", L("x/anb"))), IFN("a", L("x/na")), IF("L", UA("dev/f", "b", "?"))],
    # group conditionals on L, K, b; flag a only inside USE deps of atoms
    "pdepend": [IFN("L", L("x/nl")), IFN("K", L("x/nk")), IF("b", L("x/pb")), UA("dev/c", "a", "="), UA("dev/d", "a", "!?")],
    "bdepend": [IF("b", L("x/bb")), OR(IF("a", L("x/oa")), L("x/ob"))],
    # group conditionals on a; flag b only inside USE deps of atoms
    "idepend": [IF("a", L("x/ia")), IFN("a", L("x/ina")), UA("dev/b", "b", "?"), UA("dev/e", "b", "!=")],
    "license": [IF("a", L("GPL-2")), OR(IF("b", L("MIT")), L("BSD"))],
    "restrict": [IF("a", L("test")), IFN("b", L("mirror")), L("strip")],
    "required_use": [IF("a", L("b")), IF("K", L("!a")), IFN("b", L("L"))],
    "fetchables": [IF("a", L("http://h/a.tar")), IF("b", L("http://h/b.tar")), L("http://h/c.tar")],
    "distfiles": [IF("a", L("a.tar")), IFN("b", L("nb.tar")), L("c.tar")],
}
ATTR_ORDER = sorted(ATTRS)
READ_ONE = "depend"
INITIAL_USE = ("L", "b")
UNCHANGEABLE = ("K", "L")


def render(nodes):
    out = []
    for n in nodes:
        if n[0] == "leaf":
            out.append(n[1])
        elif n[0] == "if":
            out.append(("" if n[2] else "!") + n[1] + "? ( " + render(n[3]) + " )")
        elif n[0] == "uatom":
            out.append(_ua_text(n))
        else:
            out.append("|| ( " + render(n[1]) + " )")
    return " ".join(out)


def model_leaves(nodes, use):
    out = []
    for n in nodes:
        if n[0] == "leaf":
            out.append(n[1])
        elif n[0] == "if":
            if (n[1] in use) == n[2]:
                out.extend(model_leaves(n[3], use))
        elif n[0] == "uatom":
            out.append(_ua_eval(n, use))
        else:
            out.extend(model_leaves(n[1], use))
    return out


def leaves_of_text(text):
    return sorted(t for t in text.split() if t not in ("||", "(", ")"))


# ---------------------------------------------------------------- real side

_cls = {}


def _mk_raw():
    """A fresh raw package: nothing a previous history or probe did to its DepSets can leak into this one."""
    from pkgcore.ebuild.conditionals import DepSet
    from pkgcore.test.misc import FakePkg

    raw = FakePkg(
        "c/p-1",
        eapi="8",
        iuse=("a", "b", "L", "K"),
        restrict=_text["restrict"],
        data={
            "DEPEND": _text["depend"],
            "RDEPEND": _text["rdepend"],
            "PDEPEND": _text["pdepend"],
            "BDEPEND": _text["bdepend"],
            "IDEPEND": _text["idepend"],
            "LICENSE": _text["license"],
            "REQUIRED_USE": _text["required_use"],
        },
    )
    # FakePkg pins fetchables to []; hold a string DepSet there instead (distfiles likewise, independent of SRC_URI parsing)
    object.__setattr__(raw, "fetchables", DepSet.parse(_text["fetchables"], str, operators={}))
    object.__setattr__(raw, "distfiles", DepSet.parse(_text["distfiles"], str, operators={}))
    return raw


_text = {}


def _setup():
    if _cls:
        return _cls
    from functools import partial

    from pkgcore.ebuild.repository import ConfiguredTree
    from pkgcore.package.conditionals import make_wrapper
    from pkgcore.test.misc import FakeRepo

    for a in ATTRS:
        _text[a] = render(ATTRS[a])
    wr = {k: v for k, v in ConfiguredTree.config_wrappables.items() if not isinstance(v, str) and k in ATTRS}
    wr["distfiles"] = partial(ConfiguredTree._distfiles, None)
    missing = [a for a in ATTRS if a not in wr]
    if missing:
        raise RuntimeError(f"ConfiguredTree.config_wrappables lacks {missing}")
    _cls["wrapper"] = make_wrapper(FakeRepo(), "use", wr)
    return _cls


def _view(raw):
    return _cls["wrapper"](raw, initial_settings=list(INITIAL_USE), unchangable_settings=frozenset(UNCHANGEABLE))


def _fmt(v):
    if isinstance(v, tuple):
        return " ".join(str(x) for x in v)
    return str(v)


class St:
    __slots__ = ("w", "raw", "log", "canon")


def snapshot(w):
    c = w._configurable
    cache = tuple(sorted((a, g, _fmt(v)) for a, (g, v) in w._cached_wrapped.items()))
    return (
        tuple(sorted(c._new)),
        tuple(c._change_order),
        tuple(sorted(c._changed)),
        w._reuse_pt,
        cache,
    )


def apply_event(w, ev):
    """Returns the outcome string."""
    kind = ev[0]
    if kind in ("en", "dis"):
        f = w.request_enable if kind == "en" else w.request_disable
        try:
            r = f("use", *ev[1])
        except Exception as e:
            return "raised:" + type(e).__name__
        return "granted" if r is True else ("refused" if r is False else f"returned:{r!r}")
    if kind == "rb":
        w.rollback(ev[1])
        return "done"
    if kind == "commit":
        w.commit()
        return "done"
    if kind == "rd":
        for a in ([READ_ONE] if ev[1] == "one" else ATTR_ORDER):
            getattr(w, a)
        return "done"
    raise ValueError(ev)


def build(hist):
    _setup()
    st = St()
    st.raw = _mk_raw()
    st.w = _view(st.raw)
    st.log = []
    for ev in hist:
        before = sorted(st.w.use)
        out = apply_event(st.w, ev)
        st.log.append((before, out, sorted(st.w.use)))
    st.canon = snapshot(st.w)
    return st


def canon(st):
    # the exact snapshot, kept as a 128-bit digest of its repr so that seen-sets of 10^5..10^6 states stay small
    return hashlib.blake2b(repr(st.canon).encode(), digest_size=16).digest()


_ref = {}


def _reference(use):
    """{attr: string form of the raw attribute evaluated under `use`}, computed once per USE set (16 possible) on a
    pristine raw package whose DepSets nothing else has ever evaluated."""
    r = _ref.get(use)
    if r is None:
        raw = _mk_raw()
        r = {}
        for a in ATTR_ORDER:
            ref = getattr(raw, a).evaluate_depset(use)
            if a == "distfiles":
                ref = tuple(dict.fromkeys(ref))
            r[a] = _fmt(ref)
        _ref[use] = r
    return r


def _check_view(w, what, label):
    use = frozenset(w.use)
    ref = _reference(use)
    for a in ATTR_ORDER:
        got = _fmt(getattr(w, a))
        exp = ref[a]
        if got != exp:
            return [{"what": what, "attr": a, "detail": f"{label}{a} = {got!r} but raw {a} under USE {sorted(use)} = {exp!r}"}]
        ml = sorted(model_leaves(ATTRS[a], use))
        if leaves_of_text(got) != ml:
            return [{"what": what if what != "stale" else "model", "attr": a, "detail": f"{label}{a} = {got!r} but the leaves enabled under USE {sorted(use)} are {ml}"}]
    return []


def check_state(st, hist):
    _setup()
    w = st.w
    out = []
    if hist:
        ev = hist[-1]
        before, res, after = st.log[-1]
        if ev[0] in ("en", "dis") and res != "granted" and before != after:
            out.append(
                {
                    "what": "refused-changed",
                    "res": res,
                    "before": before,
                    "after": after,
                    "detail": f"request_{'enable' if ev[0] == 'en' else 'disable'}('use', {', '.join(map(repr, ev[1]))}) "
                    f"{res} but USE went {before} -> {after}",
                }
            )
    out.extend(_check_view(w, "stale", ""))
    if not out:
        # a second configured view of the same raw package, created and read after everything the first view did
        out.extend(_check_view(_view(st.raw), "view2", "second view of the same raw package: "))
    return out


def check(st, hist):
    return [json.dumps(f, sort_keys=True) for f in check_state(st, hist)]


def alphabet(tier):
    ev = []
    for f in ("a", "b", "L", "K"):
        ev.append(["en", [f]])
    for f in ("a", "b", "L", "K"):
        ev.append(["dis", [f]])
    ev += [["en", ["a", "K"]], ["en", ["a", "b"]], ["dis", ["a", "b"]], ["dis", ["b", "L"]], ["dis", ["b", "K"]]]
    for p in range(4 if tier == "quick" else 6):
        ev.append(["rb", p])
    ev.append(["commit"])
    ev.append(["rd", "one"])
    ev.append(["rd", "all"])
    return ev


def make_enabled(alpha):
    def enabled(st, hist):
        n = st.w.changes_count()
        return [e for e in alpha if e[0] != "rb" or e[1] <= n]

    return enabled


def _depth(tier):
    return 5 if tier == "quick" else 6


def tasks(tier):
    alpha = alphabet(tier)
    n = len(alpha)
    out = [("pre", tier, [])]  # depth 0..(prefix length - 1) states
    if tier == "quick":
        for i in range(n):
            for j in range(n):
                out.append(("sub", tier, [i, j]))
    else:
        for i in range(n):
            for j in range(n):
                for k in range(0, n, 6):
                    out.append(("sub", tier, [i, j, list(range(k, min(k + 6, n)))]))
    return out


def ev_class(hist, st, bad):
    if not hist:
        return "initial|" + ("BAD" if bad else "ok")
    ev = hist[-1]
    kind = ev[0] + ("*" if ev[0] in ("en", "dis") and len(ev[1]) > 1 else "")
    res = st.log[-1][1]
    cached = "cached" if any(e[0] == "rd" for e in hist[:-1]) else "nocache"
    return f"{kind}|{res}|{cached}|{bad or 'ok'}"


def work(task):
    kind, tier, rootidx = task
    alpha = alphabet(tier)
    enabled = make_enabled(alpha)
    if kind == "pre":
        roots = [()]
        depth = 1 if tier == "quick" else 2
    else:
        depth = _depth(tier)
        if isinstance(rootidx[-1], list):
            roots = [tuple(alpha[i] for i in rootidx[:-1]) + (alpha[k],) for k in rootidx[-1]]
        else:
            roots = [tuple(alpha[i] for i in rootidx)]
    classes = {}
    viol = []
    samples = []
    counters = {"states": 0, "transitions": 0, "max_depth": 0}
    evals = 0
    for root in roots:
        ok = True
        for i in range(len(root)):
            if root[i] not in enabled(build(root[:i]), root[:i]):
                ok = False
                break
        if not ok:
            classes["root-not-enabled"] = classes.get("root-not-enabled", 0) + 1
            continue
        found = []

        def chk(st, hist, found=found):
            fr = check_state(st, hist)
            k = ev_class(hist, st, fr[0]["what"] if fr else "")
            classes[k] = classes.get(k, 0) + 1
            for f in fr[:1]:
                if len(found) < 60:
                    f = dict(f)
                    f["hist"] = [list(e) for e in hist]
                    found.append(f)
            return []

        res = bfs.explore(root, build, enabled, canon, chk, depth)
        counters["states"] += res["states"]
        counters["transitions"] += res["transitions"]
        counters["max_depth"] = max(counters["max_depth"], res["max_depth"])
        evals += (res["transitions"] + 1) * len(ATTR_ORDER) * 2  # both views
        for f in found:
            f["msg"] = f"after {json.dumps(f['hist'])}: {f['detail']}"
            viol.append(f)
        if not samples:
            samples.append({"history": [list(e) for e in res["sample"]]})
    viol.sort(key=lambda c: len(json.dumps(c)))
    return {"evals": evals, "classes": classes, "viol": viol, "samples": samples, "counters": counters}


def replay(case):
    hist = tuple(case["hist"])
    st = build(hist)
    return [f["detail"] for f in check_state(st, hist)]


# ---------------------------------------------------------------- classifiers for known findings


def _read_before(case, kinds):
    h = case["hist"]
    seen_read = False
    for ev in h:
        if ev[0] == "rd":
            seen_read = True
        elif ev[0] in kinds and seen_read:
            return True
    return False


def _k_disable_stale(case):
    """A wrapped attribute is stale and a request_disable followed a cached read (request_disable on the configurable
    attribute does not start a new cache generation)."""
    return case.get("what") == "stale" and _read_before(case, ("dis",))


def _k_commit_gen(case):
    """A wrapped attribute is stale and a commit() followed a cached read (commit() resets the generation counter to 0,
    a value under which attributes may already be cached)."""
    return case.get("what") == "stale" and _read_before(case, ("commit",))


def _k_disable_keyerror(case):
    """request_disable of several flags raised KeyError on a flag that is already off and locked, leaving the earlier
    flags of the same request removed."""
    return case.get("what") == "refused-changed" and case["hist"][-1][0] == "dis" and case.get("res") == "raised:KeyError"


def _k_noop_undone(case):
    """A refused multi-flag request changed only flags that already had the requested value before it: the no-op add/remove
    was logged by snakeoil's LimitedChangeSet as a change and the roll-back of the refusal inverted it."""
    if case.get("what") != "refused-changed" or case.get("res") != "refused":
        return False
    ev = case["hist"][-1]
    before, after = set(case["before"]), set(case["after"])
    diff = before ^ after
    if not diff or not diff <= set(ev[1]):
        return False
    if ev[0] == "en":
        return all(f in before and f not in after for f in diff)
    return all(f not in before and f in after for f in diff)


CLASSIFIERS = {
    "disable-keeps-cached-views": _k_disable_stale,
    "commit-reuses-cache-generation": _k_commit_gen,
    "disable-absent-locked-flag-raises": _k_disable_keyerror,
    "refused-request-inverts-noop-change": _k_noop_undone,
}
