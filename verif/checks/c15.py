"""C15 successful resolutions produce dependency-closed, slot-consistent plans; resolving never crashes.

Exhaustive enumeration of small repository universes (source tree + installed tree of FakePkg in SimpleTrees) x
target lists x resolver kinds through the real ``pkgcore.ebuild.resolver`` entry points.  Every reported success is
judged by a plain-Python plan validator (own atom parser/matcher over (name, int version, slot) triples).
"""

import itertools
import json
import re

PROPERTY = "C15"
LEVEL = "exploration"
ENGINE = "enum"
TECHNIQUE = "exhaustive enumeration of repository universes x targets x resolver kinds; plan validity decided by an independent closed-world validator"
RULE = (
    "every universe of a fixed finite family (source repo a/x-1, a/x-2 (slot 0 or 1), a/y-1, a/y-2, a/z-1; dependency "
    "carriers draw DEPEND/BDEPEND/RDEPEND/IDEPEND/PDEPEND from a menu of plain, ranged, any-of, weak/strong blocker and "
    "cycle-forming atoms; installed tree = every subset of {x-1,y-1,z-1}) x every target list x every resolver kind "
    "(upgrade, min-install, empty-tree, and their verify_vdb=False forms) is resolved once through "
    "upgrade_resolver/min_install_resolver/empty_tree_merge_plan + add_atoms. Constructing or resolving may raise nothing "
    "and must stay within a step budget; on success the final state computed from state.iter_ops(True) must match every "
    "target, satisfy one alternative of every clause of every dependency class of every merged package, hold one package "
    "per (name, slot) and contain no package hit by a blocker of a merged package. A class is (resolver kind, outcome "
    "shape) or (dependency class, how a clause of a merged package was satisfied)."
)
ASSUMPTIONS = [
    "versions are single integers, one category, EAPI 8, no USE conditionals, no sub-slots/slot operators, no virtuals",
    "merge order is not judged (the statement speaks of the plan's contents only)",
    "installed packages carry no dependencies, except family F4 where installed x-1 mirrors the source x-1 and only installed "
    "sets that satisfy their own dependencies are used (so the installed tree is well-formed); dependencies and blockers of "
    "installed packages are not judged",
    "blockers are judged for merged packages only ('planned package' read as a package the plan merges)",
    "Excl: blockers inside any-of groups; blockers naming the carrier's own package name (self-blockers)",
    "Excl: a package merged and replaced again inside one plan is not required to have its own dependencies satisfied",
    "a resolution that needs more than 4000 choice iterations (normal ones need < 60) is reported as non-terminating",
    "drop_cycles, force_replace, nodeps, process_built_depends keep their defaults; the downgrade resolver is not covered",
]
BOUNDS = {
    "quick": (
        "F0: x-2 in slot 1, one class x 9-item menu (46 universes); F1: x-2 carries up to two classes x 9-item menu (856); "
        "F2: x-2 and y-2 one class each (45 x 30) with 4 installed subsets; F4: installed x-1 mirrors a dependency-carrying "
        "source x-1 (15 x 10), self-consistent installed subsets only; F0/F1/F4 x all 8 installed subsets; x 3 target lists x "
        "4 resolver kinds; F5: one blocker atom carried by x-2 and y-2, y-2 abandoned on a missing dependency, blocked z requested "
        "afterwards (10 x 10, targets 'a/x a/z'); F6: x-2 refused at insertion by a blocker of the already planned z-1, with "
        "a dependency cycle through y-2 (2 x 10 x 10) or a dependency-carrying fallback x-1 (2 x 2 x 10), targets 'a/z a/x'; "
        "168,232 resolutions"
    ),
    "thorough": (
        "F1 with x-2 in slot 0 and in slot 1 (1712); F2 with x-1 in 4 dependency settings (5400) x 8 installed subsets; F3: "
        "x-1, x-2, y-2, z-1 each carry one of DEPEND/RDEPEND/PDEPEND from a 3-item menu (6561) x 4 installed subsets; F4 "
        "(45 x 16); x 6 target lists x 6 resolver kinds; F5 and F6 as in quick x 6 kinds; 3,153,840 resolutions"
    ),
}

CLS = ("DEPEND", "BDEPEND", "RDEPEND", "IDEPEND", "PDEPEND")
CAT = "a"
STEP_BUDGET = 4000

# ------------------------------------------------------------------ reference side: own parser, matcher, validator

_ATOM_RE = re.compile(r"^(!!?)?(>=|<=|=|<|>)?a/([a-z]+)(?:-(\d+(?:-r\d+)?))?(?::(\w+))?$")


def vcmp(a, b):
    """Versions are plain ints in most universes and strings 'N[-rM]' in the revision families; full version+revision
    order through the PMS transcription in verif.ref."""
    if isinstance(a, int) and isinstance(b, int):
        return (a > b) - (a < b)
    from verif import ref

    return ref.pms_ver_cmp(str(a), str(b))


def vkey(v):
    import functools

    return functools.cmp_to_key(vcmp)(v)


def parse_atom(s):
    m = _ATOM_RE.match(s)
    if not m:
        raise ValueError(f"harness atom not understood: {s!r}")
    blk, op, name, ver, slot = m.groups()
    if bool(op) != (ver is not None):
        raise ValueError(f"harness atom not understood: {s!r}")
    return {"blk": blk or "", "op": op or "", "name": name, "ver": (int(ver) if ver.isdigit() else ver) if ver else None, "slot": slot, "text": s}


def parse_dep(s):
    """-> list of clauses, each a list of atom dicts (len > 1 = any-of)."""
    toks = s.split()
    out = []
    i = 0
    while i < len(toks):
        if toks[i] == "||":
            if toks[i + 1] != "(":
                raise ValueError(s)
            j = toks.index(")", i)
            out.append([parse_atom(t) for t in toks[i + 2 : j]])
            i = j + 1
        else:
            out.append([parse_atom(toks[i])])
            i += 1
    return out


def ref_match(a, p):
    """p = (name, ver, slot)"""
    if a["name"] != p[0]:
        return False
    if a["slot"] is not None and a["slot"] != p[2]:
        return False
    op, v = a["op"], a["ver"]
    if op == "":
        return True
    c = vcmp(p[1], v)
    if op == "=":
        return c == 0
    if op == ">=":
        return c >= 0
    if op == "<=":
        return c <= 0
    if op == ">":
        return c > 0
    if op == "<":
        return c < 0
    raise ValueError(op)


def clause_status(clause, owner, final):
    """How a clause of package ``owner`` is satisfied in ``final`` (set of (name, ver, slot, origin)); None if it is not."""
    for idx, a in enumerate(clause):
        if a["blk"]:
            if not any(ref_match(a, q) for q in final if q[:3] != owner[:3]):
                return "blocker-clear"
        else:
            hit = [q for q in final if ref_match(a, q)]
            if hit:
                how = "self" if all(q[:3] == owner[:3] for q in hit) else ("installed" if all(q[3] == "inst" for q in hit) else "merged")
                return ("anyof-first" if idx == 0 else "anyof-later") if len(clause) > 1 else how
    return None


def validate(final, targets, deps_of):
    """final: set of (name, ver, slot, origin 'inst'|'src'); deps_of[(name,ver,slot)] -> {CLS: depstring} for source
    packages.  Returns (messages, clause_classes)."""
    msgs = []
    cc = {}
    for t in targets:
        a = parse_atom(t)
        if not any(ref_match(a, q) for q in final):
            msgs.append(("target", f"target {t} is matched by no package of the final state"))
    seen = {}
    for q in sorted(final):
        k = (q[0], q[2])
        if k in seen:
            msgs.append(("slot", f"two packages in slot {CAT}/{q[0]}:{q[2]}: {fmt_pkg(seen[k])} and {fmt_pkg(q)}"))
        seen[k] = q
    for q in sorted(final):
        if q[3] != "src":
            continue
        for c in CLS:
            s = deps_of[q[:3]].get(c, "")
            for clause in parse_dep(s):
                st = clause_status(clause, q, final)
                if st is None:
                    kind = "blocker" if all(a["blk"] for a in clause) else "dependency"
                    txt = clause[0]["text"] if len(clause) == 1 else "|| ( " + " ".join(a["text"] for a in clause) + " )"
                    msgs.append((f"{c}-{kind}", f"{c} {kind} {txt} of merged {fmt_pkg(q)} is not satisfied by the final state", [c, txt, fmt_pkg(q)]))
                else:
                    k = f"clause|{c}|{st}"
                    cc[k] = cc.get(k, 0) + 1
    return msgs, cc


def fmt_pkg(q):
    return f"{CAT}/{q[0]}-{q[1]}:{q[2]}" + ("[installed]" if len(q) > 3 and q[3] == "inst" else "")


# ------------------------------------------------------------------ real side

KINDS = {
    # name: (factory attr, use empty-tree class, verify_vdb)
    "upgrade": ("upgrade_resolver", False, True),
    "min": ("min_install_resolver", False, True),
    "empty": ("upgrade_resolver", True, True),
    "upgrade-shallow": ("upgrade_resolver", False, False),
    "min-shallow": ("min_install_resolver", False, False),
    "empty-shallow": ("upgrade_resolver", True, False),
}


class StepBudget(Exception):
    pass


_counting = {}


def _counting_cls(empty):
    """merge_plan / empty_tree_merge_plan with a per-instance iteration counter (resolver_cls is a documented hook)."""
    c = _counting.get(empty)
    if c is None:
        from pkgcore.ebuild import resolver
        from pkgcore.resolver import plan

        base = resolver.empty_tree_merge_plan if empty else plan.merge_plan

        class counting(base):
            _verif_steps = 0

            def notify_trying_choice(self, stack, atom, choices):
                self._verif_steps += 1
                if self._verif_steps > STEP_BUDGET:
                    raise StepBudget()
                return base.notify_trying_choice(self, stack, atom, choices)

        c = _counting[empty] = counting
    return c


def build_trees(uni):
    """uni = {"src": [[name, ver, slot, {CLS: str}], ...], "inst": [[name, ver, slot, {..}], ...]} -> (vdb, src, index)
    index maps id(pkg) -> (name, ver, slot, origin)."""
    from pkgcore.repository.util import SimpleTree
    from pkgcore.test.misc import FakePkg

    index = {}
    trees = []
    for origin, livefs in (("inst", True), ("src", False)):
        cpvs = {}
        objs = {}
        tree = SimpleTree(cpvs, pkg_klass=None, livefs=livefs, repo_id=origin)
        for name, ver, slot, deps in uni[origin]:
            cpvs.setdefault(CAT, {}).setdefault(name, []).append(str(ver))
            p = FakePkg(f"{CAT}/{name}-{ver}", eapi="8", slot=slot, repo=tree, data={k: v for k, v in deps.items() if v})
            objs[(CAT, name, str(ver))] = p
            index[id(p)] = (name, ver, slot, origin)
        tree.package_class = lambda c, p, v, _o=objs: _o[(c, p, v)]  # one instance per cpv, as real repos give
        trees.append((tree, objs))
    return trees[0][0], trees[1][0], index, (trees[0][1], trees[1][1])


def _ident(pkg, index):
    t = index.get(id(pkg))
    if t is None:
        raw = getattr(pkg, "_raw_pkg", None)
        if raw is not None:
            t = index.get(id(raw))
    if t is None:
        raise RuntimeError(f"op refers to a package the harness did not create: {pkg!r}")
    return t


def resolve(uni, targets, kind, trees=None, flow="atoms"):
    """-> dict(outcome='crash'|'fail'|'ok', ops=[...], exc=str).  flow: 'atoms' = one add_atoms(targets) call;
    'seq' = one add_atom call per target through the same resolver, stopping at the first failure; 'retry' = pmerge's
    --ignore-failures loop: on failure drop the failed target, reset() the same resolver and add_atoms the rest
    (res['resolved'] = the targets finally resolved, outcome 'fail' only if none is left)."""
    from pkgcore.ebuild import resolver
    from pkgcore.ebuild.atom import atom

    vdb, src, index, _ = trees or build_trees(uni)
    fname, empty, verify = KINDS[kind]
    res = {"ops": [], "exc": "", "stage": ""}
    try:
        res["stage"] = "construct"
        r = getattr(resolver, fname)([vdb], [src], verify_vdb=verify, resolver_cls=_counting_cls(empty))
        res["stage"] = "resolve"
        res["resolved"] = list(targets)
        if flow == "atoms":
            ret = r.add_atoms([atom(t) for t in targets])
        elif flow == "seq":
            ret = ()
            for t in targets:
                ret = r.add_atom(atom(t))
                if ret:
                    break
        elif flow == "retry":
            left = list(targets)
            ret = r.add_atoms([atom(t) for t in left])
            while ret and left:
                failed = str(ret[0][0])
                if failed not in left:
                    raise RuntimeError(f"failed restriction {failed!r} is not one of the targets {left}")
                left.remove(failed)
                r.reset()
                ret = r.add_atoms([atom(t) for t in left]) if left else ((None,),)
            res["resolved"] = left
        else:
            raise ValueError(flow)
        res["stage"] = "read-plan"
        for op in r.state.iter_ops(True):
            o = [op.desc, list(_ident(op.pkg, index))]
            if op.desc == "replace":
                o.append(list(_ident(op.old_pkg, index)))
            res["ops"].append(o)
    except StepBudget:
        res["outcome"] = "crash"
        res["exc"] = f"no result after {STEP_BUDGET} choice iterations (non-terminating)"
        return res
    except Exception as e:
        res["outcome"] = "crash"
        res["exc"] = re.sub(r" ?@(0x)?[0-9a-f]{6,}", "", f"{type(e).__name__}: {str(e).splitlines()[0] if str(e) else ''}")[:300]
        return res
    res["outcome"] = "fail" if ret else "ok"
    return res


def final_state(uni, ops):
    """Sequentially apply the ops to the installed set.  -> (final set, merged list, messages)"""
    final = {(n, v, s, "inst") for n, v, s, _ in uni["inst"]}
    msgs = []
    for o in ops:
        desc, pkg = o[0], tuple(o[1])
        if desc == "add":
            final.add(pkg)
        elif desc == "replace":
            old = tuple(o[2])
            if old not in final:
                msgs.append(("ops", f"replace of {fmt_pkg(old)} which is not in the state"))
            final.discard(old)
            final.add(pkg)
        elif desc == "remove":
            if pkg not in final:
                msgs.append(("ops", f"remove of {fmt_pkg(pkg)} which is not in the state"))
            final.discard(pkg)
        else:
            msgs.append(("ops", f"unknown op {desc}"))
    return final, msgs


def check_case(uni, targets, kind, trees=None):
    """-> (messages, info)  -- the single checking function shared by work() and replay()."""
    res = resolve(uni, targets, kind, trees)
    info = {"outcome": res["outcome"], "ops": res["ops"], "cc": {}, "tags": []}
    if res["outcome"] == "crash":
        info["tags"] = ["crash-" + res["stage"]]
        return [f"{kind} resolver raised while in stage {res['stage']}: {res['exc']}"], info
    if res["outcome"] == "fail":
        return [], info
    final, msgs = final_state(uni, res["ops"])
    deps_of = {(n, v, s): d for n, v, s, d in uni["src"]}
    m2, cc = validate(final, targets, deps_of)
    info["cc"] = cc
    info["final"] = sorted(final)
    msgs = msgs + m2
    info["tags"] = sorted({m[0] for m in msgs})
    info["unsat"] = [m[2] for m in msgs if len(m) > 2]
    msgs = [m[1] for m in msgs]
    if msgs:
        plan = ", ".join(
            (f"{o[0]} {fmt_pkg(o[1])}" + (f" (was {fmt_pkg(o[2])})" if len(o) > 2 else "")) for o in res["ops"]
        )
        msgs = [f"{kind} resolver reported success for {' '.join(targets)} with plan [{plan}]: " + m for m in msgs]
    return msgs, info


# ------------------------------------------------------------------ universes

X_MENU = ["a/y", ">=a/y-2", "|| ( a/y a/z )", "|| ( a/w a/y )", "!a/z", "!!a/z", "!<a/y-2", "a/x", "a/w"]
Y_MENU = ["a/z", "a/x", ">=a/x-2", "|| ( a/z a/x )", "!a/z", "!!<a/x-2"]
SMALL_X = ["a/y", "!a/z", "|| ( a/z a/y )"]
SMALL_Y = ["a/z", "a/x", "!!a/z"]
SMALL_Z = ["a/y", "a/x", "!<a/x-2"]
# F5: one blocker atom carried by two packages, the second holder (y-2) abandoned because of a missing dependency
SHARED_X = ["!!a/z a/y", "!a/z a/y"]
SHARED_Y = ["!!a/z a/w", "!a/z a/w"]
# F6: a candidate (x-2) whose dependencies resolve but whose insertion an already planned package (z-1) refuses
REFUSE_Z = [{"RDEPEND": "!!>=a/x-2"}, {"DEPEND": "!>=a/x-2"}]
REFUSED_X = ["a/y", "|| ( a/w a/y )"]
REFUSED_Y = [">=a/x-2", "a/x"]

INST_ALL = [list(c) for r in range(4) for c in itertools.combinations(["x", "y", "z"], r)]
INST_Q = [[], ["x"], ["z"], ["x", "y", "z"]]
TARGETS_Q = [["a/x"], ["=a/x-1"], ["a/x", "a/z"]]
TARGETS_T = TARGETS_Q + [["a/z", "a/x"], ["a/y"], ["a/x:0", "a/y"]]
KINDS_Q = ["upgrade", "min", "empty", "min-shallow"]
KINDS_T = ["upgrade", "min", "empty", "upgrade-shallow", "min-shallow", "empty-shallow"]


def one_class(menu):
    out = [{}]
    for c in CLS:
        for m in menu:
            out.append({c: m})
    return out


def two_class(menu):
    out = one_class(menu)
    for c1, c2 in itertools.combinations(CLS, 2):
        for m1 in menu:
            for m2 in menu:
                out.append({c1: m1, c2: m2})
    return out


def mk_uni(dx1, dx2, dy2, sx2="0", dz1=None, inst=(), mirror=False):
    src = [
        ["x", 1, "0", dx1],
        ["x", 2, sx2, dx2],
        ["y", 1, "0", {}],
        ["y", 2, "0", dy2],
        ["z", 1, "0", dz1 or {}],
    ]
    by = {p[0]: p for p in src if p[1] == 1}
    return {"src": src, "inst": [[n, 1, "0", dict(by[n][3]) if mirror else {}] for n in inst]}


def installed_consistent(uni):
    """The installed tree alone satisfies every clause of every installed package (used for the mirrored families only)."""
    final = {(n, v, s, "src") for n, v, s, _ in uni["inst"]}
    msgs, _ = validate(final, [], {(n, v, s): d for n, v, s, d in uni["inst"]})
    return not msgs


X3 = ("DEPEND", "RDEPEND", "PDEPEND")


def some_class(menu, classes):
    return [{}] + [{c: m} for c in classes for m in menu]


def extra_families():
    out = []
    for d in one_class(SHARED_X)[1:]:
        for e in one_class(SHARED_Y)[1:]:
            out.append(("F5", {}, d, e, "0", {}, "q", False, [["a/x", "a/z"]]))
    for g in REFUSE_Z:
        for d in one_class(REFUSED_X)[1:]:
            for e in one_class(REFUSED_Y)[1:]:
                out.append(("F6", {}, d, e, "0", g, "q", False, [["a/z", "a/x"]]))
    # F6b: the refused candidate's fallback version (x-1) carries dependencies of its own
    for g in REFUSE_Z:
        for d in ({}, {"DEPEND": "a/y"}):
            for f in one_class(["a/y", ">=a/y-2"])[1:]:
                out.append(("F6", f, d, {}, "0", g, "q", False, [["a/z", "a/x"]]))
    return out


def family(tier):
    """-> list of (family name, dx1, dx2, dy2, sx2, dz1, inst-list-name, mirror[, target lists])  (fixed, ordered, finite;
    simplest first)."""
    out = []
    if tier == "quick":
        for d in one_class(X_MENU):
            out.append(("F0", {}, d, {}, "1", {}, "all", False))
        for d in two_class(X_MENU):
            out.append(("F1", {}, d, {}, "0", {}, "all", False))
        for d in one_class(X_MENU)[1:]:
            for e in one_class(Y_MENU)[1:]:
                out.append(("F2", {}, d, e, "0", {}, "q", False))
        for f in one_class(SMALL_X)[1:]:
            for d in some_class(SMALL_X, X3):
                out.append(("F4", f, d, {}, "0", {}, "all", True))
        return out + extra_families()
    for sx2 in ("0", "1"):
        for d in two_class(X_MENU):
            out.append(("F1", {}, d, {}, sx2, {}, "all", False))
    for f in [{}, {"RDEPEND": "a/y"}, {"DEPEND": "!a/z"}, {"PDEPEND": "|| ( a/z a/y )"}]:
        for d in one_class(X_MENU)[1:]:
            for e in one_class(Y_MENU)[1:]:
                out.append(("F2", f, d, e, "0", {}, "all", False))
    for f in some_class(SMALL_X, X3)[1:]:
        for d in some_class(SMALL_X, X3)[1:]:
            for e in some_class(SMALL_Y, X3)[1:]:
                for g in some_class(SMALL_Z, X3)[1:]:
                    out.append(("F3", f, d, e, "0", g, "q", False))
    for f in one_class(X_MENU)[1:]:
        for d in one_class(SMALL_X):
            out.append(("F4", f, d, {}, "0", {}, "all", True))
    return out + extra_families()


def dims(tier):
    return (TARGETS_Q, KINDS_Q) if tier == "quick" else (TARGETS_T, KINDS_T)


CHUNK = {"quick": 12, "thorough": 60}


def tasks(tier):
    n = len(family(tier))
    c = CHUNK[tier]
    return [(tier, i, min(i + c, n)) for i in range(0, n, c)]


def shape(info):
    if info["outcome"] != "ok":
        return info["outcome"]
    descs = [o[0] for o in info["ops"]]
    nm = sum(1 for o in info["ops"] if o[1][3] == "src")
    return "ok-merge%s%s" % (min(nm, 3), "+replace" if "replace" in descs else "")


def cases_of(tier, lo, hi, fam=None):
    fam = fam if fam is not None else family(tier)
    targets, kinds = dims(tier)
    for i in range(lo, hi):
        if fam[i][0] == "RAW":  # ("RAW", family name, source package list, installed-tree options, target lists)
            _, fname, src, inst_options, tg = fam[i]
            for inst in inst_options:
                yield fname, {"src": [list(p) for p in src], "inst": [list(p) for p in inst]}, tg, kinds
            continue
        fname, dx1, dx2, dy2, sx2, dz1, il, mirror = fam[i][:8]
        tg = fam[i][8] if len(fam[i]) > 8 else targets
        for inst in INST_ALL if il == "all" else INST_Q:
            uni = mk_uni(dx1, dx2, dy2, sx2, dz1, inst, mirror)
            if mirror and not installed_consistent(uni):
                continue
            yield fname, uni, tg, kinds


def work(task):
    tier, lo, hi = task
    evals = 0
    classes = {}
    viol = []
    samples = []
    for fname, uni, targets, kinds in cases_of(tier, lo, hi):
        trees = build_trees(uni)
        for t in targets:
            for k in kinds:
                evals += 1
                msgs, info = check_case(uni, t, k, trees)
                key = f"res|{k}|{shape(info)}" + ("|BAD" if msgs else "")
                classes[key] = classes.get(key, 0) + 1
                for ck, n in info["cc"].items():
                    classes[ck] = classes.get(ck, 0) + n
                if msgs:
                    viol.append(make_case(uni, t, k, msgs[0], info))
                elif not samples and info["outcome"] == "ok" and len(info["ops"]) > 1:
                    samples.append({"universe": slim(uni), "targets": t, "kind": k, "ops": info["ops"]})
    viol.sort(key=lambda c: len(json.dumps(c)))
    return {"evals": evals, "classes": classes, "viol": viol, "samples": samples}


def slim(uni):
    return {
        "src": [[n, v, s, d] for n, v, s, d in uni["src"]],
        "inst": [[n, v, s, d] for n, v, s, d in uni["inst"]],
    }


def make_case(uni, targets, kind, msg, info):
    what = "crash" if info["outcome"] == "crash" else "invalid-plan"
    c = {"what": what, "tags": info["tags"], "uni": slim(uni), "targets": list(targets), "kind": kind, "msg": msg}
    if what == "invalid-plan":
        c["unsat"] = info.get("unsat", [])
        c["final"] = [fmt_pkg(q) for q in info.get("final", [])]
    return c


def replay(case):
    msgs, _ = check_case(case["uni"], case["targets"], case["kind"])
    return msgs


# ------------------------------------------------------------------ classifiers for known findings


def _k_construct_typeerror(case):
    """Constructing any resolver raises TypeError: merge_plan.__init__ hands the (unhashable) vdb_filter set to the
    instance-cached restriction class MutableContainmentRestriction."""
    m = case.get("msg", "")
    return case.get("what") == "crash" and "stage construct" in m and "TypeError" in m and "MutableContainmentRestriction" in m


def _k_idepend_ignored(case):
    """The only unsatisfied clauses are IDEPEND clauses of merged packages (choice_point reads IDEPEND from PDEPEND)."""
    tags = case.get("tags") or []
    return case.get("what") == "invalid-plan" and bool(tags) and all(t in ("IDEPEND-dependency", "IDEPEND-blocker") for t in tags)


def _k_slot_cycle_wrong_version(case):
    """Every unsatisfied clause is a single versioned atom, the final state holds a source package of that name with a version
    the atom rejects, and that package depends (transitively, by package name) on the clause's owner -- i.e. the rejected
    version was on the resolution stack when the atom was looked at (check_for_cycles accepts any same-name same-slot
    package on the stack as satisfying an atom)."""
    tags = case.get("tags") or []
    if case.get("what") != "invalid-plan" or not tags or not all(t.endswith("-dependency") for t in tags):
        return False
    unsat = case.get("unsat") or []
    if not unsat:
        return False
    fin = []
    for f in case.get("final") or []:
        inst = f.endswith("[installed]")
        m = re.match(r"^a/([a-z]+)-(\d+(?:-r\d+)?):(\w+)", f)
        name, ver, slot = m.group(1), m.group(2), m.group(3)
        fin.append((name, _ver_like(case, name, ver), slot, "inst" if inst else "src"))
    deps = {(n, v, s): d for n, v, s, d in case["uni"]["src"]}
    edges = {}
    for q in fin:
        if q[3] != "src":
            continue
        for c in CLS:
            for clause in parse_dep(deps[q[:3]].get(c, "")):
                for a in clause:
                    if not a["blk"]:
                        edges.setdefault(q[0], set()).add(a["name"])

    def reaches(src, dst):
        seen, todo = set(), [src]
        while todo:
            n = todo.pop()
            for m in edges.get(n, ()):
                if m == dst:
                    return True
                if m not in seen:
                    seen.add(m)
                    todo.append(m)
        return False

    for _cls, txt, owner in unsat:
        if txt.startswith("||"):
            return False
        a = parse_atom(txt)
        if not a["op"]:
            return False
        owner_name = re.match(r"^a/([a-z]+)-", owner).group(1)
        wrong = [q for q in fin if q[0] == a["name"] and q[3] == "src" and not ref_match(a, q)]
        if not wrong or not reaches(a["name"], owner_name):
            return False
    return True


def _ver_like(case, name, ver):
    """Version text back to the representation the universe uses for that package name (int or 'N[-rM]' string)."""
    for n, v, _s, _d in case["uni"]["src"] + case["uni"]["inst"]:
        if n == name and str(v) == ver:
            return v
    return int(ver) if ver.isdigit() else ver


def _parse_final(case):
    fin = []
    for f in case.get("final") or []:
        inst = f.endswith("[installed]")
        m = re.match(r"^a/([a-z]+)-(\d+(?:-r\d+)?):(\w+)", f)
        name, ver, slot = m.group(1), m.group(2), m.group(3)
        fin.append((name, _ver_like(case, name, ver), slot, "inst" if inst else "src"))
    return fin


def _refused_top(case, name, fin):
    """The highest source version of ``name`` is matched by a blocker that a merged package of the final state carries."""
    tops = [p for p in case["uni"]["src"] if p[0] == name]
    if not tops:
        return None
    top = max(tops, key=lambda p: vkey(p[1]))
    deps = {(n, v, s): d for n, v, s, d in case["uni"]["src"]}
    for q in fin:
        if q[3] != "src" or q[0] == name:
            continue
        for c in CLS:
            for clause in parse_dep(deps[q[:3]].get(c, "")):
                for a in clause:
                    if a["blk"] and ref_match(a, tuple(top[:3])):
                        return top
    return None


def _k_refused_presolved(case):
    """Every unsatisfied clause is a single versioned atom on package name N, the final state keeps an installed N that the
    atom rejects, and the highest source version of N is matched by a blocker of a merged package: insert_choice treats
    the atom as 'already in the plan' once the installed node was loaded for the refused candidate, and the dependencies
    resolved for that candidate stay planned."""
    tags = case.get("tags") or []
    if case.get("what") != "invalid-plan" or not tags or not all(t.endswith("-dependency") for t in tags):
        return False
    fin = _parse_final(case)
    unsat = case.get("unsat") or []
    if not unsat:
        return False
    for _cls, txt, _owner in unsat:
        if txt.startswith("||"):
            return False
        a = parse_atom(txt)
        if not a["op"]:
            return False
        if not any(q[0] == a["name"] and q[3] == "inst" and not ref_match(a, q) for q in fin):
            return False
        if _refused_top(case, a["name"], fin) is None:
            return False
    return True


def _k_stale_dependency_lists(case):
    """Every unsatisfied clause belongs to a merged package that is not the highest source version of its name, and that
    highest version is matched by a blocker of a merged package: after the refused insertion choice_point.force_next_pkg
    moves to the next candidate without re-reading its dependency lists, so the fallback's own dependencies are never
    looked at."""
    if case.get("what") != "invalid-plan":
        return False
    fin = _parse_final(case)
    unsat = case.get("unsat") or []
    if not unsat:
        return False
    for _cls, _txt, owner in unsat:
        m = re.match(r"^a/([a-z]+)-(\d+(?:-r\d+)?):", owner)
        name, ver = m.group(1), m.group(2)
        top = _refused_top(case, name, fin)
        if top is None or vcmp(ver, top[1]) >= 0:
            return False
    return True


CLASSIFIERS = {
    "refused-candidate-presolved-by-installed-node": _k_refused_presolved,
    "fallback-candidate-walked-with-stale-dependency-lists": _k_stale_dependency_lists,
    "slot-cycle-accepts-wrong-version": _k_slot_cycle_wrong_version,
    "resolver-construction-unhashable-filter": _k_construct_typeerror,
    "idepend-read-from-pdepend": _k_idepend_ignored,
}
