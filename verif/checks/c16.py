"""C16 resolver choice policy (highest version for upgrades, reuse for minimal installs) and determinism.

Same universes and real entry points as C15 (``verif.checks.c15`` builds the trees and runs the resolver); the premise
"the highest matching version is resolvable" is decided by a complete brute-force search over every final state of the
universe, judged by C15's plain-Python validator.
"""

import itertools
import json
import os
import subprocess
import sys

from verif.checks import c15

PROPERTY = "C16"
LEVEL = "exploration"
ENGINE = "enum"
TECHNIQUE = "exhaustive enumeration of repository universes x targets x strategies; resolvability premise by complete brute force over final states; repeated and cross-hash-seed resolution compared op by op"
RULE = (
    "every universe of the C15 families x every installed subset x every target list is resolved through the real "
    "upgrade_resolver / min_install_resolver (verify_vdb True and False) and empty_tree_merge_plan. (U) upgrade: when a "
    "brute-force search over all final states of the universe (keep / replace-in-slot / add per (name, slot); no removals) "
    "finds a valid, cycle-free final state holding, for every target, the highest version matching it (and the source "
    "repository has no dependency cycle), the resolver must "
    "succeed and its final state must hold that version for every target, as the installed instance when the installed "
    "tree has that version. (M) min-install: when every target is matched by an installed package the resolver must "
    "succeed, keep an installed match and merge nothing matching a target. A target whose highest version is held by no "
    "valid final state at all is required at its highest lower version that a witness holds (without obligation for it), so "
    "the other targets of the list keep their obligations. Multi-target lists are also run through pmerge's failure loop on "
    "ONE resolver (drop the failed target, reset(), resolve the rest): when a target was dropped the op list must equal "
    "that of a fresh resolver given the remaining targets and (U)/(M) apply to them; families F7/F8 also use one add_atom "
    "call per target. (D) every input resolved twice in one process "
    "gives the same op list; a fixed slice is also resolved in sub-processes under PYTHONHASHSEED 0,1,2 and the op lists "
    "compared. A class is (clause, resolver kind, outcome shape / premise outcome)."
)
ASSUMPTIONS = c15.ASSUMPTIONS[:3] + [
    "'resolvable' is read conservatively: a witness final state must satisfy every clause of every package it holds "
    "(merged and kept installed), keep every installed package or replace it in its own slot, and its merged packages must "
    "not depend on each other in a cycle (self-dependencies count as cycles) and none of its blockers may match a package "
    "installed at the start (replaced or not); inputs without such a witness carry no obligation",
    "Excl: the highest-version clause carries no obligation in universes whose source repository has a dependency cycle between "
    "package names (any class, any version): which version is reachable through a cycle depends on merge order",
    "Excl: the highest-version clause is not applied to the empty-tree resolver (it never consults installed packages, so "
    "'preferring the installed instance' is not defined for it); it is covered by the determinism clause only",
    "Excl: the min-install clause is applied only when every target of the input is matched by an installed package",
    "the brute force is complete over the universe (at most 96 final states), so no doubled-universe re-check is needed",
]
BOUNDS = {
    "quick": c15.BOUNDS["quick"] + " -- restricted to universes where x-2 carries at most one class (F2: y-2 in DEPEND/RDEPEND/PDEPEND only), plus F7 "
    "(dependency cycle entered through a dependency of z-1) and F8 (x-2 passing an earlier class and failing a later one); "
    "multi-target lists also through the retry flow (F7/F8 also one add_atom per target); 5 resolver kinds; "
    "hash-seed slice: every 40th universe under 3 seeds",
    "thorough": c15.BOUNDS["thorough"] + " -- restricted to F1, F4, F2 with dependency-free x-1, F3 with x-1 and x-2 using the "
    "same class; hash-seed slice: every 25th universe under 3 seeds",
}

U_KINDS = ("upgrade", "upgrade-shallow")
M_KINDS = ("min", "min-shallow")
KINDS_Q = ["upgrade", "upgrade-shallow", "min", "min-shallow", "empty"]
KINDS_T = ["upgrade", "upgrade-shallow", "min", "min-shallow", "empty", "empty-shallow"]
SEEDS = (0, 1, 2)
SEED_STRIDE = {"quick": 40, "thorough": 25}

# ------------------------------------------------------------------ brute-force premise


def all_finals(uni, drop_installed=False):
    """Every final state reachable by keeping each installed package or replacing it in its slot (or, with
    drop_installed, removing it), and adding source packages to empty (name, slot) positions."""
    pos = {}
    for n, v, s, _ in uni["inst"]:
        pos.setdefault((n, s), []).append((n, v, s, "inst"))
    for k in list(pos):
        if len(pos[k]) != 1:
            raise RuntimeError("installed tree with two packages in one slot")
    installed_pos = set(pos)
    for n, v, s, _ in uni["src"]:
        pos.setdefault((n, s), []).append((n, v, s, "src"))
    keys = sorted(pos)
    choices = []
    for k in keys:
        c = list(pos[k])
        if k not in installed_pos or drop_installed:
            c = [None] + c
        choices.append(c)
    for combo in itertools.product(*choices):
        yield {q for q in combo if q is not None}


def dep_edges(final, deps_of):
    merged = [q for q in final if q[3] == "src"]
    edges = {q: set() for q in merged}
    for p in merged:
        for c in c15.CLS:
            for clause in c15.parse_dep(deps_of[p].get(c, "")):
                for a in clause:
                    if a["blk"]:
                        continue
                    for q in merged:
                        if c15.ref_match(a, q):
                            edges[p].add(q)
    return edges


def acyclic(edges):
    state = {}

    def visit(n):
        if state.get(n) == 1:
            return False
        if state.get(n) == 2:
            return True
        state[n] = 1
        for m in edges[n]:
            if not visit(m):
                return False
        state[n] = 2
        return True

    return all(visit(n) for n in sorted(edges))


def witnesses(uni):
    """-> (conservative witness final states, liberal ones).  Conservative: see ASSUMPTIONS.  Liberal: every final state
    (installed packages may also be dropped) that C15's validator accepts -- a version held by no liberal state cannot be
    part of any valid plan at all."""
    deps_of = {}
    for n, v, s, d in uni["src"]:
        deps_of[(n, v, s, "src")] = d
    for n, v, s, d in uni["inst"]:
        deps_of[(n, v, s, "inst")] = d
    cons = []
    for final in all_finals(uni):
        # judge every package of the state (installed ones too): present them all to the validator as 'merged'
        as_merged = {(q[0], q[1], q[2], "src") for q in final}
        if len(as_merged) != len(final):
            continue
        dm = {}
        for q in final:
            dm[q[:3]] = deps_of[q]
        msgs, _ = c15.validate(as_merged, [], dm)
        if msgs:
            continue
        if blocker_hits_initial(final, uni, deps_of):
            continue
        if not acyclic(dep_edges(final, deps_of)):
            continue
        cons.append(final)
    return {"cons": cons, "uni": uni}


def liberal(wit):
    """Computed on demand (only needed when a target's highest version sits in no conservative witness)."""
    if "lib" not in wit:
        uni = wit["uni"]
        src_deps = {(n, v, s): d for n, v, s, d in uni["src"]}
        wit["lib"] = [{(q[0], q[1]) for q in f} for f in all_finals(uni, drop_installed=True) if not c15.validate(f, [], src_deps)[0]]
    return wit["lib"]


def blocker_hits_initial(final, uni, deps_of):
    """A blocker of a package of the state matches a package installed at the start (even one the state replaces):
    whether such a plan can be carried out depends on merge order, which this check does not judge."""
    initial = [(n, v, s, "inst") for n, v, s, _ in uni["inst"]]
    for p in final:
        for c in c15.CLS:
            for clause in c15.parse_dep(deps_of[p].get(c, "")):
                for a in clause:
                    if a["blk"] and any(c15.ref_match(a, q) for q in initial if q[:3] != p[:3]):
                        return True
    return False


def highest_for(uni, target):
    a = c15.parse_atom(target)
    vs = [(v, n) for n, v, s, _ in uni["src"] + uni["inst"] if c15.ref_match(a, (n, v, s))]
    if not vs:
        return None
    v, n = max(vs, key=lambda t: (c15.vkey(t[0]), t[1]))
    return n, v


def source_cyclic(uni):
    """Some source package name depends (transitively, any class, any version) on itself."""
    edges = {}
    for n, v, s, d in uni["src"]:
        for c in c15.CLS:
            for clause in c15.parse_dep(d.get(c, "")):
                for a in clause:
                    if not a["blk"]:
                        edges.setdefault(n, set()).add(a["name"])
    for start in sorted(edges):
        seen, todo = set(), [start]
        while todo:
            for m in edges.get(todo.pop(), ()):
                if m == start:
                    return True
                if m not in seen:
                    seen.add(m)
                    todo.append(m)
    return False


def premise_upgrade(uni, targets, wit):
    """-> list of (target, (name, version)) obligations, or None when the input carries none.
    For every target: its highest matching version h is required when some conservative witness holds it; when no final
    state at all (liberal) holds h, no valid plan can contain it and the highest lower matching version that a conservative
    witness holds is required instead (without obligation); anything in between is left alone.  All required versions must
    sit together in one conservative witness; obligations are the targets whose required version is the highest one."""
    if source_cyclic(uni):
        return None
    chave = [{(q[0], q[1]) for q in w} for w in wit["cons"]]
    req, oblig = [], []
    for t in targets:
        a = c15.parse_atom(t)
        cands = sorted({(v, n) for n, v, s, _ in uni["src"] + uni["inst"] if c15.ref_match(a, (n, v, s))}, key=lambda t: (c15.vkey(t[0]), t[1]), reverse=True)
        if not cands:
            return None
        h = (cands[0][1], cands[0][0])
        if any(h in w for w in chave):
            req.append(h)
            oblig.append((t, h))
            continue
        if any(h in w for w in liberal(wit)):
            return None
        for v, n in cands[1:]:
            if any((n, v) in w for w in chave):
                req.append((n, v))
                break
            if any((n, v) in w for w in liberal(wit)):
                return None
        else:
            return None
    if not oblig or not any(all(r in w for r in req) for w in chave):
        return None
    return oblig


def good_witnesses(uni, targets, wit):
    """The conservative witnesses that hold every version premise_upgrade requires (recomputed for the classifier)."""
    cons = wit["cons"]
    req = []
    for t in targets:
        a = c15.parse_atom(t)
        cands = sorted({(v, n) for n, v, s, _ in uni["src"] + uni["inst"] if c15.ref_match(a, (n, v, s))}, key=lambda t: (c15.vkey(t[0]), t[1]), reverse=True)
        for v, n in cands:
            if any((n, v) in {(q[0], q[1]) for q in w} for w in cons):
                req.append((n, v))
                break
    return [w for w in cons if all(r in {(q[0], q[1]) for q in w} for r in req)]


# ------------------------------------------------------------------ the single checking function


def check_case(uni, targets, kind, wit=None, flow="atoms"):
    """-> (messages, info).  flow 'atoms': one add_atoms call, judged by (U)/(M)/(D).  flow 'seq': one add_atom call per
    target through the same resolver, judged the same way.  flow 'retry': pmerge's failure loop (drop the failed target,
    reset() the same resolver, resolve the rest); judged only when a target was dropped: the op list must equal that of a
    fresh resolver given the remaining targets (identical input after reset), and (U)/(M) apply to the remaining targets."""
    r1 = c15.resolve(uni, targets, kind, flow=flow)
    info = {"outcome": r1["outcome"], "ops": r1["ops"], "premise": "-", "tags": []}
    msgs = []
    if flow == "retry":
        left = r1.get("resolved", list(targets))
        if r1["outcome"] == "crash" or left == list(targets) or not left:
            info["premise"] = "retry-nothing-dropped" if left == list(targets) else "retry-nothing-left"
            info["outcome"] = "skip"
            return msgs, info
        r2 = c15.resolve(uni, left, kind)
        if (r1["outcome"], r1["ops"]) != (r2["outcome"], r2["ops"]):
            info["tags"].append("retry-differs-from-fresh")
            info["warm"] = [r1["outcome"], r1["ops"]]
            info["fresh"] = [r2["outcome"], r2["ops"]]
            info["left"] = list(left)
            msgs.append(
                f"{kind} resolver, targets {' '.join(targets)}: after dropping the failed target(s) and reset(), resolving "
                f"{' '.join(left)} gives {r1['outcome']} {r1['ops']} but a fresh resolver gives {r2['outcome']} {r2['ops']}"
            )
        targets = left
    else:
        r2 = c15.resolve(uni, targets, kind, flow=flow)
        if (r1["outcome"], r1["ops"], r1["exc"]) != (r2["outcome"], r2["ops"], r2["exc"]):
            info["tags"].append("nondeterministic")
            msgs.append(
                f"{kind} resolver, targets {' '.join(targets)}: two resolutions of the same input differ: "
                f"{r1['outcome']} {r1['ops']} vs {r2['outcome']} {r2['ops']}"
            )
    crashed = r1["outcome"] == "crash"
    how = f"raised in stage {r1['stage']} ({r1['exc']})" if crashed else "failed"
    final = None
    if r1["outcome"] == "ok":
        final, _ = c15.final_state(uni, r1["ops"])
    plan = ", ".join((f"{o[0]} {c15.fmt_pkg(o[1])}" + (f" (was {c15.fmt_pkg(o[2])})" if len(o) > 2 else "")) for o in r1["ops"])
    if kind in U_KINDS:
        if wit is None:
            wit = witnesses(uni)
        want = premise_upgrade(uni, targets, wit)
        info["premise"] = "U-resolvable" if want else "U-no-witness"
        if want:
            inst_have = {(n, v) for n, v, s, _ in uni["inst"]}
            if final is None:
                info["tags"].append("U-crashed" if crashed else "U-failed")
                msgs.append(
                    f"{kind} resolver {how} for {' '.join(targets)} although a valid final state holding "
                    + ", ".join(f"{c15.CAT}/{h[0]}-{h[1]}" for _, h in want)
                    + " exists"
                )
            else:
                for t, h in want:
                    got = [q for q in final if (q[0], q[1]) == h]
                    if not got:
                        a = c15.parse_atom(t)
                        sat = sorted(c15.fmt_pkg(q) for q in final if c15.ref_match(a, q))
                        info["tags"].append("U-not-highest")
                        msgs.append(
                            f"{kind} resolver, plan [{plan}]: target {t} is satisfied by {sat} although its highest "
                            f"matching version {c15.CAT}/{h[0]}-{h[1]} is resolvable"
                        )
                    elif h in inst_have and not any(q[3] == "inst" for q in got):
                        info["tags"].append("U-not-installed-instance")
                        msgs.append(
                            f"{kind} resolver, plan [{plan}]: target {t} re-merges {c15.CAT}/{h[0]}-{h[1]} although that "
                            "version is installed"
                        )
    elif kind in M_KINDS:
        atoms = [c15.parse_atom(t) for t in targets]
        inst = [(n, v, s, "inst") for n, v, s, _ in uni["inst"]]
        if all(any(c15.ref_match(a, q) for q in inst) for a in atoms):
            info["premise"] = "M-installed"
            if final is None:
                info["tags"].append("M-crashed" if crashed else "M-failed")
                msgs.append(f"{kind} resolver {how} for {' '.join(targets)} although installed packages match every target")
            else:
                for t, a in zip(targets, atoms):
                    if not any(q[3] == "inst" and c15.ref_match(a, q) for q in final):
                        info["tags"].append("M-not-kept")
                        msgs.append(f"{kind} resolver, plan [{plan}]: no installed package matching {t} is kept")
                    merged = sorted(c15.fmt_pkg(q) for q in final if q[3] == "src" and c15.ref_match(a, q))
                    if merged:
                        info["tags"].append("M-merged-another")
                        msgs.append(f"{kind} resolver, plan [{plan}]: merges {merged} for target {t} that an installed package already satisfies")
        else:
            info["premise"] = "M-not-installed"
    info["tags"] = sorted(set(info["tags"]))
    return msgs, info


# ------------------------------------------------------------------ hash-seed slice (sub-processes)


_fam = {}
SEQ_FAMILIES = ("F7", "F8", "F9")
BUILD2 = ("DEPEND", "RDEPEND")


def history_families():
    """Universes in which what a resolver did for an earlier target can leak into a later one.
    F7: a two-package dependency cycle x-2 <-> y-2 that z-1 enters through its own dependency (with all-DEPEND edges the
    cycle is unresolvable and z fails, while x or y asked for directly resolve).
    F8: x-2 resolves an earlier dependency class and fails a later one on a missing package; x-1 is the dependency-free fallback."""
    out = []
    for cz in BUILD2:
        for cx in BUILD2:
            for mx in (">=a/y-2", "a/y"):
                for cy in BUILD2:
                    for my in (">=a/x-2", "a/x"):
                        out.append(("F7", {}, {cx: mx}, {cy: my}, "0", {cz: ">=a/x-2"}, "q", False, [["a/z", "a/x"], ["a/z", "a/y"]]))
    for c1, c2 in (("DEPEND", "RDEPEND"), ("BDEPEND", "IDEPEND"), ("RDEPEND", "PDEPEND"), ("DEPEND", "PDEPEND")):
        for m in ("<a/y-2", "=a/y-1", "a/y", ">=a/y-2"):
            out.append(("F8", {}, {c1: m, c2: "a/w"}, {}, "0", {}, "q", False, [["a/x", "a/y"], ["a/y", "a/x"]]))
    return out + revision_families()


REV_SETS = (
    (["1", "1-r1"], [[], ["1"]]),
    (["1-r1", "1-r2", "1"], [[], ["1-r1"], ["1"]]),
)


def revision_families():
    """F9: revision-only bumps.  a/y exists at one PV with several revisions (source {1, 1-r1} with 1 installed or not;
    source {1-r1, 1-r2, 1} with 1-r1 or 1 installed or nothing), asked for as a target and pulled in as a dependency of
    x-1 before being asked for.  Versions are 'N[-rM]' strings, ordered by verif.ref's full version+revision comparison."""
    out = []
    for vers, insts in REV_SETS:
        for dx in ({}, {"DEPEND": "a/y"}, {"RDEPEND": "a/y"}, {"PDEPEND": "a/y"}, {"RDEPEND": ">=a/y-1-r1"}):
            src = [["x", "1", "0", dx]] + [["y", v, "0", {}] for v in vers]
            inst_options = [[["y", v, "0", {}] for v in i] for i in insts]
            targets = [["a/y"], ["a/x", "a/y"], ["=a/y-" + vers[0]], [">=a/y-1"]] if dx else [["a/y"], ["=a/y-" + vers[0]], [">=a/y-1"], ["a/y", "a/x"]]
            out.append(("RAW", "F9", src, inst_options, targets))
    return out


def family(tier):
    """C15's families; the quick tier keeps only the universes where x-2 carries at most one dependency class, the thorough
    tier keeps F1, F4, F2 with a dependency-free x-1 and F3 where x-1 and x-2 use the same class."""
    if tier not in _fam:
        f = c15.family(tier)
        if tier == "quick":
            f = [e for e in f if (len(e[2]) <= 1 or e[0] in ("F5", "F6")) and not (e[0] == "F2" and set(e[3]) - set(c15.X3))]
        else:
            f = [e for e in f if e[0] in ("F1", "F4", "F5", "F6") or (e[0] == "F2" and not e[1]) or (e[0] == "F3" and list(e[1]) == list(e[2]))]
        _fam[tier] = f + history_families()
    return _fam[tier]


def seed_slice(tier):
    fam = family(tier)
    return list(range(0, len(fam), SEED_STRIDE[tier]))


def compute_oplists(tier, idxs):
    """All op lists of the given family indices, in enumeration order (run inside the seeded sub-process too)."""
    out = []
    _, kinds = dims(tier)
    for i in idxs:
        for fname, uni, targets, _k in c15.cases_of(tier, i, i + 1, family(tier)):
            for t in targets:
                for k in kinds:
                    r = c15.resolve(uni, t, k)
                    out.append([i, uni["inst"], t, k, r["outcome"], r["ops"], r["exc"]])
    return out


def run_seeded(seed, payload):
    env = dict(os.environ)
    env["PYTHONHASHSEED"] = str(seed)
    p = subprocess.run([sys.executable, "-m", "verif.checks.c16"], input=json.dumps(payload), capture_output=True, text=True, env=env)
    if p.returncode != 0:
        raise RuntimeError(f"seeded sub-process failed rc={p.returncode}: {p.stderr[-800:]}")
    return json.loads(p.stdout)


def check_seeds_case(uni, targets, kind):
    outs = {}
    for s in SEEDS:
        outs[s] = run_seeded(s, {"mode": "one", "uni": uni, "targets": targets, "kind": kind})
    base = outs[SEEDS[0]]
    for s in SEEDS[1:]:
        if outs[s] != base:
            return [
                f"{kind} resolver, targets {' '.join(targets)}: PYTHONHASHSEED={SEEDS[0]} gives {base[0]} {base[1]} but "
                f"PYTHONHASHSEED={s} gives {outs[s][0]} {outs[s][1]}"
            ]
    return []


# ------------------------------------------------------------------ tasks / work / replay


def dims(tier):
    t, _ = c15.dims(tier)
    return t, (KINDS_Q if tier == "quick" else KINDS_T)


def tasks(tier):
    nfam = len(family(tier))
    c = c15.CHUNK[tier]
    out = [("enum", tier, i, min(i + c, nfam)) for i in range(0, nfam, c)]
    sl = seed_slice(tier)
    n = 6 if tier == "quick" else 24
    step = max(1, (len(sl) + n - 1) // n)
    out += [("seeds", tier, sl[i : i + step]) for i in range(0, len(sl), step)]
    return out


def work(task):
    if task[0] == "seeds":
        return work_seeds(task)
    _, tier, lo, hi = task
    targets, kinds = dims(tier)
    evals = 0
    classes = {}
    viol = []
    samples = []
    for fname, uni, tlists, _k in c15.cases_of(tier, lo, hi, family(tier)):
        wit = witnesses(uni)
        for t in tlists:
            flows = ["atoms"] if len(t) < 2 else (["atoms", "retry", "seq"] if fname in SEQ_FAMILIES else ["atoms", "retry"])
            for k in kinds:
                for flow in flows:
                    msgs, info = check_case(uni, t, k, wit, flow)
                    if info["outcome"] == "skip":
                        continue
                    evals += 1
                    if flow == "atoms":
                        key = f"{k}|{info['premise']}|{c15.shape(info)}" + ("|BAD" if msgs else "")
                    else:
                        key = f"flow-{flow}|{info['premise']}|{info['outcome']}" + ("|BAD" if msgs else "")
                    classes[key] = classes.get(key, 0) + 1
                    if msgs:
                        c = {"what": "policy", "tags": info["tags"], "uni": c15.slim(uni), "targets": list(t), "kind": k, "msg": msgs[0]}
                        if flow != "atoms":
                            c["flow"] = flow
                        for extra in ("warm", "fresh", "left"):
                            if extra in info:
                                c[extra] = info[extra]
                        viol.append(c)
                    elif not samples and info["premise"] == "U-resolvable" and len(info["ops"]) > 1:
                        samples.append({"universe": c15.slim(uni), "targets": t, "kind": k, "ops": info["ops"]})
    viol.sort(key=lambda c: len(json.dumps(c)))
    return {"evals": evals, "classes": classes, "viol": viol, "samples": samples}


def work_seeds(task):
    _, tier, idxs = task
    outs = {s: run_seeded(s, {"mode": "slice", "tier": tier, "idxs": idxs}) for s in SEEDS}
    base = outs[SEEDS[0]]
    viol = []
    classes = {}
    for s in SEEDS[1:]:
        if len(outs[s]) != len(base):
            raise RuntimeError("seeded sub-processes enumerated different inputs")
    fam = family(tier)
    for j, rec in enumerate(base):
        same = all(outs[s][j] == rec for s in SEEDS[1:])
        k = f"seeds|{rec[3]}|{'same' if same else 'DIFFER'}"
        classes[k] = classes.get(k, 0) + 1
        if not same:
            i, inst, t, kind = rec[0], rec[1], rec[2], rec[3]
            uni = next(u for _f, u, _t, _k in c15.cases_of(tier, i, i + 1, fam) if json.loads(json.dumps(u["inst"])) == inst)
            viol.append({"what": "seeds", "tags": ["nondeterministic-hashseed"], "uni": c15.slim(uni), "targets": t, "kind": kind,
                         "msg": f"{kind} resolver, targets {' '.join(t)}: op list depends on PYTHONHASHSEED"})
    return {"evals": len(base) * len(SEEDS), "classes": classes, "viol": viol, "samples": []}


def replay(case):
    if case["what"] == "seeds":
        return check_seeds_case(case["uni"], case["targets"], case["kind"])
    msgs, _ = check_case(case["uni"], case["targets"], case["kind"], flow=case.get("flow", "atoms"))
    return msgs


def _k_needs_lower_dependency(case):
    """The upgrade resolver fails (or settles for a lower target version) and every witness final state holding the highest
    target versions leaves out the highest version of some package that is in a blocker conflict (either direction) with a
    package of that witness: the resolver commits to its first pick (highest version / first any-of alternative) and does
    not come back to it when a blocker makes that pick collide with a later target or dependency."""
    tags = case.get("tags") or []
    if case.get("what") != "policy" or not tags or not set(tags) <= {"U-failed", "U-not-highest"}:
        return False
    uni, targets = case["uni"], case["targets"]
    wit = witnesses(uni)
    want = premise_upgrade(uni, targets, wit)
    if not want:
        return False
    good = good_witnesses(uni, targets, wit)
    if not good:
        return False
    tops = {}
    for n, v, s, d in uni["src"]:
        if n not in tops or c15.vcmp(v, tops[n][1]) > 0:
            tops[n] = (n, v, s, d)
    deps = {(n, v, s): d for n, v, s, d in uni["src"]}

    def blockers(d):
        return [a for c in c15.CLS for clause in c15.parse_dep(d.get(c, "")) for a in clause if a["blk"]]

    for w in good:
        have = {(q[0], q[1]) for q in w}
        explained = False
        for n, v, s, d in tops.values():
            if (n, v) in have:
                continue
            if any(c15.ref_match(b, r) for b in blockers(d) for r in w if r[0] != n):
                explained = True
            for r in w:
                if r[3] == "src" and r[0] != n and any(c15.ref_match(b, (n, v, s)) for b in blockers(deps[r[:3]])):
                    explained = True
        if not explained:
            return False
    return True


def _k_construct_typeerror(case):
    """Constructing the resolver raises TypeError (see C15 resolver-construction-unhashable-filter), so no target is satisfied."""
    m = case.get("msg", "")
    tags = case.get("tags") or []
    return bool(tags) and set(tags) <= {"U-crashed", "M-crashed"} and "stage construct" in m and "TypeError" in m and "MutableContainmentRestriction" in m


def _k_warm_cache_finds_more(case):
    """After reset() the same resolver finds a plan that is at least as good as the fresh resolver's for every remaining
    target, in a universe with a dependency cycle: inside a cycle the nested lookup of an atom shares the partially consumed
    cached iterator of the outer lookup (caching_repo / caching_iter), so a cold resolver sees 'no matches' / runs out of
    candidates where a warm one does not."""
    if case.get("tags") != ["retry-differs-from-fresh"] or "warm" not in case or not source_cyclic(case["uni"]):
        return False
    (wo, wops), (fo, fops) = case["warm"], case["fresh"]
    if wo != "ok":
        return False
    if fo != "ok":
        return True
    wf, _ = c15.final_state(case["uni"], wops)
    ff, _ = c15.final_state(case["uni"], fops)
    for t in case["left"]:
        a = c15.parse_atom(t)
        wv = max([q[1] for q in wf if c15.ref_match(a, q)], key=c15.vkey, default=None)
        fv = max([q[1] for q in ff if c15.ref_match(a, q)], key=c15.vkey, default=None)
        if fv is not None and (wv is None or c15.vcmp(wv, fv) < 0):
            return False
    return True


CLASSIFIERS = {
    "warm-resolver-finds-more-inside-cycles": _k_warm_cache_finds_more,
    "upgrade-no-retry-of-dependency-version": _k_needs_lower_dependency,
    "resolver-construction-unhashable-filter": _k_construct_typeerror,
}


def _main():
    req = json.loads(sys.stdin.read())
    if req["mode"] == "slice":
        json.dump(compute_oplists(req["tier"], req["idxs"]), sys.stdout)
    else:
        r = c15.resolve(req["uni"], req["targets"], req["kind"])
        json.dump([r["outcome"], r["ops"], r["exc"]], sys.stdout)


if __name__ == "__main__":
    import logging

    logging.getLogger("pkgcore").setLevel(logging.ERROR)
    _main()
