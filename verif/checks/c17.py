"""C17 planner rollback restores the exact earlier state.

Explicit-state search over histories of planner operations on a real ``pkgcore.resolver.state.plan_state`` (real
``choice_point`` objects over FakePkg packages, real atoms as blockers) interleaved with ``backtrack`` to every earlier
operation boundary.  Differential oracle: the state after a rollback equals the state of a fresh planner on which only
the surviving operations were applied.
"""

import json
import re

from verif.engines import bfs

PROPERTY = "C17"
LEVEL = "model_checking"
ENGINE = "bfs"
TECHNIQUE = "explicit-state BFS over operation/rollback histories of the real plan_state; differential oracle against a fresh planner replaying the surviving operations"
RULE = (
    "every history up to the depth bound over {add (plain and forced), replace, remove of packages x-1[installed], x-2, "
    "y-1[installed], y-2, and replace of x-1[installed] by its equal-cpv copy from the source repository; add/drop of blockers !<a/x-2 and !a/y for two owners (so reference counts reach 2) and of a rewritten "
    "blocker registered under a key other than its own; hard reference; "
    "back reference; backtrack to every earlier operation boundary} is replayed on a fresh plan_state. In every state whose "
    "history contains a rollback the full planner state (slot table, limiters, package->choice bindings, per-owner blocker "
    "lists, blocker reference counts, installed-package exclusions, forced restrictions with counts, operation log) must "
    "equal that of a fresh planner that executed only the surviving operations; backtrack may raise nothing; backtrack(0) "
    "must give the empty state. States are de-duplicated on the exact (ordered) planner state. A class is (last event kind, "
    "its outcome, whether a rollback undid a compound operation, verdict)."
)
ASSUMPTIONS = [
    "operations are issued the way merge_plan issues them: add of a package not yet planned; forced add only of an installed "
    "package into a slot with no occupant; replace only of an installed occupant by a source package no active limiter matches "
    "(so replace_op's own failure branch is not exercised); remove of a planned package with the choice point it was added with; "
    "drop of a blocker only by an owner that holds it",
    "rollback targets are operation boundaries (the plan positions merge_plan records as frame start points), not positions "
    "inside the log entries of one compound operation",
    "order inside one slot list / limiter list / per-owner blocker list is not part of the compared state (the statement lists "
    "occupancy, blockers, counts, bindings, exclusions, restrictions), and neither is the order of consecutive blocker-drop "
    "entries in the operation log (it follows the per-owner list order; such drops commute); de-duplication uses the ordered form",
    "a forward operation that raises although its precondition holds ends that branch and is counted (class forward-raised), "
    "it is not judged",
]
BOUNDS = {
    "quick": "23-event alphabet + rollback to every boundary, all histories to depth 5, partitioned by 2-event root prefixes",
    "thorough": "same alphabet, all histories to depth 6 (depth 7 measured at ~46M transitions, outside the budget), partitioned by 2-event root prefixes",
}

# ------------------------------------------------------------------ universe

PKGS = ("X1", "X2", "Y1", "Y2", "X1S")
# X1S: the source-repo copy of the installed version (equal cpv, so it shares X1's hash slot in every cpv-keyed mapping)
PKG_SPEC = {"X1": ("a/x-1", True), "X2": ("a/x-2", False), "Y1": ("a/y-1", True), "Y2": ("a/y-2", False), "X1S": ("a/x-1", False)}
BLOCKERS = {"BX": "!<a/x-2", "BY": "!a/y"}
OWNERS = ("X1", "X2")
HARDREF = "a/x"

EVENTS = (
    [["add", "X1", True], ["add", "X1", False], ["add", "X2", False], ["add", "Y1", True], ["add", "Y2", False]]
    + [["replace", "X2"], ["replace", "Y2"], ["replace", "X1S"]]
    + [["remove", "X1"], ["remove", "X2"], ["remove", "Y2"]]
    + [["block", o, b] for o in OWNERS for b in ("BX", "BY")]
    + [["unblock", o, b] for o in OWNERS for b in ("BX", "BY")]
    + [["block", "X1", "BK"], ["unblock", "X1", "BK"]]
    + [["hardref"], ["backref", "X2"]]
)
# BK: a rewritten blocker (as merge_plan.generate_mangled_blocker produces) registered under a key that is not its own .key
KEYED = {"BK": ("<a/x-2", "a/rewritten", "a/x")}  # label: (matched atom, the restriction's own key, key it is registered under)

_static = {}


def _setup():
    if _static:
        return _static
    from pkgcore.ebuild.atom import atom
    from pkgcore.repository.util import SimpleTree
    from pkgcore.test.misc import FakePkg

    vdb = SimpleTree({}, livefs=True, repo_id="vdb")
    src = SimpleTree({}, livefs=False, repo_id="src")
    pk = {}
    for name, (cpv, livefs) in PKG_SPEC.items():
        pk[name] = FakePkg(cpv, eapi="8", slot="0", repo=vdb if livefs else src)
    _static["pkgs"] = pk
    _static["blockers"] = {k: atom(v) for k, v in BLOCKERS.items()}
    from pkgcore.restrictions import packages

    _static["regkey"] = {}
    for k, (matched, own, reg) in KEYED.items():
        _static["blockers"][k] = packages.KeyedAndRestriction(atom(matched), key=own)
        _static["regkey"][k] = reg
    _static["hardref"] = atom(HARDREF)
    _static["atoms"] = {name: atom("=" + PKG_SPEC[name][0]) for name in PKGS}
    return _static


class World:
    """One fresh planner plus fresh choice points, with label maps for snapshots."""

    def __init__(self):
        from pkgcore.resolver import state
        from pkgcore.resolver.choice_point import choice_point

        s = _setup()
        self.mod = state
        self.plan = state.plan_state()
        self.pkgs = s["pkgs"]
        self.blockers = s["blockers"]
        self.cps = {n: choice_point(s["atoms"][n], [self.pkgs[n]]) for n in PKGS}
        self.labels = {}
        for n, p in self.pkgs.items():
            self.labels[id(p)] = n
        for n, b in self.blockers.items():
            self.labels[id(b)] = n
        for n, c in self.cps.items():
            self.labels[id(c)] = "cp" + n
        self.labels[id(s["hardref"])] = "H"
        self.bounds = [0]  # plan length after each surviving event
        self.events = []  # surviving events
        self.log = []  # (event, outcome) for every event of the history
        self.dead = None
        self.last_bt_compound = False

    def lab(self, o):
        return self.labels.get(id(o)) or ("?" + repr(o))


def occupant(w, name):
    p = w.pkgs[name]
    for x in w.plan.state.slot_dict.get(p.key, ()):
        if x.slot == p.slot:
            return x
    return None


def is_enabled(w, ev):
    kind = ev[0]
    plan = w.plan
    if kind == "add":
        p = w.pkgs[ev[1]]
        if any(x is p for x in plan.state.slot_dict.get(p.key, ())):
            return False
        if ev[2]:
            return p.repo.livefs and occupant(w, ev[1]) is None
        return True
    if kind == "replace":
        p = w.pkgs[ev[1]]
        if any(x is p for x in plan.state.slot_dict.get(p.key, ())):
            return False
        old = occupant(w, ev[1])
        if old is None or not old.repo.livefs or not any(x is old for x in plan.pkg_choices):
            return False
        return not plan.state.check_limiters(p)
    if kind == "remove":
        p = w.pkgs[ev[1]]
        return any(x is p for x in plan.state.slot_dict.get(p.key, ())) and plan.pkg_choices.get(p) is w.cps[ev[1]]
    if kind == "block":
        return True
    if kind == "unblock":
        b = w.blockers[ev[2]]
        return any(x is b for x, _k in plan.rev_blockers.get(w.cps[ev[1]], ()))
    if kind in ("hardref", "backref"):
        return True
    if kind == "bt":
        return 0 <= ev[1] < len(w.bounds) - 1
    raise ValueError(ev)


def apply_forward(w, ev):
    """Apply one non-rollback event.  -> outcome string"""
    st = w.mod
    kind = ev[0]
    plan = w.plan
    if kind == "add":
        r = st.add_op(w.cps[ev[1]], w.pkgs[ev[1]], force=ev[2]).apply(plan)
        return "conflict" if r else "done"
    if kind == "replace":
        r = st.replace_op(w.cps[ev[1]], w.pkgs[ev[1]]).apply(plan)
        return "conflict" if r else "done"
    if kind == "remove":
        st.remove_op(w.cps[ev[1]], w.pkgs[ev[1]]).apply(plan)
        return "done"
    if kind == "block":
        b = w.blockers[ev[2]]
        r = plan.add_blocker(w.cps[ev[1]], b, key=_setup()["regkey"].get(ev[2], b.key))
        return "hit" if r else "done"
    if kind == "unblock":
        b = w.blockers[ev[2]]
        st.decref_forward_block_op(w.cps[ev[1]], b, _setup()["regkey"].get(ev[2], b.key)).apply(plan)
        return "done"
    if kind == "hardref":
        st.add_hardref_op(_setup()["hardref"]).apply(plan)
        return "done"
    if kind == "backref":
        st.add_backref_op(w.cps[ev[1]], w.pkgs[ev[1]]).apply(plan)
        return "done"
    raise ValueError(ev)


def _noaddr(t):
    return re.sub(r" ?@(0x)?[0-9a-f]{6,}", "", t)


def step(w, ev):
    """Apply one event of a history to the world (records outcome; marks the world dead on an unexpected exception)."""
    if w.dead:
        return
    if ev[0] == "bt":
        j = ev[1]
        pos = w.bounds[j]
        undone = w.bounds[j:]
        # a rollback that crosses an event which wrote more than one log entry undid a compound operation
        w.last_bt_compound = any(b2 - b1 > 1 for b1, b2 in zip(undone, undone[1:]))
        try:
            w.plan.backtrack(pos)
        except Exception as e:  # judged by the oracle
            w.dead = ("backtrack-raised", f"backtrack({pos}) raised {type(e).__name__}: {_noaddr(str(e))[:200]}")
            w.log.append((ev, "raised"))
            return
        w.bounds = w.bounds[: j + 1]
        w.events = w.events[:j]
        w.log.append((ev, "done"))
        return
    try:
        out = apply_forward(w, ev)
    except Exception as e:
        w.dead = ("forward-raised", f"{ev} raised {type(e).__name__}: {_noaddr(str(e))[:200]}")
        w.log.append((ev, "raised"))
        return
    w.events.append(ev)
    w.bounds.append(len(w.plan.plan))
    w.log.append((ev, out))


def snapshot(w, ordered):
    """Full planner state in labels.  ordered=False sorts the slot/limiter/owner lists (the compared form)."""
    plan = w.plan
    lab = w.lab
    f = (lambda l: tuple(l)) if ordered else (lambda l: tuple(sorted(l)))
    slots = tuple(sorted((k, f([lab(x) for x in v])) for k, v in plan.state.slot_dict.items()))
    lims = tuple(sorted((k, f([lab(x) for x in v])) for k, v in plan.state.limiters.items()))
    choices = tuple(sorted((lab(p), lab(c)) for p, c in plan.pkg_choices.items()))
    rev = tuple(sorted((lab(c), f([(lab(b), k) for b, k in v])) for c, v in plan.rev_blockers.items()))
    refc = tuple(sorted((lab(b), n) for b, n in dict.items(plan.blockers_refcnt)))
    vf = plan.vdb_filter
    vdbf = tuple(sorted((lab(p), vf[p] if isinstance(vf, dict) else 1) for p in vf))
    forced = tuple(sorted((lab(r), n) for r, n in dict.items(plan.forced_restrictions)))
    log = []
    for op in plan.plan:
        name = type(op).__name__
        if name == "add_hardref_op":
            log.append((name, lab(op.restriction)))
        elif hasattr(op, "blocker"):
            log.append((name, lab(op.choices), lab(op.blocker), op.key))
        elif name == "replace_op":
            log.append((name, lab(op.choices), lab(op.pkg), bool(op.force), lab(op.old_pkg), lab(op.old_choices), bool(op.force_old)))
        else:
            log.append((name, lab(op.choices), lab(op.pkg), bool(op.force)))
    if not ordered:
        # consecutive blocker drops (the group one remove/replace writes) commute; their order follows the per-owner list order
        norm, run = [], []
        for e in log:
            if e[0] == "decref_forward_block_op":
                run.append(e)
            else:
                norm.extend(sorted(run))
                run = []
                norm.append(e)
        norm.extend(sorted(run))
        log = norm
    return {
        "slots": slots,
        "limiters": lims,
        "pkg_choices": choices,
        "rev_blockers": rev,
        "blockers_refcnt": refc,
        "vdb_filter": vdbf,
        "forced_restrictions": forced,
        "plan": tuple(log),
    }


def build(hist):
    w = World()
    for ev in hist:
        step(w, ev)
    return w


def canon(w):
    if w.dead:
        return ("dead", len(w.log), w.dead[0], tuple(map(json.dumps, (e for e, _ in w.log))))
    s = snapshot(w, True)
    return tuple(s[k] for k in sorted(s)) + (tuple(w.bounds),)


def enabled(w, hist):
    if w.dead:
        return []
    out = [e for e in EVENTS if is_enabled(w, e)]
    out += [["bt", j] for j in range(len(w.bounds) - 1)]
    return out


def diff(a, b):
    return "; ".join(f"{k}: {list(a[k])} != expected {list(b[k])}" for k in a if a[k] != b[k])


def check_state(w, hist):
    """-> list of findings (dicts with 'what', 'detail')"""
    if w.dead:
        if w.dead[0] == "backtrack-raised":
            return [{"what": "backtrack-raised", "detail": w.dead[1]}]
        return []
    if not any(e[0] == "bt" for e in hist):
        return []
    ref = World()
    for ev in w.events:
        step(ref, ev)
    if ref.dead:
        return [{"what": "replay-diverged", "detail": f"surviving operations {w.events} cannot be replayed on a fresh planner: {ref.dead[1]}"}]
    a, b = snapshot(w, False), snapshot(ref, False)
    out = []
    if a != b:
        out.append({"what": "rollback-state", "fields": sorted(k for k in a if a[k] != b[k]), "detail": diff(a, b)})
    elif w.bounds != ref.bounds:
        out.append({"what": "rollback-state", "fields": ["boundaries"], "detail": f"plan positions {w.bounds} != expected {ref.bounds}"})
    if not w.events:
        empty = snapshot(World(), False)
        if a != empty and not out:
            out.append({"what": "not-empty", "fields": sorted(k for k in a if a[k] != empty[k]), "detail": "after backtrack(0): " + diff(a, empty)})
    return out


def ev_class(w, hist, bad):
    if not hist:
        return "initial"
    ev, out = w.log[-1]
    k = ev[0] + ("-forced" if ev[0] == "add" and ev[2] else "")
    if w.dead and w.dead[0] == "forward-raised":
        return "forward-raised|" + k
    comp = ""
    if ev[0] == "bt":
        comp = "|compound" if w.last_bt_compound else "|simple"
    after = "|after-rollback" if ev[0] != "bt" and any(e[0] == "bt" for e in hist[:-1]) else ""
    return f"{k}|{out}{comp}{after}|{bad or 'ok'}"


# ------------------------------------------------------------------ tasks / work / replay


def _depth(tier):
    return 5 if tier == "quick" else 6


def _alpha_with_bt(n):
    return EVENTS + [["bt", j] for j in range(n)]


def tasks(tier):
    out = [("pre", tier, [])]
    a1 = EVENTS
    for i in range(len(a1)):
        for e2 in range(len(_alpha_with_bt(1))):
            out.append(("sub", tier, [i, e2]))
    return out


def _root(idx):
    root = []
    for d, i in enumerate(idx):
        root.append(_alpha_with_bt(d)[i])
    return tuple(root)


def root_enabled(root):
    for i in range(len(root)):
        w = build(root[:i])
        if w.dead or root[i] not in enabled(w, root[:i]):
            return False
    return True


def work(task):
    kind, tier, idx = task
    classes = {}
    viol = []
    samples = []
    counters = {"states": 0, "transitions": 0, "max_depth": 0}
    if kind == "pre":
        root = ()
        depth = 1
    else:
        root = tuple(_root(idx))
        depth = _depth(tier)
        if not root_enabled(root):
            return {"evals": 0, "classes": {"root-not-enabled": 1}, "viol": [], "samples": [], "counters": counters}
    found = []

    def chk(w, hist):
        fr = check_state(w, hist)
        k = ev_class(w, hist, fr[0]["what"] if fr else "")
        classes[k] = classes.get(k, 0) + 1
        for f in fr[:1]:
            if len(found) < 60:
                f = dict(f)
                f["hist"] = [list(e) for e in hist]
                found.append(f)
        return []

    res = bfs.explore(root, build, enabled, canon, chk, depth)
    counters["states"] += res["states"]
    counters["transitions"] += res["transitions"]
    counters["max_depth"] = max(counters["max_depth"], res["max_depth"])
    for f in found:
        f["msg"] = f"after {json.dumps(f['hist'])}: {f['detail']}"[:900]
        del f["detail"]
        viol.append(f)
    samples.append({"history": [list(e) for e in res["sample"]]})
    viol.sort(key=lambda c: len(json.dumps(c)))
    return {"evals": res["transitions"] + 1, "classes": classes, "viol": viol, "samples": samples, "counters": counters}


def replay(case):
    hist = tuple(case["hist"])
    w = build(hist)
    return [f"after {json.dumps([list(e) for e in hist])}: {f['detail']}" for f in check_state(w, hist)]


def _excluded_twice(hist):
    """Some package is taken out (remove, or replaced away) by two different events of the history."""
    out = {}
    for ev in hist:
        if ev[0] == "remove":
            out[ev[1]] = out.get(ev[1], 0) + 1
        elif ev[0] == "replace":
            old = {"X2": "X1", "Y2": "Y1", "X1S": "X1"}[ev[1]]
            out[old] = out.get(old, 0) + 1
    return any(n > 1 for n in out.values())


def _k_vdb_filter_set(case):
    """vdb_filter is a plain set: a package excluded by two log entries (removed, re-added, removed again) loses its
    exclusion when the later entry is rolled back, and rolling back the earlier one then raises KeyError."""
    if not _excluded_twice(case.get("hist", [])):
        return False
    if case.get("what") == "rollback-state":
        return case.get("fields") == ["vdb_filter"]
    return case.get("what") == "backtrack-raised" and "raised KeyError" in case.get("msg", "")


def _k_replace_force_old(case):
    """replace_op decides force_old before it drops the replaced package's own blockers; when one of those blockers matches
    the replaced package itself, reverting the replace finds no limiter and raises AssertionError."""
    if case.get("what") != "backtrack-raised" or "unable to revert replace" not in case.get("msg", ""):
        return False
    hist = case.get("hist", [])
    for i, ev in enumerate(hist):
        if ev[0] == "replace" and ev[1] == "X2" and any(e == ["block", "X1", "BX"] for e in hist[:i]):
            return True
    return False


CLASSIFIERS = {
    "vdb-filter-not-refcounted": _k_vdb_filter_set,
    "replace-revert-asserts-on-own-blocker": _k_replace_force_old,
}
