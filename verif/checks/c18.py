"""C18 merging places exactly the package contents on the live filesystem (E1 on a real tmpfs)."""

import itertools
import os
import shutil
import tempfile

from verif import fsnap
from verif import mergescen as ms

PROPERTY = "C18"
LEVEL = "exploration"
ENGINE = "enum"
TECHNIQUE = (
    "exhaustive enumeration of small content trees x live pre-states of every touched slot x offset mode, each merged "
    "by the real fs.ops.merge_contents into a scratch root on tmpfs and judged from a recursive lstat snapshot taken "
    "before and after against an independent path-classification model"
)
RULE = (
    "content trees over slots {/d/f, '/d/g h', /é/h, /l} with entry kinds {A (hardlink group), B (same inode number, other "
    "device), C (set-uid, own group), N/P/Q (hand-built files with dev/inode unset: same metadata + same data, same metadata + other data from an in-memory source, other mtime), symlink to file/dir/dangling, fifo, empty dir} x for every touched slot every live "
    "pre-state {absent, file hardlinked to a bystander, file + unrelated '#new' sibling, symlink to file, symlink to dir, "
    "dangling symlink, fifo, directory, directory in which the symlink entry's target resolves to a directory (the overlap merge_contents tolerates)} x parent directory pre-state {absent, directory with odd mode/owner and an "
    "unrelated child, symlink to a directory elsewhere, dangling symlink, regular file} x {parents listed, parents "
    "omitted} x {explicit offset, locations prefixed and offset None, offset directory missing} (x contents order in "
    "thorough). Oracle: after a merge that returns normally every entry that is not itself part of a PMS-forbidden overlap is present with kind, data, target, "
    "mtime, mode, owner; entries share an inode exactly when the contents set declares it (equal non-None dev+inode), st_nlink equals the declared group size; pre-existing directories keep their mode; every path outside "
    "the contents set (bystanders, unrelated children, symlink targets, their hardlink groups) is bit-identical; no "
    "'#new' temporary remains. A class is a measured (entry kind over observed live kind -> observed result) transition "
    "or a merge outcome."
)
ASSUMPTIONS = [
    "real tmpfs (/dev/shm), running as root so lchown to arbitrary numeric ids works; one filesystem, so hardlinking is always possible",
    "Excl: directory mtimes are never compared (they change whenever an entry is created inside)",
    "Excl: the mtime and mode of symlink entries are not compared (ensure_perms deliberately never applies them; Linux symlinks have no mode) -- their owner and target are",
    "Excl: overlaps PMS forbids (a directory entry over a live non-directory other than a symlink to a directory or a dangling symlink, "
    "a non-directory entry over a live directory, parents omitted while the live parent is a file/dangling symlink): merge_contents may refuse "
    "or skip: the overlapping entry itself (and entries below an overlapping directory) is not judged, the 'nothing outside the contents set changes' clause always is, "
    "and when merge_contents returns normally despite the overlap (symlink entry over a real directory whose target resolves to a directory) every other entry is judged in full",
    "Excl: for a directory entry whose live location is a symlink to a directory, the symlink's own owner and the target directory's owner are not compared "
    "(kind and permissions of the target directory are); the statement only speaks of permissions",
    "a path below a live symlinked directory counts as inside the contents set at the location the kernel resolves the entry to",
    "Excl: a pre-existing path named '<entry>#new' is the merge protocol's reserved temporary name (C19's statement calls them temporary siblings): what happens to that path itself is not judged, "
    "but the merged entry must still be correct, and a '#new' that did not exist before must not exist afterwards",
    "a contents set is the only declaration of inode sharing there is: entries with equal non-None dev+inode are one hardlink group, every other regular file must come out as its own inode "
    "(hardlinking two files that were separate in the source makes a later write to one change the other)",
    "the contents set is built by hand from fs.fsFile/fsSymlink/fsFifo/fsDir objects with recorded mode/uid/gid/mtime/dev/inode; file data comes from a real source image",
]
TIME_CAP = {"thorough": 3600}  # safety net on a shared machine; a capped run is reported as non-exhaustive
BOUNDS = {
    "quick": "all 1-entry trees (7 kinds + dir, 8 live states); 2-entry trees on slot pairs F-G, F-H, F-L, H-L over kinds {A,B,C,sd,ff,dir} x full product of 8 live states "
    "(no dangling) per touched slot and 5 parent states; hand-built no-dev/inode files: 3 single, 6 kind pairs on F-G and F-L, 2 triples on F-G-L x live {absent,file,file+stale,symd,dirx}; 3-entry trees {same-inode pair + symlink at each contents position} on F-G-L for A and C and F-G-H (middle) x live {absent,file,file+stale,symd,dirx}; x listed/omitted x explicit-offset/prefixed (+ missing offset dir)",
    "thorough": "all trees with <= 2 entries (7 kinds + dir) x full product of 9 live states x both contents orders; no-dev/inode pairs on F-G, F-H, F-L x 9 live states x both orders and triples on F-G-L, F-G-H; all 3-entry trees over kinds {A,B,C,sd,ff,dir} x live states "
    "{absent,file,file+stale,symd,dirx}; x 5 parent states x listed/omitted x explicit-offset/prefixed (+ missing offset dir)",
}

NONDIR_STATES = [None, "file", "file+stale", "symf", "symd", "dang", "fifo", "dir", "dirx"]
NONDIR_STATES_Q2 = [None, "file", "file+stale", "symf", "symd", "fifo", "dir", "dirx"]
NONDIR_STATES_3 = [None, "file", "file+stale", "symd", "dirx"]  # dirx behaves as dir for every non-symlink entry
# quick 3-entry family: a same-inode pair and one symlink entry, the symlink at each position of the contents order
TRIPLES_Q = [(("F", "G", "L"), pos, k) for pos in range(3) for k in ("A", "C")] + [(("F", "G", "H"), 1, "A")]
DIR_STATES = [None, "dir", "lnk", "dang", "file"]
KINDS_ALL = ["A", "B", "C", "sf", "sd", "sx", "ff"]
# 'source of entries' dimension: regular files built by hand with dev/inode unset (N, P, Q), alone, paired with each other
# (identical metadata + same data, identical metadata + other data, other mtime), paired with a declared-inode file, and
# three at once
NOINODE_1 = [("F", "N"), ("L", "P"), ("H", "Q")]
NOINODE_PAIRS = [("N", "N"), ("N", "P"), ("P", "N"), ("N", "Q"), ("A", "N"), ("N", "A")]
NOINODE_3 = [("N", "P", "N"), ("N", "N", "Q")]
KINDS_5 = ["A", "B", "C", "sd", "ff"]
PAIRS_Q = [("F", "G"), ("F", "H"), ("F", "L"), ("H", "L")]


def trees(tier):
    """[(tree dict, nondir state list, orders)] simplest first."""
    out = [({}, NONDIR_STATES, ["asc"])]
    if tier == "quick":
        plan = [(1, KINDS_ALL, NONDIR_STATES, ["asc"], None), (2, KINDS_5, NONDIR_STATES_Q2, ["asc"], PAIRS_Q)]
    else:
        plan = [
            (1, KINDS_ALL, NONDIR_STATES, ["asc"], None),
            (2, KINDS_ALL, NONDIR_STATES, ["asc", "desc"], None),
            (3, KINDS_5, NONDIR_STATES_3, ["asc"], None),
        ]
    if tier == "quick":
        for slots, pos, k in TRIPLES_Q:
            out.append(({s: ("sd" if i == pos else k) for i, s in enumerate(slots)}, NONDIR_STATES_3, ["asc"]))
    full = tier == "thorough"
    st2, orders2 = (NONDIR_STATES, ["asc", "desc"]) if full else (NONDIR_STATES_3, ["asc"])
    for slot, k in NOINODE_1:
        out.append(({slot: k}, NONDIR_STATES, ["asc"]))
    for slots in ([("F", "G"), ("F", "H"), ("F", "L")] if full else [("F", "G"), ("F", "L")]):
        for ks in NOINODE_PAIRS:
            out.append((dict(zip(slots, ks)), st2, orders2))
    for slots in ([("F", "G", "L"), ("F", "G", "H")] if full else [("F", "G", "L")]):
        for ks in NOINODE_3:
            out.append((dict(zip(slots, ks)), NONDIR_STATES_3, ["asc"]))
    for n, kinds, states, orders, only in plan:
        for slots in itertools.combinations(ms.NONDIR_SLOTS, n):
            if only is not None and slots not in only:
                continue
            opts = [kinds + (["dir"] if s == "L" else []) for s in slots]
            for ks in itertools.product(*opts):
                out.append((dict(zip(slots, ks)), states, orders))
    return out


def pre_states(tree, states):
    """Every live pre-state of the slots this tree touches (children only below a directory-like parent)."""
    groups = []
    for ds in sorted({ms.PARENT[s] for s in tree if ms.PARENT[s]}):
        kids = [s for s in ms.NONDIR_SLOTS if s in tree and ms.PARENT[s] == ds]
        opts = []
        for dstate in DIR_STATES:
            if dstate in ("dir", "lnk"):
                for combo in itertools.product(states, repeat=len(kids)):
                    d = {ds: dstate}
                    d.update({k: v for k, v in zip(kids, combo) if v})
                    opts.append(d)
            else:
                opts.append({ds: dstate} if dstate else {})
        groups.append(opts)
    if "L" in tree:
        groups.append([{"L": s} if s else {} for s in states])
    for combo in itertools.product(*groups):
        pre = {}
        for d in combo:
            pre.update(d)
        yield pre


def scenarios(tree, states, orders):
    has_dirs = any(ms.PARENT[s] for s in tree)
    for order in orders:
        for dirs in ("listed", "omitted") if has_dirs else ("listed",):
            yield {"tree": tree, "dirs": dirs, "pre": {}, "off": "new", "ord": order}
            for off in ("off", "pre"):
                for pre in pre_states(tree, states):
                    yield {"tree": tree, "dirs": dirs, "pre": pre, "off": off, "ord": order}


def tasks(tier):
    ts = trees(tier)
    out = []
    # one task per tree for the small ones; 3-entry trees are already one tree each
    small = [i for i, t in enumerate(ts) if len(t[0]) <= 1]
    out.append((tier, tuple(small)))
    for i, t in enumerate(ts):
        if len(t[0]) >= 2:
            out.append((tier, (i,)))
    return out


def judge(scn, base, have_src=False):
    """Build, merge, snapshot, judge one scenario.  Returns (messages, outcome classes)."""
    src, dst = base + "/src", base + "/dst"
    if not have_src:
        ms.build_src(src, scn)
    ms.build_dst(dst, scn)
    an = ms.analyse(scn)
    before = fsnap.snapshot(dst)
    cset = ms.make_cset(src, scn)
    ret, exc = ms.run_merge(cset, dst, scn)
    after = fsnap.snapshot(dst)
    msgs = ms.frame_violations(scn, an, before, after)
    classes = []
    if an["conflict"] and exc is not None:
        classes.append("outcome:forbidden-overlap:" + type(exc).__name__)
    elif exc is not None:
        msgs.insert(0, f"merge_contents raised {type(exc).__name__}: {exc} although nothing forbids this merge".replace(dst, "<root>"))
        classes.append("outcome:unexpected-" + type(exc).__name__)
    else:
        # a normal return: every entry that is not itself part of a forbidden overlap must be placed in full
        if ret is not True:
            msgs.append(f"merge_contents returned {ret!r}")
        msgs = ms.placed_violations(scn, dst, an["skip"]) + msgs
        classes.append("outcome:forbidden-overlap:tolerated-and-continued" if an["conflict"] else "outcome:merged")
        # measured transitions
        for slot, kind in scn["tree"].items():
            if slot in an["skip"]:
                classes.append(f"{ms.KIND[kind]['kind']}:over-directory-skipped")
                continue
            rel = ms.PATH[slot]
            par = ms.PARENT[slot]
            real = (ms.LNKT[par] + "/" + os.path.basename(rel)) if par and scn["pre"].get(par) == "lnk" else rel
            b, a = before.get(real), after.get(real)
            shared = a is not None and a.kind == "file" and a.group != real or any(
                e.group == real for p, e in after.items() if p != real and e.kind == "file"
            )
            classes.append(
                f"{ms.KIND[kind]['kind']}:{b.kind if b else 'absent'}->{a.kind if a else 'absent'}" + ("+hardlinked" if shared else "") + ("/via-symlinked-dir" if real != rel else "")
            )
        for ds in ms.used_dirs(scn):
            if ds in an["skip"]:
                continue
            b, a = before.get(ms.PATH[ds]), after.get(ms.PATH[ds])
            classes.append(f"parent-{scn['dirs']}:{b.kind if b else 'absent'}->{a.kind if a else 'absent'}")
    return msgs, classes


def work(task):
    tier, idxs = task
    ts = trees(tier)
    base = tempfile.mkdtemp(dir="/dev/shm", prefix=f"verif-C18-{os.getpid()}-")
    evals, classes, viol, samples = 0, {}, [], []
    old_umask = os.umask(0o022)
    try:
        for i in idxs:
            tree, states, orders = ts[i]
            ms.build_src(base + "/src", {"tree": tree})  # the merge never writes to the image: one per tree
            for scn in scenarios(tree, states, orders):
                evals += 1
                msgs, cl = judge(scn, base, have_src=True)
                for c in cl:
                    classes[c] = classes.get(c, 0) + 1
                if msgs:
                    viol.append({"scn": scn, "msg": "; ".join(msgs[:3])})
                elif len(samples) < 2 and scn["pre"]:
                    samples.append(scn)
    finally:
        os.umask(old_umask)
        shutil.rmtree(base, ignore_errors=True)
    # keep the simplest violations of this task
    viol.sort(key=lambda c: (len(c["scn"]["tree"]), len(c["scn"]["pre"]), len(str(c))))
    return {"evals": evals, "classes": classes, "viol": viol, "samples": samples}


def replay(case):
    base = tempfile.mkdtemp(dir="/dev/shm", prefix=f"verif-C18-{os.getpid()}-replay-")
    old_umask = os.umask(0o022)
    try:
        msgs, _ = judge(case["scn"], base)
        return msgs
    finally:
        os.umask(old_umask)
        shutil.rmtree(base, ignore_errors=True)


def _stale_new_sibling(case):
    """A file entry (A/B/C/fifo/symlink -- any non-directory) replaces a live entry while an unrelated path
    '<entry>#new' already exists next to it."""
    scn = case["scn"]
    return any(scn["pre"].get(s) == "file+stale" and k != "dir" for s, k in scn["tree"].items())


def _hardlink_missing_parent(case):
    """Parents are not listed in the contents set, two entries share a source inode but live in different directories, and the
    directory of the one merged later does not exist yet (do_link, unlike copyfile, never creates it)."""
    scn = case["scn"]
    if scn["dirs"] != "omitted":
        return False
    slots = [s for s in ms.NONDIR_SLOTS if s in scn["tree"]]
    if scn.get("ord") == "desc":
        slots.reverse()
    for i, s in enumerate(slots):
        k = scn["tree"][s]
        if k not in ms.FILE_KINDS or not ms.PARENT[s]:
            continue
        earlier = [t for t in slots[:i] if scn["tree"][t] == k and ms.PARENT[t] != ms.PARENT[s]]
        # an earlier entry in the same directory would already have created it
        created = any(ms.PARENT[t] == ms.PARENT[s] for t in slots[:i])
        if earlier and not created and (scn["off"] == "new" or scn["pre"].get(ms.PARENT[s]) is None):
            return True
    return False


CLASSIFIERS = {"stale-new-sibling": _stale_new_sibling, "hardlink-into-missing-parent": _hardlink_missing_parent}
