"""C19 an interrupted merge never leaves a replaced file half-written (E3: crash / torn write / error at every mutating event)."""

import errno
import gc
import hashlib
import itertools
import os
import shutil
import tempfile

from verif import fsnap
from verif import mergescen as ms

PROPERTY = "C19"
LEVEL = "fault_enumeration"
ENGINE = "faults"
TECHNIQUE = (
    "audit-hook fault injection on the real fs.ops.merge_contents: for every scenario the fault-free run numbers the "
    "filesystem-mutating events (open-for-write, rename, link, symlink, remove, mkdir, chmod, chown, utime, mkfifo) inside "
    "the live root; every event is then replayed from a fresh copy of the pre-state as a crash point (process death, later "
    "clean-up blocked), as a torn write (for opens) and as a failing syscall (EIO; EXDEV for link/rename), and the resulting "
    "tree is judged from a recursive lstat snapshot"
)
RULE = (
    "C18 scenarios (content tree x live pre-state x parents listed/omitted x explicit-offset/prefixed) in which at least one "
    "non-directory path pre-exists at an entry's location {file hardlinked to a bystander, symlink to file, symlink to dir, "
    "dangling symlink, fifo}; for each, every mutating event k of the fault-free merge x {crash before k, torn write of the file "
    "opened at k, EIO at k, EXDEV at k for link/rename} (+ in thorough a second error after every first error the code survived). "
    "Oracle per run: every non-directory path that existed before is either bit-identical to before (kind, data, mode, owner, mtime, "
    "target) or exactly the recorded new entry; every path outside the contents set is unchanged; nothing is created outside the "
    "contents set except '<entry>#new' temporaries and missing parents. A class is (fault kind @ event) or the observed old/new outcome."
)
ASSUMPTIONS = [
    "a crash is process death with all completed syscalls durable (audit hook raises before syscall k, every later mutating call raises too, "
    "files open for writing are cut back to their on-disk size); loss or reordering of un-synced data on power failure is not modelled (pkgcore never fsyncs)",
    "real tmpfs (/dev/shm) as root; events outside the live root (reads of the package image) are not fault points",
    "Excl: a directory entry whose live location is a dangling symlink (merge unlinks it and then creates the directory: PMS forbids a directory over a non-directory, "
    "the path is briefly absent) and scenarios with an unrelated pre-existing '<entry>#new' (C18 covers them)",
    "Excl: ownership of a symlink standing at a *directory* entry's location is not compared (merge lchowns it; C18 lists the same exclusion); its kind and target are",
    "directories are only judged when they lie outside the contents set (kind, mode, owner unchanged); directory mtimes are never compared",
    "paths named '<entry>#new' are temporaries by the statement and are not judged",
    "the symlink mtime is not part of the 'new' tuple (never applied by merge, see C18)",
]
TIME_CAP = {"thorough": 3600}  # safety net on a shared machine; a capped run is reported as non-exhaustive
BOUNDS = {
    "quick": "all 1-entry trees (7 kinds + dir) x 5 pre-existing live kinds x parent {dir, symlinked dir} x listed/omitted x offset/prefixed; 2-entry trees on F-G over {A,B,sd} and the "
    "cross-directory hardlink pair x live {absent,file,symf}; every event x {crash, torn, EIO, EXDEV}",
    "thorough": "quick + all 2-entry trees on F-G, F-H, F-L over {A,B,C,sd,ff,dir} x live {absent,file,symf,symd,fifo} per slot x parent {dir, symlinked dir} x listed/omitted; "
    "every event x {crash, torn, EIO, EXDEV} + second error after each survived first error",
}

PRE_NONDIR = ["file", "symf", "symd", "dang", "fifo"]
KINDS_ALL = ["A", "B", "C", "sf", "sd", "sx", "ff"]


def _pre_combos(tree, states, parents=("dir", "lnk")):
    """pre-states with every touched parent directory-like and >= 1 pre-existing non-directory at an entry slot"""
    slots = [s for s in ms.NONDIR_SLOTS if s in tree]
    dirs = sorted({ms.PARENT[s] for s in slots if ms.PARENT[s]})
    for dstates in itertools.product(parents, repeat=len(dirs)):
        for combo in itertools.product([None] + states, repeat=len(slots)):
            if not any(combo):
                continue
            pre = dict(zip(dirs, dstates))
            pre.update({s: v for s, v in zip(slots, combo) if v})
            yield pre


def _expand(tree, states, orders=("asc",), dirmodes=("listed", "omitted")):
    has_dirs = any(ms.PARENT[s] for s in tree)
    for order in orders:
        for dirs in dirmodes if has_dirs else ("listed",):
            for off in ("off", "pre"):
                for pre in _pre_combos(tree, states):
                    if any(tree[s] == "dir" and pre.get(s) == "dang" for s in tree):
                        continue
                    yield {"tree": tree, "dirs": dirs, "pre": pre, "off": off, "ord": order}


def scenario_groups(tier):
    """list of scenario lists (one list = one task)"""
    groups = []
    for slot in ms.NONDIR_SLOTS:
        for kind in KINDS_ALL + (["dir"] if slot == "L" else []):
            groups.append(list(_expand({slot: kind}, PRE_NONDIR)))
    k3 = ["A", "B", "sd"]
    for a, b in itertools.product(k3, k3):
        groups.append(list(_expand({"F": a, "G": b}, ["file", "symf"], dirmodes=("listed",))))
    groups.append(list(_expand({"F": "A", "H": "A"}, ["file", "symf"], orders=("asc", "desc"))))
    if tier == "thorough":
        k5 = ["A", "B", "C", "sd", "ff"]
        st = ["file", "symf", "symd", "fifo"]
        for s1, s2 in (("F", "G"), ("F", "H"), ("F", "L")):
            for a, b in itertools.product(k5, k5 + (["dir"] if s2 == "L" else [])):
                groups.append(list(_expand({s1: a, s2: b}, st, orders=("asc", "desc"))))
    return [g for g in groups if g]


def tasks(tier):
    out = []
    for gi, g in enumerate(scenario_groups(tier)):
        # split big groups so that tasks stay small
        step = 60
        for lo in range(0, len(g), step):
            out.append((tier, gi, lo, min(lo + step, len(g))))
    return out


# ---------------------------------------------------------------------------------------------
# oracle


def _is_new(e, m):
    if e is None or e.kind != m["kind"]:
        return False
    if (e.uid, e.gid) != (m["uid"], m["gid"]):
        return False
    if m["kind"] == "sym":
        return e.target == m["target"]
    if (e.mode, e.mtime) != (m["mode"], m["mtime"]):
        return False
    if m["kind"] == "file":
        return e.data == m["data"].decode("latin-1")
    return True


def interrupted_violations(scn, an, before, after):
    """Returns (messages, outcome tags)."""
    msgs, tags = [], set()
    new_state = {}
    dir_entry_paths = {}
    for slot, kind in scn["tree"].items():
        m = ms.entry_spec(slot, kind)
        locs = [m["path"]]
        par = ms.PARENT[slot]
        if par and scn["pre"].get(par) == "lnk":
            locs.append(ms.LNKT[par] + "/" + os.path.basename(m["path"]))
        for l in locs:
            if m["kind"] == "dir":
                dir_entry_paths[l] = scn["pre"].get(slot)
            else:
                new_state[l] = m
    if scn["dirs"] == "listed":
        for ds in ms.used_dirs(scn):
            dir_entry_paths[ms.PATH[ds]] = scn["pre"].get(ds)
    for p, a in sorted(before.items()):
        b = after.get(p)
        if p.endswith("#new"):
            continue
        if a.kind == "dir":
            if p in an["inset"]:
                continue
            if p in an["soft"]:
                if b is None or (a.kind, a.mode) != (b.kind, b.mode):
                    msgs.append(f"directory {p} behind a symlinked entry changed {fsnap.describe(a)} -> {fsnap.describe(b)}")
            elif not fsnap.same(a, b):
                msgs.append(f"directory outside the contents set changed: {p} {fsnap.describe(a)} -> {fsnap.describe(b)}")
            continue
        if p in new_state:
            if fsnap.same(a, b):
                tags.add("old")
            elif _is_new(b, new_state[p]):
                tags.add("new")
            else:
                msgs.append(
                    f"{p} is neither its previous self nor the complete new entry: was {fsnap.describe(a)}, now {fsnap.describe(b)}, "
                    f"new would be ({new_state[p]['kind']} {oct(new_state[p]['mode'])} {new_state[p]['uid']}:{new_state[p]['gid']})"
                )
        elif p in dir_entry_paths:
            # a non-directory standing where a directory entry goes: a symlink to a directory is kept (owner aside), anything else is refused
            ok = b is not None and fsnap.same(a, b, ignore=("group", "uid", "gid") if a.kind == "sym" else ("group",))
            if not ok:
                msgs.append(f"{p} (live {a.kind} at a directory entry's location) changed: {fsnap.describe(a)} -> {fsnap.describe(b)}")
        elif not fsnap.same(a, b):
            msgs.append(f"path outside the contents set modified: {p} {fsnap.describe(a)} -> {fsnap.describe(b)}")
    for p in sorted(set(after) - set(before)):
        if p in an["inset"] or p in an["created_ok"] or p in an["tmp"]:
            continue
        msgs.append(f"created outside the contents set: {p} {fsnap.describe(after[p])}")
    return msgs, tags


# ---------------------------------------------------------------------------------------------
# driving


def _plans(events):
    out = []
    n = len(events)
    for k in range(n):
        out.append(("crash", k))
        if events[k][0] == "open" and k + 1 < n:
            out.append(("torn", k))
        out.append(("error", k, errno.EIO))
        if events[k][0] in ("os.link", "os.rename"):
            out.append(("error", k, errno.EXDEV))
    out.append(("crash", n))
    return out


def _run(scn, base, inj, plan, before=None):
    """One execution under one fault plan. Returns (status, events, before, after)."""
    src, dst = base + "/src", base + "/dst"
    ms.build_dst(dst, scn)
    if before is None:
        before = fsnap.snapshot(dst)
    cset = ms.make_cset(src, scn)
    p = plan
    if p is not None and p[0] == "errors":
        p = ("errors", set(p[1]), p[2])
    status, value = inj.run(lambda: ms.run_merge(cset, dst, scn), p)
    if status == "ok" and value is not None and value[1] is not None:
        status = "raised"
    after = fsnap.snapshot(dst)
    return status, list(inj.events), before, after


def _judge_plan(scn, base, inj, plan, an, before):
    status, events, before, after = _run(scn, base, inj, plan, before)
    msgs, tags = interrupted_violations(scn, an, before, after)
    return status, events, after, msgs, tags


def work(task):
    from verif.engines import faults

    tier, gi, lo, hi = task
    scns = scenario_groups(tier)[gi][lo:hi]
    base = tempfile.mkdtemp(dir="/dev/shm", prefix=f"verif-C19-{os.getpid()}-")
    inj = faults.Injector(base + "/dst")
    gc.collect()
    gc.freeze()  # the injector runs gc.collect() after every execution; keep that cheap
    evals, classes, viol, samples = 0, {}, [], []
    counters = {"crash_points": 0, "variants": 0, "post_states": 0, "scenarios": 0}
    old_umask = os.umask(0o022)

    def bump(c):
        classes[c] = classes.get(c, 0) + 1

    try:
        for scn in scns:
            ms.build_src(base + "/src", scn)
            an = ms.analyse(scn)
            status0, events, before, after0 = _run(scn, base, inj, None)
            counters["scenarios"] += 1
            states = set()
            todo = [(p, events) for p in _plans(events)]
            while todo:
                plan, ref_events = todo.pop(0)
                status, ev, after, msgs, tags = _judge_plan(scn, base, inj, plan, an, before)
                evals += 1
                counters["variants"] += 1
                kind = plan[0]
                k = plan[1] if kind != "errors" else plan[1][-1]
                evname = ref_events[k][0] if k < len(ref_events) else "end"
                if kind == "crash":
                    counters["crash_points"] += 1
                    if (status == "crashed") != (k < len(ref_events)):
                        raise RuntimeError(f"crash plan {plan} ended with status {status} ({len(ref_events)} events recorded) in {scn}")
                if kind in ("crash", "torn", "error") and ev[:k] != ref_events[:k]:
                    raise RuntimeError(f"event prefix diverged under plan {plan} in {scn}: {ev[:k]} vs {ref_events[:k]}")
                bump(f"{kind}@{evname}")
                bump("status:" + status)
                bump("preexisting:" + ("+".join(sorted(tags)) or "none-in-set"))
                states.add(hashlib.sha1(repr(sorted(after.items())).encode()).hexdigest())
                if msgs:
                    viol.append({"scn": scn, "plan": list(plan), "event": [evname, list(ref_events[k][1]) if k < len(ref_events) else []], "msg": "; ".join(msgs[:3])})
                elif len(samples) < 2 and kind == "torn":
                    samples.append({"scn": scn, "plan": list(plan), "event": evname, "status": status})
                # thorough: a second error after a first one the code survived
                if tier == "thorough" and kind == "error" and status != "crashed" and len(ev) > k + 1:
                    for k2 in range(k + 1, len(ev)):
                        todo.append((("errors", [k, k2], plan[2]), ev))
            counters["post_states"] += len(states)
    finally:
        os.umask(old_umask)
        gc.unfreeze()
        shutil.rmtree(base, ignore_errors=True)
    viol.sort(key=lambda c: (len(c["scn"]["tree"]), len(c["scn"]["pre"]), c["plan"][0] != "crash", len(str(c))))
    return {"evals": evals, "classes": classes, "viol": viol, "samples": samples, "counters": counters}


def replay(case):
    from verif.engines import faults

    base = tempfile.mkdtemp(dir="/dev/shm", prefix=f"verif-C19-{os.getpid()}-replay-")
    old_umask = os.umask(0o022)
    try:
        scn = case["scn"]
        inj = faults.Injector(base + "/dst")
        ms.build_src(base + "/src", scn)
        an = ms.analyse(scn)
        plan = tuple(case["plan"])
        status, ev, after, msgs, tags = _judge_plan(scn, base, inj, plan, an, None)
        return msgs
    finally:
        os.umask(old_umask)
        shutil.rmtree(base, ignore_errors=True)


CLASSIFIERS = {}
