"""C20 unmerge removes exactly what it owns and never base directories (E1 on a real tmpfs, real MergeEngine)."""

import itertools
import os
import shutil
import tempfile

from verif import fsnap

PROPERTY = "C20"
LEVEL = "exploration"
ENGINE = "enum"
TECHNIQUE = (
    "exhaustive enumeration of old/new contents sets x live-root states, each run through a real MergeEngine "
    "(uninstall / replace / install, plugins disabled, triggers merge + unmerge + BaseSystemUnmergeProtection registered, "
    "offset = scratch root on tmpfs); the tree after the run is compared path by path with the tree an independent model "
    "computes from the snapshot taken before"
)
RULE = (
    "slots {/usr/lib/a, /etc/c, /d/f, /d/s/k, /l} each in one of the states {untouched, unlisted live file, owned (live file / "
    "live symlink to an outside file / live symlink to an outside dir / already gone), new only (file / symlink / over an unlisted "
    "live file), owned and re-installed (file->file, file->symlink, gone->file, live-symlink->file)} with a bounded number of "
    "non-default slots; x spelling of /usr/lib/a in the old and in the new contents {/usr/lib/a, /lb/a with /lb a live symlink to "
    "usr/lib}; x an unlisted file inside /d/s, inside /d, or nowhere; x old contents listing every directory or only ancestors; "
    "x contents order; engines uninstall, replace, install with an offset. Oracle: expected tree = before - (owned paths not "
    "re-installed, compared by resolved location) - (listed, unprotected, real directories left empty, deepest first) + new "
    "entries; everything else bit-identical; protected base directories /usr, /usr/lib, /etc survive. A class is a measured "
    "per-slot transition, a directory fate, or an engine outcome."
)
ASSUMPTIONS = [
    "real tmpfs (/dev/shm) as root; the engine is driven hook by hook in the order operations/domain.py uses (replace: merge phases, then unmerge phases)",
    "Excl: a listed entry whose live kind is a directory while a non-directory was recorded, or a regular file where a directory was recorded, is not generated (the statement does not say what owning a path of another kind means)",
    "Excl: for a listed directory that is a live symlink (/lb) the fate of the symlink itself, and of owned files reached only through it, is not judged when the new package does not install them "
    "(either removed or left is accepted); its target directory and unowned files in it must be untouched",
    "'listed directories removed only when empty' is read as: a listed, unprotected, real directory is removed iff nothing is left inside it; protected = BaseSystemUnmergeProtection's default list under the offset",
    "an owned path and an installed path are the same entry when they resolve to the same location through live directory symlinks",
    "the engine is given an explicit null observer (the observer=None default is broken on the unchanged tree: C23's finding, not judged here)",
    "new entries are checked for kind and data/target only (C18 checks metadata); directory mtimes are never compared",
]
TIME_CAP = {"thorough": 3600}  # safety net on a shared machine; a capped run is reported as non-exhaustive
BOUNDS = {
    "quick": "uninstall: <= 2 non-default slots of 5 (5 states); replace: <= 2 non-default slots (12 states); install: <= 2 (5 states); x spellings (4 when /usr/lib/a is active) x z {none, /d/s/z, /d/z} x extra-dirs {no, yes} x order {asc, desc}",
    "thorough": "uninstall: <= 4 non-default slots (6 states); replace: <= 3; install: <= 3; same cross product, plus the offset passed with a trailing slash",
}

SLOTS = {"a": "/usr/lib/a", "c": "/etc/c", "f": "/d/f", "k": "/d/s/k", "l": "/l"}
ALT_A = "/lb/a"
DIRS = ["/usr", "/usr/lib", "/etc", "/d", "/d/s"]
PROTECTED = {"/usr", "/usr/lib", "/etc"}
# state -> (owned by old, new kind or None, live)
STATES = {
    "u": (False, None, "file"),
    "o": (True, None, "file"),
    "os": (True, None, "symout"),
    "od": (True, None, "symdir"),
    "og": (True, None, None),
    "n": (False, "file", None),
    "ns": (False, "sym", None),
    "nu": (False, "file", "file"),
    "on": (True, "file", "file"),
    "ons": (True, "sym", "file"),
    "ong": (True, "file", None),
    "onS": (True, "file", "symout"),
}
UNINSTALL_Q = ["u", "o", "os", "og"]
UNINSTALL_T = ["u", "o", "os", "od", "og"]
INSTALL = ["u", "n", "ns", "nu"]
REPLACE = ["u", "o", "os", "og", "n", "ns", "nu", "on", "ons", "ong", "onS"]
REPLACE_T = REPLACE + ["od"]

OLD_DATA = "old-content\n"
NEW_DATA = "new-content-of-the-replacement\n"
UNLISTED_DATA = "not-owned\n"


def ancestors(path):
    out = []
    while True:
        path = os.path.dirname(path)
        if path in ("/", ""):
            return out[::-1]
        out.append(path)


def spelled(slot, which, scn):
    """lexical path of a slot in the old (which=0) / new (which=1) contents"""
    if slot == "a" and scn["spell"][which] == 2:
        return ALT_A
    return SLOTS[slot]


def contents_of(scn, which):
    """[(path, kind)] of the old (0) / new (1) contents set, directories included."""
    ents = {}
    for slot, st in scn["slots"].items():
        owned, newkind, _live = STATES[st]
        if which == 0 and owned:
            ents[spelled(slot, 0, scn)] = "file"
        if which == 1 and newkind:
            ents[spelled(slot, 1, scn)] = newkind
    for p in list(ents):
        for d in ancestors(p):
            ents[d] = "dir"
    if which == 0 and scn["extra"] and ents:
        for d in DIRS:
            ents[d] = "dir"
    return sorted(ents.items(), reverse=scn["ord"] == "desc")


def uses_link(scn):
    return 2 in scn["spell"]


# ---------------------------------------------------------------------------------------------
# building


def _write(path, data, mode=0o644, mtime=1000000000):
    with open(path, "w") as f:
        f.write(data)
    os.chmod(path, mode)
    os.utime(path, (mtime, mtime))


def build_live(dst, scn):
    shutil.rmtree(dst, ignore_errors=True)
    os.mkdir(dst, 0o755)
    os.mkdir(dst + "/out")
    _write(dst + "/out/t", "outside-target\n")
    os.mkdir(dst + "/out/dd")
    _write(dst + "/out/dd/q", "outside-dir-child\n")
    need = set()
    for slot, st in scn["slots"].items():
        owned, _newkind, live = STATES[st]
        if owned or live:
            need.update(ancestors(SLOTS[slot]))
    if scn["extra"] and contents_of(scn, 0):
        need.update(DIRS)
    if scn["z"] == "S":
        need.update(["/d", "/d/s"])
    elif scn["z"] == "D":
        need.add("/d")
    if uses_link(scn):
        need.update(["/usr", "/usr/lib"])
    for d in sorted(need):
        os.mkdir(dst + d, 0o755)
    if uses_link(scn):
        os.symlink("usr/lib", dst + "/lb")
        os.utime(dst + "/lb", (1000000001, 1000000001), follow_symlinks=False)
    if scn["z"] == "S":
        _write(dst + "/d/s/z", UNLISTED_DATA)
    elif scn["z"] == "D":
        _write(dst + "/d/z", UNLISTED_DATA)
    for slot, st in scn["slots"].items():
        _owned, _newkind, live = STATES[st]
        p = dst + SLOTS[slot]
        depth = SLOTS[slot].count("/") - 1
        if live == "file":
            _write(p, OLD_DATA if st != "u" and st != "nu" else UNLISTED_DATA, 0o640)
        elif live == "symout":
            os.symlink("../" * depth + "out/t", p)
            os.utime(p, (1000000002, 1000000002), follow_symlinks=False)
        elif live == "symdir":
            os.symlink("../" * depth + "out/dd", p)
            os.utime(p, (1000000002, 1000000002), follow_symlinks=False)


def build_image(src, scn):
    shutil.rmtree(src, ignore_errors=True)
    os.mkdir(src)
    _write(src + "/new", NEW_DATA)


class _Pkg:
    def __init__(self, cset, label):
        self.contents = cset
        self.label = label

    def __str__(self):
        return f"pkg:{self.label}"


def make_pkg(src, scn, which):
    from pkgcore.fs import contents, fs
    from snakeoil.data_source import local_source

    objs = []
    common = dict(mode=0o644, uid=0, gid=0, mtime=1200000000)
    for path, kind in contents_of(scn, which):
        if kind == "dir":
            objs.append(fs.fsDir(path, mode=0o755, uid=0, gid=0, mtime=1200000000))
        elif kind == "sym":
            objs.append(fs.fsSymlink(path, "new-target", mode=0o777, uid=0, gid=0, mtime=1200000000))
        elif which == 1:
            objs.append(fs.fsFile(path, data=local_source(src + "/new"), dev=None, inode=None, **common))
        else:
            objs.append(fs.fsFile(path, data=local_source(src + "/does-not-exist"), dev=None, inode=None, **common))
    return _Pkg(contents.contentsSet(objs), "new" if which else "old")


def run_engine(scn, base):
    """Drive a real engine. Returns exception or None."""
    from pkgcore.merge import triggers
    from pkgcore.merge.engine import MergeEngine
    from pkgcore.operations import observer as obs

    observer = obs.repo_observer(obs.null_output())  # what operations/domain.py always supplies (observer=None is C23's finding)

    dst, src, tmp = base + "/dst", base + "/src", base + "/tmp"
    shutil.rmtree(tmp, ignore_errors=True)
    os.mkdir(tmp)
    offset = dst + ("/" if scn.get("slash") else "")
    try:
        if scn["mode"] == "uninstall":
            eng = MergeEngine.uninstall(tmp, make_pkg(src, scn, 0), offset=offset, observer=observer, disable_plugins=True)
            hooks = ("sanity_check", "pre_unmerge", "unmerge", "post_unmerge", "final")
        elif scn["mode"] == "install":
            eng = MergeEngine.install(tmp, make_pkg(src, scn, 1), offset=offset, observer=observer, disable_plugins=True)
            hooks = ("sanity_check", "pre_merge", "merge", "post_merge", "final")
        else:
            eng = MergeEngine.replace(tmp, make_pkg(src, scn, 0), make_pkg(src, scn, 1), offset=offset, observer=observer, disable_plugins=True)
            hooks = ("sanity_check", "pre_merge", "merge", "post_merge", "pre_unmerge", "unmerge", "post_unmerge", "final")
        for t in (triggers.merge, triggers.unmerge, triggers.BaseSystemUnmergeProtection):
            t().register(eng)
        for h in hooks:
            getattr(eng, h)()
        return None
    except Exception as e:
        return e


# ---------------------------------------------------------------------------------------------
# reference model


def real(path):
    """resolved location of a contents path in the live root (only /lb is ever a directory symlink)"""
    if path == "/lb" or path.startswith("/lb/"):
        return "/usr/lib" + path[3:]
    return path


def expected(scn, before):
    """(expected path -> Ent | ('new', kind) | ('dir',), tolerant paths, notes)"""
    exp = dict(before)
    mode = scn["mode"]
    old = contents_of(scn, 0) if mode != "install" else []
    new = contents_of(scn, 1) if mode != "uninstall" else []
    link = uses_link(scn)
    new_real = {real(p) if link else p for p, _k in new}
    tolerant = set()
    # install side
    for p, kind in new:
        rp = real(p) if link else p
        if kind == "dir":
            if rp not in exp:
                exp[rp] = ("dir",)
        else:
            exp[rp] = ("new", kind)
    # removal side
    for p, kind in old:
        if kind == "dir":
            continue
        rp = real(p) if link else p
        if rp in new_real:
            continue
        if link and p != rp:
            tolerant.add(rp)  # owned file reached only through the listed, symlinked directory
            continue
        exp.pop(rp, None)
    dirs = sorted((p for p, k in old if k == "dir"), key=lambda p: -p.count("/"))
    for p in dirs:
        if link and p == "/lb":
            if not any(q == "/lb" for q, _k in new):
                tolerant.add("/lb")
            continue
        if p in PROTECTED or p in new_real:
            continue
        e = exp.get(p)
        if e is None or not (isinstance(e, fsnap.Ent) and e.kind == "dir"):
            continue
        if any(q.startswith(p + "/") for q in exp):
            continue
        del exp[p]
    return exp, tolerant


def judge(scn, base):
    dst, src = base + "/dst", base + "/src"
    build_live(dst, scn)
    before = fsnap.snapshot(dst)
    exc = run_engine(scn, base)
    after = fsnap.snapshot(dst)
    msgs, classes = [], []
    if exc is not None:
        msgs.append(f"engine raised {type(exc).__name__}: {exc}".replace(dst, "<root>"))
        classes.append("outcome:raised-" + type(exc).__name__)
        return msgs, classes
    classes.append("outcome:" + scn["mode"])
    exp, tolerant = expected(scn, before)
    for p in sorted(set(exp) | set(after)):
        e, a = exp.get(p), after.get(p)
        if p in tolerant:
            if a is not None and not fsnap.same(before.get(p), a):
                msgs.append(f"{p} changed {fsnap.describe(before.get(p))} -> {fsnap.describe(a)}")
            continue
        if e is None:
            kind = "created" if p not in before else "left behind (owned, not re-installed)"
            msgs.append(f"{p} {kind}: {fsnap.describe(a)}")
        elif a is None:
            if isinstance(e, tuple) and not isinstance(e, fsnap.Ent):
                msgs.append(f"{p}: entry of the new package is missing after the {scn['mode']} ({e[-1]})")
            elif e.kind == "dir":
                why = "protected base directory" if p in PROTECTED else ("non-empty or unlisted directory" if before.get(p) else "directory")
                msgs.append(f"{p} removed: {why} {fsnap.describe(e)}")
            else:
                msgs.append(f"{p} removed although not owned (or re-installed): {fsnap.describe(e)}")
        elif isinstance(e, fsnap.Ent):
            if not fsnap.same(e, a):
                msgs.append(f"{p} changed {fsnap.describe(e)} -> {fsnap.describe(a)}")
        elif e[0] == "dir":
            if a.kind != "dir":
                msgs.append(f"{p}: directory of the new package is a {a.kind}")
        else:
            want = e[1]
            if a.kind != want or (want == "file" and a.data != NEW_DATA) or (want == "sym" and a.target != "new-target"):
                msgs.append(f"{p}: new {want} entry is {fsnap.describe(a)} after the {scn['mode']}")
    # measured classes
    for slot, st in scn["slots"].items():
        rp = SLOTS[slot]
        b, a = before.get(rp), after.get(rp)
        sp = ""
        if slot == "a" and uses_link(scn):
            sp = f"/spelled-{scn['spell'][0]}{scn['spell'][1]}"
        classes.append(f"slot:{st}:{b.kind if b else 'absent'}->{a.kind if a else 'absent'}{sp}")
    for d in DIRS:
        if d in before:
            classes.append(f"dir:{d}:{'kept' if d in after else 'removed'}")
    return msgs, classes


# ---------------------------------------------------------------------------------------------
# enumeration


def scenarios(tier):
    thorough = tier == "thorough"
    plans = [
        ("uninstall", UNINSTALL_T if thorough else UNINSTALL_Q, 4 if thorough else 2),
        ("replace", REPLACE_T if thorough else REPLACE, 3 if thorough else 2),
        ("install", INSTALL, 3 if thorough else 2),
    ]
    for mode, states, maxn in plans:
        for n in range(0, maxn + 1):
            for slots in itertools.combinations(sorted(SLOTS), n):
                for sts in itertools.product(states, repeat=n):
                    sd = dict(zip(slots, sts))
                    if mode != "install" and not any(STATES[s][0] for s in sts) and n:
                        # nothing owned: the old package is empty -- keep one representative per n only for replace
                        if mode == "uninstall":
                            continue
                    a_st = sd.get("a")
                    if a_st is None or a_st == "u":
                        spells = [(1, 1)]
                    else:
                        owned, newkind, _ = STATES[a_st]
                        so = [1, 2] if owned and mode != "install" else [1]
                        sn = [1, 2] if newkind and mode != "uninstall" else [1]
                        spells = list(itertools.product(so, sn))
                    for spell in spells:
                        for z in ("none", "S", "D"):
                            for extra in (False, True):
                                if extra and not any(STATES[s][0] for s in sts):
                                    continue
                                for order in ("asc", "desc"):
                                    for slash in (False, True) if thorough else (False,):
                                        scn = {"mode": mode, "slots": sd, "spell": list(spell), "z": z, "extra": extra, "ord": order}
                                        if slash:
                                            scn["slash"] = True
                                        yield scn


CHUNK = {"quick": 250, "thorough": 1500}


def tasks(tier):
    n = sum(1 for _ in scenarios(tier))
    return [(tier, lo, min(lo + CHUNK[tier], n)) for lo in range(0, n, CHUNK[tier])]


def work(task):
    tier, lo, hi = task
    base = tempfile.mkdtemp(dir="/dev/shm", prefix=f"verif-C20-{os.getpid()}-")
    evals, classes, viol, samples = 0, {}, [], []
    old_umask = os.umask(0o022)
    try:
        build_image(base + "/src", None)
        for scn in itertools.islice(scenarios(tier), lo, hi):
            evals += 1
            msgs, cl = judge(scn, base)
            for c in cl:
                classes[c] = classes.get(c, 0) + 1
            if msgs:
                viol.append({"scn": scn, "msg": "; ".join(msgs[:3])})
            elif len(samples) < 2 and len(scn["slots"]) >= 2:
                samples.append(scn)
    finally:
        os.umask(old_umask)
        shutil.rmtree(base, ignore_errors=True)
    viol.sort(key=lambda c: (len(c["scn"]["slots"]), c["scn"]["z"] != "none", c["scn"]["extra"], len(str(c))))
    return {"evals": evals, "classes": classes, "viol": viol, "samples": samples}


def replay(case):
    base = tempfile.mkdtemp(dir="/dev/shm", prefix=f"verif-C20-{os.getpid()}-replay-")
    old_umask = os.umask(0o022)
    try:
        build_image(base + "/src", None)
        msgs, _ = judge(case["scn"], base)
        return msgs
    finally:
        os.umask(old_umask)
        shutil.rmtree(base, ignore_errors=True)


def _alias(case):
    """replace: the old contents own /usr/lib/a under one spelling and the new package installs the same file under the
    other spelling (one of them through the live directory symlink /lb -> usr/lib)."""
    scn = case["scn"]
    st = scn["slots"].get("a")
    if scn["mode"] != "replace" or st is None:
        return False
    owned, newkind, _ = STATES[st]
    return bool(owned and newkind and scn["spell"][0] != scn["spell"][1])


def _uninstall_offset(case):
    """uninstall engine with a non-'/' offset and something owned: the livefs intersection is taken before the offset is applied, so what
    is found depends on the host's own root and, in a scratch root, nothing is removed."""
    scn = case["scn"]
    return scn["mode"] == "uninstall" and any(STATES[s][0] for s in scn["slots"].values())


CLASSIFIERS = {"replaced-file-reached-through-directory-symlink": _alias, "uninstall-engine-ignores-offset": _uninstall_offset}
