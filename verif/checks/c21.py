"""C21 protected configuration files are never silently overwritten or removed.

Exhaustive enumeration on a real tmpfs tree: every (env.d configuration, package file, live-filesystem state) of a
bounded alphabet is merged / replaced / unmerged through a real MergeEngine with the real ebuild triggers registered.
The "/" code path is exercised inside a chroot(2) of the scratch tree (forked child per case), the non-"/" path with
offset=<scratch root>.  The oracle is the property statement, evaluated on the resulting tree and recorded contents.
"""

import fnmatch
import hashlib
import itertools
import json
import os
import shutil
import sys
import traceback

PROPERTY = "C21"
LEVEL = "exploration"
ENGINE = "enum"
TECHNIQUE = (
    "exhaustive enumeration of (CONFIG_PROTECT/CONFIG_PROTECT_MASK/COLLISION_IGNORE configuration x package file path x "
    "existing-file state x pending ._cfg updates x engine mode x offset kind) executed on a real tmpfs tree through the real "
    "MergeEngine + ebuild triggers (offset '/' inside a chroot of the scratch tree), judged by the property statement"
)
RULE = (
    "every case of the product is executed in a fresh forked child: the scratch root gets etc/env.d, the existing file and "
    "pending ._cfgNNNN_ updates, the package image the incoming file; MergeEngine.install/replace/uninstall with merge/unmerge + "
    "ConfigProtectInstall/ConfigProtectUninstall runs sanity_check..final; the parent compares the resulting tree and "
    "get_merged_cset() with the statement for every file that an independent reference predicate says is protected "
    "(under a listed CONFIG_PROTECT dir, not under a MASK dir, not matched by COLLISION_IGNORE) and differs. History cases run a first operation under env.d state E1 in the same process on the same root path, rewrite the existing env.d file in place to E2 (nothing added to or removed from etc/env.d) and judge the second operation with E2 (class hist/<transition>/<outcome>). A class is "
    "(operation, offset kind, per-file observed outcome); distinct_nontrivial counts classes observed."
)
ASSUMPTIONS = [
    "default merge plugins (ldconfig, InfoRegen, perms fixers) are disabled: only merge/unmerge and the ConfigProtect triggers are registered (ldconfig spawns /sbin/ldconfig, unusable in a chroot)",
    "offset '/' is exercised inside chroot(scratch root) in a forked child, so /etc/env.d, /etc, /opt/c are the literal paths the code sees; a tripwire aborts the check (engine error) if pkgcore lazily loads code after the chroot",
    "Excl: one-directional oracle - the statement only forbids overwriting/removing protected differing files; files the reference considers unprotected (masked, ignored, outside CONFIG_PROTECT, or CONFIG_PROTECT unset) carry no demand and are only counted as classes",
    "Excl: CONFIG_PROTECT/MASK entries are directories (file entries are arguable); COLLISION_IGNORE globs are chosen so that anchoring at the start of the path makes no difference (pkgcore uses an unanchored search: '/x' also ignores '/y/x')",
    "Excl: more than 9999 pending updates, non-regular files, names '.keep*' (built-in ignores)",
    "Excl: when several pending updates are identical to the incoming file any of their numbers may be reused",
    "histories have depth 2 and change CONFIG_PROTECT / CONFIG_PROTECT_MASK in env.d only (COLLISION_IGNORE and the configured extra_protects stay fixed); the first operation is executed but not judged again (it is a member of the one-operation space); replay rebuilds the whole history in a fresh process",
    "all '/'-offset cases of one task share one forked child (fork is very expensive on the host) which wipes its chroot between cases; every engine/trigger/package object is created per case and a single-case replay must reproduce the batch verdict (checked by the runner)",
]
BOUNDS = {
    "quick": "3,966 executions (3,726 one-operation cases + 240 depth-2 histories); the one-operation cases are a covering selection of the thorough product (all 9 paths everywhere). install at '/': all 12 CONFIG_PROTECT x MASK combinations without COLLISION_IGNORE x 7 existing/pending states, plus 12 COLLISION_IGNORE configurations (4 spellings x 2-4 CONFIG_PROTECT/MASK pairs) and 4 extra_protects/extra_disables configurations x 4 deciding states; install at a non-'/' offset: 12 x 4 + 6 x 3 states; uninstall: 16 configurations x {absent,} unmodified, modified x 2 offsets; replace: 8 configurations x {identical, differing, differing+pending, differing+dropped unmodified, differing+dropped modified} x 2 offsets; depth-2 histories on one root in one process: 4 env.d transitions (add/remove a CONFIG_PROTECT dir, add/remove a MASK dir, file rewritten in place) x first operation {install, uninstall, replace} x 2 offsets x 10 second operations (install/uninstall/replace on the affected path and on a control path) = 240",
    "thorough": "318k executions. install: 280 configurations (5 x 4 x 7 x {env.d, extra}) x 9 paths x 4 existing x 9 pending states x 2 offsets; + junk/decoy ._cfg names; + two-file packages (same directory, two protected directories; 25 state pairs); replace over all configurations x 8 states x 3 dropped-file states; uninstall x 4 live states; depth-2 histories: 10 env.d transitions x 3 first operations x 2 offsets x 17 second operations = 1020",
}
TIME_CAP = {"thorough": 840}

NAME = "vq"
# the package file universe: (path, what it probes)
PATHS = [
    "/etc/vq",
    "/etc/sub/vq",
    "/etc/m/vq",
    "/etc/mm/vq",
    "/opt/c/vq",
    "/opt/c/m/vq",
    "/etc/ig/vq",
    "/etc/vq.ign",
    "/srv/vq",
]
PROTECTS = {"quick": [None, "/etc", "/opt/c/", "/etc /opt/c"], "thorough": [None, "/etc", "/opt/c/", "/etc /opt/c", "/opt//c /etc/"]}
MASKS = {"quick": [None, "/etc/m", "/etc/m /opt/c/m"], "thorough": [None, "/etc/m", "/etc/m /opt/c/m", "/etc/m/"]}
# (value, declared): declared "plain" = just COLLISION_IGNORE="..", "ss" = also SPACE_SEPARATED="COLLISION_IGNORE"
IGNORES = {
    "quick": [(None, "plain"), ("*.ign", "plain"), ("*.ign", "ss"), ("/etc/ig", "ss"), ("/etc/ig", "plain")],
    "thorough": [
        (None, "plain"),
        ("*.ign", "plain"),
        ("*.ign", "ss"),
        ("/etc/ig", "ss"),
        ("/etc/ig", "plain"),
        ("/etc/ig/*", "ss"),
        ("/etc/vq.ign /etc/ig/", "ss"),
    ],
}
IGNORE_DIRS = ["/etc/ig"]  # always exist in the pre-state, so a bare entry is a "directory entry"

# content tokens: N = incoming, I = identical to incoming, D = differs (same size), L = differs (other size), A = absent
CONTENT = {"N": "incoming-aaaa\n", "I": "incoming-aaaa\n", "D": "incoming-bbbb\n", "L": "locally edited, longer\n", "R": "recorded-old.\n"}
assert len(CONTENT["N"]) == len(CONTENT["D"]) == len(CONTENT["R"])


# ------------------------------------------------------------------ reference predicates (no pkgcore)
def _norm(p):
    return "/" + "/".join(c for c in p.split("/") if c)


def ref_under(p, entries):
    for e in entries:
        e = _norm(e)
        if p.startswith(e + "/"):
            return True
    return False


def ref_ignored(p, entries):
    for e in entries:
        if fnmatch.fnmatchcase(p, e):
            return True
        if _norm(e) in IGNORE_DIRS and e.rstrip("/") == _norm(e) and p.startswith(_norm(e) + "/"):
            return True
    return False


def ref_protected(p, case):
    """Does the statement demand protection for path p (relative to the offset) under this configuration?"""
    if case["protect"] is None:
        return False
    if not ref_under(p, case["protect"].split()):
        return False
    if case["mask"] and ref_under(p, case["mask"].split()):
        return False
    if case["ignore"] and ref_ignored(p, case["ignore"].split()):
        return False
    return True


def why_unprotected(p, case):
    if case["protect"] is None:
        return "protect-unset"
    if not ref_under(p, case["protect"].split()):
        return "outside"
    if case["mask"] and ref_under(p, case["mask"].split()):
        return "masked"
    return "ignored"


def cfgname(p, n):
    d, b = p.rsplit("/", 1)
    return f"{d}/._cfg{n:04d}_{b}"


def pre_state(case):
    """Files (path relative to root -> content) existing before the operation, excluding env.d."""
    files = {}
    for f in case.get("files", ()):
        if f["ex"] != "A":
            files[f["p"]] = CONTENT[f["ex"]]
        for n, tok in f.get("pend", ()):
            files[cfgname(f["p"], n)] = CONTENT[tok]
        for junk in f.get("junk", ()):
            d = f["p"].rsplit("/", 1)[0]
            files[f"{d}/{junk}"] = "junk\n"
    for f in case.get("ufiles", ()):
        if f["live"] != "A":
            files[f["p"]] = CONTENT[f["live"]]
    return files


def envd_text(case):
    lines = []
    if case["src"] == "envd":
        if case["protect"] is not None:
            lines.append(f'CONFIG_PROTECT="{case["protect"]}"')
        if case["mask"] is not None:
            lines.append(f'CONFIG_PROTECT_MASK="{case["mask"]}"')
    if case["ignore"] is not None:
        if case["igdecl"] == "ss":
            lines.append('SPACE_SEPARATED="COLLISION_IGNORE"')
        lines.append(f'COLLISION_IGNORE="{case["ignore"]}"')
    return "".join(l + "\n" for l in lines)


# ------------------------------------------------------------------ execution on the real code
# Process creation is very expensive on the verification host, so a batch of cases shares one forked child:
# offset-mode cases run in the worker itself, all '/'-mode cases of a batch run sequentially in ONE child that has
# chroot()ed into an empty tmpfs directory and wipes it between cases.  Every engine/trigger object is created per case.
_base_counter = [0]
AUX = (".img", ".tmp", ".old")


def _scratch():
    top = f"/dev/shm/verif-C21-{os.getpid()}"
    _base_counter[0] += 1
    base = os.path.join(top, str(_base_counter[0]))
    os.makedirs(base)
    return top, base


def _write(path, text):
    os.makedirs(os.path.dirname(path), exist_ok=True)
    with open(path, "w") as f:
        f.write(text)


def _build_tree(case, root, aux):
    """root: directory that is the offset (or '/' in the chroot); aux: where image/tmp/CONTENTS go."""
    os.makedirs(os.path.join(root, "etc/env.d"), exist_ok="hist" in case)
    for d in IGNORE_DIRS:
        os.makedirs(root.rstrip("/") + d, exist_ok=True)
    txt = envd_text(case)
    if txt or "hist" in case or case.get("hist1"):
        # histories: the file exists from step 1 on and is rewritten IN PLACE (open(..., "w") on the same inode; nothing
        # is added to or removed from etc/env.d, so the directory's own mtime does not move)
        _write(os.path.join(root, "etc/env.d/50verif"), txt)
    for p, content in pre_state(case).items():
        _write(root.rstrip("/") + p, content)
    os.makedirs(os.path.join(aux, ".tmp"))
    img = os.path.join(aux, ".img")
    os.makedirs(img)
    for f in case.get("files", ()):
        _write(img + f["p"], CONTENT["N"])
    recorded = []
    dirs = set()
    for f in list(case.get("ufiles", ())) + (list(case.get("files", ())) if case["op"] == "replace" else []):
        p = f["p"]
        comps = p.split("/")[1:-1]
        for i in range(1, len(comps) + 1):
            dirs.add("/" + "/".join(comps[:i]))
        # the old package recorded content R for every file it owned
        recorded.append(f"obj {p} {hashlib.md5(CONTENT['R'].encode()).hexdigest()} 1000")
    if recorded:
        _write(os.path.join(aux, ".old/CONTENTS"), "".join(f"dir {d}\n" for d in sorted(dirs)) + "".join(l + "\n" for l in recorded))


class _Recorder:
    """observer output that keeps warnings (the engine reports suppressed trigger exceptions through observer.warn)"""

    def __init__(self):
        self.warnings = []

    def warn(self, msg, *a, **kw):
        self.warnings.append(str(msg))

    def error(self, msg, *a, **kw):
        self.warnings.append(str(msg))

    def info(self, msg, *a, **kw):
        pass

    debug = write = info

    def flush(self):
        pass


class _Pkg:
    def __init__(self, contents):
        self.contents = contents


def _snapshot(root):
    out = {}
    for dp, dns, fns in os.walk(root):
        rel = dp[len(root.rstrip("/")) :] or "/"
        dns[:] = [d for d in dns if not (rel == "/" and d in AUX)]
        for fn in fns:
            p = os.path.join(dp, fn)
            r = rel.rstrip("/") + "/" + fn
            if os.path.islink(p) or not os.path.isfile(p):
                out[r] = "<special>"
            else:
                with open(p, errors="replace") as f:
                    out[r] = f.read()
    return out


def _tripwire_install(hits):
    watched = tuple(
        p
        for p in {sys.prefix, sys.base_prefix, os.environ.get("VERIF_PKGCORE_ROOT", "/repo"), "/venv", "/usr/lib/python", os.path.dirname(os.path.dirname(os.path.abspath(__file__)))}
        if p
    )

    def hook(event, args):
        if event == "import":
            hits.append(f"import {args[0]}")
        elif event in ("open", "os.listdir", "os.scandir") and args and isinstance(args[0], str) and args[0].startswith(watched):
            if event == "open" and args[0].endswith(".py"):
                return  # linecache looking for source text while pkgcore formats a suppressed traceback: harmless
            hits.append(f"{event} {args[0]}")

    sys.addaudithook(hook)


def hist_step1(case):
    """The first operation of a depth-2 history: same root, same process, env.d state E1 = case['hist']."""
    h = case["hist"]
    c = {"op": h["op"], "mode": case["mode"], "src": case["src"], "protect": h["protect"], "mask": h["mask"], "ignore": case["ignore"], "igdecl": case["igdecl"], "hist1": True}
    if h["op"] == "install":
        c["files"] = [{"p": "/etc/h1", "ex": "A", "pend": []}]
    elif h["op"] == "replace":
        c["files"] = [{"p": "/etc/h1", "ex": "I", "pend": []}]
    else:
        c["ufiles"] = [{"p": "/etc/h1", "live": "R"}]
    return c


def _wipe_keep_envd(root, aux):
    """Between the two operations of a history: drop everything except <root>/etc/env.d and the file in it."""
    for name in os.listdir(root):
        if name == "etc":
            for n2 in os.listdir(os.path.join(root, "etc")):
                if n2 != "env.d":
                    q = os.path.join(root, "etc", n2)
                    shutil.rmtree(q) if os.path.isdir(q) and not os.path.islink(q) else os.unlink(q)
        elif not (aux != root and os.path.join(root, name) == aux):
            q = os.path.join(root, name)
            shutil.rmtree(q) if os.path.isdir(q) and not os.path.islink(q) else os.unlink(q)
    if aux != root:
        for name in AUX:
            shutil.rmtree(os.path.join(aux, name), ignore_errors=True)


def _run_case(case, root, aux, offset):
    """One case on the real code.  A history case (key "hist") first runs operation 1 under env.d state E1 in the same
    process on the same root path, rewrites the env.d file in place to the case's own (E2) settings and then runs the
    case's operation; only that second operation is observed and judged (with E2)."""
    if "hist" in case:
        first = _run_op(hist_step1(case), root, aux, offset)
        _wipe_keep_envd(root, aux)
        res = _run_op(case, root, aux, offset)
        res["hist1_exc"] = first["exc"]
        return res
    return _run_op(case, root, aux, offset)


def _run_op(case, root, aux, offset):
    """Build the pre-state and drive the real engine once. root == '/' inside the chroot."""
    from pkgcore.ebuild import triggers as et
    from pkgcore.fs import livefs
    from pkgcore.merge import triggers as mt
    from pkgcore.merge.engine import MergeEngine
    from pkgcore.operations import observer as om
    from pkgcore.vdb.contents import ContentsFile

    _build_tree(case, root, aux)
    res = {"exc": None, "phase": None, "recorded": None, "uninstall_seen": None}
    rec = _Recorder()
    obs = om.repo_observer(rec)
    tmp = os.path.join(aux, ".tmp")
    img = os.path.join(aux, ".img")
    phase = "setup"
    try:
        new = old = None
        if case["op"] in ("install", "replace"):
            new = _Pkg(livefs.scan(img, offset=img))
        if case["op"] in ("uninstall", "replace"):
            old = _Pkg(ContentsFile(os.path.join(aux, ".old/CONTENTS")))
        if case["op"] == "install":
            e = MergeEngine.install(tmp, new, offset=offset, observer=obs, disable_plugins=True)
        elif case["op"] == "replace":
            e = MergeEngine.replace(tmp, old, new, offset=offset, observer=obs, disable_plugins=True)
        else:
            e = MergeEngine.uninstall(tmp, old, offset=offset, observer=obs, disable_plugins=True)
        if case["op"] in ("install", "replace"):
            mt.merge().register(e)
            if case["src"] == "extra":
                prot = (case["protect"] or "").split()
                mask = (case["mask"] or "").split()
                et.ConfigProtectInstall(prot, mask).register(e)
            else:
                et.ConfigProtectInstall().register(e)
        if case["op"] in ("uninstall", "replace"):
            mt.unmerge().register(e)
            if case["src"] == "extra":
                # mirror the wiring of ebuild.triggers.generate_triggers: the configured CONFIG_PROTECT /
                # CONFIG_PROTECT_MASK go to both triggers (a tree whose uninstall trigger takes no
                # arguments gets none, as its own wiring would do)
                prot = (case["protect"] or "").split()
                mask = (case["mask"] or "").split()
                try:
                    un = et.ConfigProtectUninstall(prot, mask)
                except TypeError:
                    un = et.ConfigProtectUninstall()
                un.register(e)
            else:
                et.ConfigProtectUninstall().register(e)
        phase = "sanity_check"
        e.sanity_check()
        if case["op"] in ("install", "replace"):
            for phase in ("pre_merge", "merge", "post_merge"):
                getattr(e, phase)()
            phase = "get_merged_cset"
            res["recorded"] = sorted(x.location for x in e.get_merged_cset() if x.is_reg)
        if case["op"] in ("uninstall", "replace"):
            phase = "pre_unmerge"
            e.pre_unmerge()
            res["uninstall_seen"] = len(list(e.csets["uninstall"]))
            for phase in ("unmerge", "post_unmerge"):
                getattr(e, phase)()
        phase = "final"
        e.final()
    except Exception as exc:  # the outcome, not an engine error
        res["exc"] = f"{type(exc).__name__}: {exc}"[:300]
        res["phase"] = phase
    res["fs"] = _snapshot(root)
    # last line of every suppressed traceback / warning, e.g. "AttributeError: 'str' object has no attribute 'extend'"
    res["warn"] = [w.strip().splitlines()[-1][:200] for w in rec.warnings if w.strip()][:5]
    return res


_warm = []


def _warm_up():
    """Load everything needed in the worker, once (nothing may be imported after chroot)."""
    if _warm:
        return
    import snakeoil.chksum

    import pkgcore.ebuild.triggers  # noqa: F401
    import pkgcore.fs.livefs  # noqa: F401
    import pkgcore.fs.ops  # noqa: F401
    import pkgcore.merge.engine  # noqa: F401
    import pkgcore.merge.triggers  # noqa: F401
    import pkgcore.operations.observer  # noqa: F401
    import pkgcore.vdb.contents  # noqa: F401

    snakeoil.chksum.get_handlers()  # handlers are discovered by listing the package directory: do it before chroot
    _warm.append(1)


def _chroot_child(cases, jail, wfd):
    """In the forked child: chroot into the empty directory `jail`, run every case at offset '/'."""
    os.chroot(jail)
    os.chdir("/")
    hits = []
    _tripwire_install(hits)
    out = []
    for case in cases:
        for name in os.listdir("/"):
            shutil.rmtree("/" + name)
        res = _run_case(case, "/", "/", None)
        res["tripwire"] = hits[:10]
        out.append(res)
    for name in os.listdir("/"):
        shutil.rmtree("/" + name)
    with os.fdopen(wfd, "w") as f:
        json.dump(out, f)


def execute_batch(cases):
    """Run the cases on the real code; returns the list of observation dicts (same order)."""
    _warm_up()
    results = [None] * len(cases)
    top, base = _scratch()
    try:
        # non-'/' offset: in this process, a fresh directory per case
        for i, case in enumerate(cases):
            if case["mode"] != "offset":
                continue
            d = os.path.join(base, f"o{i}")
            root = os.path.join(d, "root")
            os.makedirs(root)
            try:
                results[i] = _run_case(case, root, d, root)
            finally:
                shutil.rmtree(d, ignore_errors=True)
        idx = [i for i, case in enumerate(cases) if case["mode"] == "root"]
        if idx:
            jail = os.path.join(base, "jail")
            os.makedirs(jail)
            r, w = os.pipe()
            sys.stdout.flush()
            sys.stderr.flush()
            pid = os.fork()
            if pid == 0:
                status = 0
                try:
                    os.close(r)
                    try:
                        _chroot_child([cases[i] for i in idx], jail, w)
                    except BaseException as e:  # harness failure inside the child
                        with os.fdopen(w, "w") as f:
                            json.dump({"harness_error": f"{type(e).__name__}: {e} | {traceback.format_exc()}"}, f)
                except BaseException:
                    status = 1
                finally:
                    os._exit(status)
            os.close(w)
            with os.fdopen(r) as f:
                data = f.read()
            _, st = os.waitpid(pid, 0)
            if st != 0 or not data:
                raise RuntimeError(f"C21 child failed status={st}")
            out = json.loads(data)
            if isinstance(out, dict):
                raise RuntimeError("C21 harness error in child: " + out["harness_error"])
            for i, res in zip(idx, out):
                if res.get("tripwire"):
                    raise RuntimeError(f"C21 tripwire: code loaded lazily inside the chroot, results unreliable: {res['tripwire']}")
                results[i] = res
        return results
    finally:
        shutil.rmtree(base, ignore_errors=True)
        try:
            os.rmdir(top)
        except OSError:
            pass


# ------------------------------------------------------------------ oracle
def judge(case, res):
    """Returns (failures, classes). failures: list of (kind, message)."""
    fails = []
    classes = []
    pre = pre_state(case)
    fs = res["fs"]
    tag = f"{case['op']}/{case['mode']}" if "hist" not in case else f"hist/{case['hist']['t']}"
    exc = res["exc"]
    if exc:
        classes.append(f"{tag}/raised-in-{res['phase']}")
    if res.get("warn"):
        classes.append(f"{tag}/trigger-exception-suppressed")
    for f in case.get("files", ()):
        p = f["p"]
        new = CONTENT["N"]
        old = pre.get(p)
        pend = {n: CONTENT[tok] for n, tok in f.get("pend", ())}
        d, b = p.rsplit("/", 1)
        cfg_now = {}
        for q, content in fs.items():
            if q.startswith(f"{d}/._cfg") and q.endswith("_" + b) and len(q) == len(d) + 1 + 10 + len(b) and q[len(d) + 6 : len(d) + 10].isdigit():
                cfg_now[int(q[len(d) + 6 : len(d) + 10])] = content
        created = sorted(n for n in cfg_now if n not in pend)
        demanded = old is not None and old != new and ref_protected(p, case)
        if demanded:
            if exc:
                fails.append(("raised", f"{p}: protected file differs from the incoming one but the {case['op']} raised in {res['phase']}: {exc}"))
                continue
            ok = True
            if fs.get(p) != old:
                fails.append(("overwritten", f"{p}: protected existing file {old!r} differs from incoming {new!r} but now holds {fs.get(p)!r}"))
                ok = False
            for n, content in pend.items():
                if cfg_now.get(n) != content:
                    fails.append(("pending-clobbered", f"{cfgname(p, n)}: pending update {content!r} now {cfg_now.get(n)!r}"))
                    ok = False
            ident = sorted(n for n, content in pend.items() if content == new)
            if ident:
                if created:
                    fails.append(("number-not-reused", f"{p}: identical pending update(s) {ident} exist but new ._cfg numbers {created} were created"))
                    ok = False
                outcome = "protected-reused-number"
            else:
                mx = max(pend) if pend else -1
                if len(created) != 1 or cfg_now[created[0]] != new:
                    fails.append(("no-cfg-file", f"{p}: incoming file not written as exactly one new ._cfgNNNN_{b} beside it (created {created}, fs keys {sorted(k for k in fs if k.startswith(d + '/'))})"))
                    ok = False
                elif created[0] <= mx:
                    fails.append(("number-not-exceeding", f"{p}: new update number {created[0]} does not exceed existing {sorted(pend)}"))
                    ok = False
                outcome = "protected-new-number" + ("-after-pending" if pend else "")
            rec = res["recorded"] or []
            if p not in rec or any(q.rsplit("/", 1)[-1].startswith("._cfg") for q in rec):
                fails.append(("recorded-name", f"{p}: recorded contents {rec} do not keep the real name"))
                ok = False
            classes.append(f"{tag}/{outcome if ok else 'DEMAND-FAILED'}")
        else:
            if exc:
                continue
            if old is None:
                o = "fresh-install" if fs.get(p) == new else "fresh-not-installed"
            elif old == new:
                o = "identical-kept" if not created else "identical-but-cfg-created"
            else:
                o = ("unprotected-overwritten" if fs.get(p) == new else "overprotected") + ":" + why_unprotected(p, case)
            classes.append(f"{tag}/{o}")
    for f in case.get("ufiles", ()):
        p = f["p"]
        live = pre.get(p)
        demanded = live is not None and live != CONTENT["R"] and ref_protected(p, case)
        if demanded:
            if exc:
                fails.append(("raised", f"{p}: modified protected file but the {case['op']} raised in {res['phase']}: {exc}"))
            elif fs.get(p) != live:
                fails.append(("removed-modified", f"{p}: protected file {live!r} differs from the recorded content but after the unmerge it is {fs.get(p)!r}"))
                classes.append(f"{tag}/DEMAND-FAILED")
            else:
                classes.append(f"{tag}/modified-kept")
        elif not exc:
            if live is None:
                o = "already-absent"
            elif live == CONTENT["R"]:
                o = "unmodified-removed" if p not in fs else "unmodified-kept"
            else:
                o = ("unprotected-removed" if p not in fs else "overprotected") + ":" + why_unprotected(p, case)
            classes.append(f"{tag}/{o}")
    return fails, classes


def check_cases(cases):
    """-> per case (failures [(kind, msg)], classes, suppressed-exception text or None)"""
    cases = [{k: v for k, v in case.items() if k not in ("msg", "fail", "supp")} for case in cases]
    out = []
    for case, res in zip(cases, execute_batch(cases)):
        fails, classes = judge(case, res)
        supp = res["warn"][0] if res.get("warn") else None
        if supp:
            fails = [(k, m + f" [engine suppressed a trigger exception: {supp}]") for k, m in fails]
        out.append((fails, classes, supp))
    return out


# ------------------------------------------------------------------ enumeration
def configs(tier, sources=("envd", "extra")):
    out = []
    for src in sources:
        for prot, mask, (ign, decl) in itertools.product(PROTECTS[tier], MASKS[tier], IGNORES[tier]):
            if src == "extra":
                if prot is None and mask is None:
                    continue  # identical to the env.d variant
                if tier == "quick" and (prot not in ("/etc /opt/c", "/opt/c/") or mask == "/etc/m" or (ign, decl) not in ((None, "plain"), ("*.ign", "ss"))):
                    continue
            out.append({"protect": prot, "mask": mask, "ignore": ign, "igdecl": decl, "src": src})
    return out


def file_states(tier, kind="full"):
    if kind == "small":
        exs = ["I", "D"]
        pends = [[], [[0, "D"]]] if tier == "quick" else [[], [[0, "D"]], [[0, "I"]], [[0, "D"], [3, "I"]]]
    elif kind == "offset-quick":
        exs = ["A", "I", "D"]
        pends = [[], [[0, "D"], [3, "I"]]]
    elif tier == "quick":
        exs = ["A", "I", "D"]
        pends = [[], [[0, "I"]], [[0, "D"], [3, "I"]], [[0, "D"], [3, "D"]]]
    else:
        exs = ["A", "I", "D", "L"]
        pends = [
            [],
            [[0, "I"]],
            [[0, "D"]],
            [[3, "I"]],
            [[3, "L"]],
            [[0, "I"], [3, "D"]],
            [[0, "D"], [3, "I"]],
            [[0, "D"], [3, "D"]],
            [[9, "D"], [10, "L"]],
        ]
    return [(e, p) for e in exs for p in pends]


JUNK = ["._cfgXXXX_vq", "._cfg00_vq", "._cfg0007_other", "._cfg0001-vq"]


def _cfg(prot, mask, ign=None, decl="plain", src="envd"):
    return {"protect": prot, "mask": mask, "ignore": ign, "igdecl": decl, "src": src}


def quick_cases():
    """Every-change tier (~3.4k executions): a covering selection of the thorough product.  Every CONFIG_PROTECT x MASK
    combination without COLLISION_IGNORE gets the full state list; every COLLISION_IGNORE spelling (against two
    CONFIG_PROTECT x two MASK values) and four extra_protects configurations get the deciding states; all 9 paths
    everywhere.  predicted_classes() documents that no outcome class of the larger former selection is lost."""
    out = []
    base = [_cfg(pr, m) for pr in PROTECTS["quick"] for m in MASKS["quick"]]  # 12
    ign = []  # 12: the SPACE_SEPARATED spellings against 2 x 2, the plain-string spellings against the diagonal
    for i, d in IGNORES["quick"][1:]:
        for pr, m in (("/etc", None), ("/etc", "/etc/m"), ("/etc /opt/c", None), ("/etc /opt/c", "/etc/m")):
            if d == "ss" or (pr, m) in (("/etc", None), ("/etc /opt/c", "/etc/m")):
                ign.append(_cfg(pr, m, i, d))
    ign1 = [next(c for c in ign if (c["ignore"], c["igdecl"]) == k) for k in IGNORES["quick"][1:]]  # one per spelling
    extra = [_cfg("/etc /opt/c", None, src="extra"), _cfg("/opt/c/", "/etc/m /opt/c/m", src="extra"),
             _cfg("/etc /opt/c", "/etc/m /opt/c/m", "*.ign", "ss", src="extra"), _cfg("/opt/c/", None, "*.ign", "ss", src="extra")]  # fmt: skip
    p03 = [[0, "D"], [3, "I"]]
    pdd = [[0, "D"], [3, "D"]]
    full = [("A", []), ("I", []), ("I", p03), ("D", []), ("D", [[0, "I"]]), ("D", p03), ("D", pdd)]
    deciding = [("I", []), ("D", []), ("D", [[0, "I"]]), ("D", pdd)]
    # 1. install, one file
    for cfgs, states in ((base, full), (ign + extra, deciding)):
        for cfg in cfgs:
            for p in PATHS:
                for ex, pend in states:
                    out.append(dict(cfg, op="install", mode="root", files=[{"p": p, "ex": ex, "pend": pend}]))
    for cfgs, states in ((base, [("A", []), ("I", []), ("D", []), ("D", p03)]), (ign1 + extra[:2], [("I", []), ("D", []), ("D", p03)])):
        for cfg in cfgs:
            for p in PATHS:
                for ex, pend in states:
                    out.append(dict(cfg, op="install", mode="offset", files=[{"p": p, "ex": ex, "pend": pend}]))
    # 2. uninstall, one file (protection configured through env.d and through the domain settings)
    for cfg in base + [_cfg("/etc /opt/c", None, i, d) for i, d in IGNORES["quick"][1:]] + extra[:2]:
        for mode in ("root", "offset"):
            for p in PATHS:
                for live in ("A", "R", "D") if cfg["ignore"] is None else ("R", "D"):
                    out.append(dict(cfg, op="uninstall", mode=mode, ufiles=[{"p": p, "live": live}]))
    # 3. replace: file shipped by both packages + optionally a file dropped by the new package, in the same directory
    rcfgs = [_cfg(pr, m) for pr in ("/etc", "/etc /opt/c") for m in (None, "/etc/m")] + [_cfg("/etc", None, "*.ign", "ss"), _cfg("/etc /opt/c", "/etc/m", "*.ign", "ss")]
    rcfgs += [_cfg(None, None), _cfg("/opt/c/", None)]  # CONFIG_PROTECT unset / without /etc: pkgcore's built-in /etc
    rcfgs += extra[:2]  # protection configured through the domain settings (extra_protects), not env.d
    for cfg in rcfgs:
        for mode in ("root", "offset"):
            for p in PATHS:
                d = p.rsplit("/", 1)[0]
                for ex, pend, dropped in (("I", [], None), ("D", [], None), ("D", [], "R"), ("D", [], "D"), ("D", [[0, "D"]], None)):
                    c = dict(cfg, op="replace", mode=mode, files=[{"p": p, "ex": ex, "pend": pend}])
                    if dropped:
                        c["ufiles"] = [{"p": f"{d}/vqdropped", "live": dropped}]
                    out.append(c)
    return out


# depth-2 histories: (transition name, (CONFIG_PROTECT, MASK) before, after, affected path).  "after" is what the case
# itself carries and is judged with; the control path /etc/vq is protected before and after.
TRANSITIONS = [
    ("add-protect", ("/etc", None), ("/etc /opt/c", None), "/opt/c/vq"),
    ("remove-mask", ("/etc", "/etc/m"), ("/etc", None), "/etc/m/vq"),
    ("remove-protect", ("/etc /opt/c", None), ("/etc", None), "/opt/c/vq"),
    ("add-mask", ("/etc", None), ("/etc", "/etc/m"), "/etc/m/vq"),
]
TRANSITIONS_THOROUGH = TRANSITIONS + [
    ("add-protect", (None, None), ("/opt/c/", None), "/opt/c/vq"),
    ("add-protect", ("/opt/c/", "/etc/m"), ("/etc /opt/c", "/etc/m"), "/etc/sub/vq"),
    ("remove-mask", ("/etc /opt/c", "/etc/m /opt/c/m"), ("/etc /opt/c", "/etc/m"), "/opt/c/m/vq"),
    ("remove-mask", ("/etc", "/etc/m/"), ("/etc", None), "/etc/m/vq"),
    ("remove-protect", ("/etc /opt/c", "/etc/m"), ("/opt/c/", "/etc/m"), "/etc/vq"),
    ("add-mask", ("/etc /opt/c", "/etc/m"), ("/etc /opt/c", "/etc/m /opt/c/m"), "/opt/c/m/vq"),
]


def hist_cases(tier):
    """op1 in {install, uninstall, replace} under E1; in-place rewrite of the env.d file to E2; op2 judged with E2."""
    out = []
    q = tier == "quick"
    for t, (p1, m1), (p2, m2), path in TRANSITIONS if q else TRANSITIONS_THOROUGH:
        for op1 in ("install", "uninstall", "replace"):
            for mode in ("root", "offset"):
                cfg = dict(_cfg(p2, m2), mode=mode, hist={"t": t, "op": op1, "protect": p1, "mask": m1})
                control = "/etc/vq" if path != "/etc/vq" else "/opt/c/vq"
                inst = [(path, "D", []), (path, "D", [[0, "D"]]), (path, "I", []), (control, "D", [])]
                unin = [(path, "D"), (path, "R"), (control, "D")]
                repl = [(path, "D", None), (path, "D", "D"), (control, "D", None)]
                if not q:
                    inst += [(path, "D", [[0, "I"]]), (path, "A", []), (control, "I", [])]
                    unin += [(control, "R"), (path, "A")]
                    repl += [(path, "I", "D"), (control, "D", "D")]
                for p, ex, pend in inst:
                    out.append(dict(cfg, op="install", files=[{"p": p, "ex": ex, "pend": pend}]))
                for p, live in unin:
                    out.append(dict(cfg, op="uninstall", ufiles=[{"p": p, "live": live}]))
                for p, ex, dropped in repl:
                    c = dict(cfg, op="replace", files=[{"p": p, "ex": ex, "pend": []}])
                    if dropped:
                        c["ufiles"] = [{"p": p.rsplit("/", 1)[0] + "/vqdropped", "live": dropped}]
                    out.append(c)
    return out


def predicted_classes(cases):
    """Outcome classes a correct implementation (which, like pkgcore, always also protects /etc) produces for the
    given cases - used to compare case selections without executing them; work() measures the real ones."""
    out = set()
    for case in cases:
        pre = pre_state(case)
        tag = f"{case['op']}/{case['mode']}" if "hist" not in case else f"hist/{case['hist']['t']}"
        over = dict(case, protect=((case["protect"] or "") + " /etc").strip())
        for f in case.get("files", ()):
            p, old, new = f["p"], pre.get(f["p"]), CONTENT["N"]
            pend = [CONTENT[t] for _, t in f.get("pend", ())]
            if old is not None and old != new and ref_protected(p, case):
                o = "protected-reused-number" if new in pend else "protected-new-number" + ("-after-pending" if pend else "")
            elif old is None:
                o = "fresh-install"
            elif old == new:
                o = "identical-kept"
            else:
                o = ("overprotected" if ref_protected(p, over) else "unprotected-overwritten") + ":" + why_unprotected(p, case)
            out.add(f"{tag}/{o}")
        for f in case.get("ufiles", ()):
            p, live = f["p"], pre.get(f["p"])
            if live is not None and live != CONTENT["R"] and ref_protected(p, case):
                o = "modified-kept"
            elif live is None:
                o = "already-absent"
            elif live == CONTENT["R"]:
                o = "unmodified-removed"
            else:
                o = ("overprotected" if ref_protected(p, over) else "unprotected-removed") + ":" + why_unprotected(p, case)
            out.add(f"{tag}/{o}")
    return out


def all_cases(tier):
    """The fixed, ordered case list (simplest first)."""
    if tier == "quick":
        return quick_cases() + hist_cases("quick")
    out = []
    cfgs = configs(tier)
    cfgs_envd = configs(tier, ("envd",))
    modes = ["root", "offset"]
    # 1. install, one file
    for cfg in cfgs:
        for mode in modes:
            kind = "offset-quick" if (tier == "quick" and mode == "offset") else "full"
            for p in PATHS:
                for ex, pend in file_states(tier, kind):
                    out.append(dict(cfg, op="install", mode=mode, files=[{"p": p, "ex": ex, "pend": pend}]))
    # 2. uninstall, one file (ConfigProtectUninstall only reads env.d)
    for cfg in cfgs_envd:
        for mode in modes:
            for p in PATHS:
                for live in (["A", "R", "D"] if tier == "quick" else ["A", "R", "D", "L"]):
                    out.append(dict(cfg, op="uninstall", mode=mode, ufiles=[{"p": p, "live": live}]))
    # 3. replace: file shipped by both packages + optionally a file dropped by the new package, in the same directory
    if tier == "thorough":
        rcfgs = cfgs
    else:
        rcfgs = [c for c in cfgs_envd if c["mask"] != "/etc/m /opt/c/m" and (c["ignore"], c["igdecl"]) in ((None, "plain"), ("*.ign", "ss"))]
    for cfg in rcfgs:
        for mode in modes:
            for p in PATHS:
                d = p.rsplit("/", 1)[0]
                for ex, pend in file_states(tier, "small"):
                    for dropped in (None, "R", "D"):
                        c = dict(cfg, op="replace", mode=mode, files=[{"p": p, "ex": ex, "pend": pend}])
                        if dropped:
                            c["ufiles"] = [{"p": f"{d}/vqdropped", "live": dropped}]
                        out.append(c)
    if tier == "thorough":
        # 4. junk / decoy pending names next to a differing protected file
        for cfg in cfgs_envd:
            for mode in modes:
                for p in ("/etc/vq", "/opt/c/vq"):
                    for pend in ([], [[0, "D"]], [[3, "I"]]):
                        out.append(dict(cfg, op="install", mode=mode, files=[{"p": p, "ex": "D", "pend": pend, "junk": JUNK}]))
        # 5. two-file packages: same directory (two names) and two protected directories
        pairs = [("/etc/vq", "/etc/vq2"), ("/etc/vq", "/opt/c/vq"), ("/etc/m/vq", "/etc/mm/vq"), ("/etc/vq", "/etc/sub/vq")]
        st2 = [("D", []), ("D", [[0, "D"]]), ("D", [[0, "I"]]), ("I", [[0, "D"]]), ("A", [])]
        for cfg in cfgs_envd:
            if cfg["ignore"] not in (None, "*.ign"):
                continue
            for mode in modes:
                for pa, pb in pairs:
                    for (ea, pea), (eb, peb) in itertools.product(st2, st2):
                        out.append(dict(cfg, op="install", mode=mode, files=[{"p": pa, "ex": ea, "pend": pea}, {"p": pb, "ex": eb, "pend": peb}]))
    # 6. depth-2 histories on one root in one process
    out += hist_cases("thorough")
    return out


CHUNK = {"quick": 120, "thorough": 400}


def tasks(tier):
    n = len(all_cases(tier))
    c = CHUNK[tier]
    return [(tier, i, min(i + c, n)) for i in range(0, n, c)]


_cases_cache = {}


def work(task):
    tier, lo, hi = task
    cases = _cases_cache.get(tier)
    if cases is None:
        cases = _cases_cache[tier] = all_cases(tier)
    evals = 0
    classes = {}
    viol = []
    samples = []
    batch = cases[lo:hi]
    for case, (fails, cls, supp) in zip(batch, check_cases(batch)):
        evals += 1
        for c in cls:
            classes[c] = classes.get(c, 0) + 1
        if fails:
            viol.append(dict(case, fail=fails[0][0], supp=supp, msg=fails[0][1]))
    samples.append(cases[lo])
    return {"evals": evals, "classes": classes, "viol": viol, "samples": samples}


def replay(case):
    fails, _, _ = check_cases([case])[0]
    return [m for _, m in fails]


def SETUP(tier):
    """Run once in the parent: sweep scratch directories left by workers of an earlier run that were killed
    (time cap / pool.terminate) before their `finally` ran.  Only directories of this property whose pid is dead."""
    import re

    for name in os.listdir("/dev/shm"):
        m = re.fullmatch(r"verif-C21-(\d+)", name)
        if m and not os.path.exists(f"/proc/{m.group(1)}"):
            shutil.rmtree(os.path.join("/dev/shm", name), ignore_errors=True)


# ------------------------------------------------------------------ classifiers for known findings
def _ignore_plain_string(case):
    """COLLISION_IGNORE set in env.d without SPACE_SEPARATED: collapse_envd returns a str and
    gen_collision_ignore_filter calls .extend on it; the engine suppresses the exception and merges unprotected."""
    return case.get("ignore") is not None and case.get("igdecl") == "plain" and "'str' object has no attribute 'extend'" in (case.get("supp") or "")


def _ignore_dir_entry(case):
    """A COLLISION_IGNORE entry naming an existing directory: `ignored.rstrip` is called on the list."""
    return (
        case.get("mode") == "root"
        and case.get("igdecl") == "ss"
        and any(_norm(e) in IGNORE_DIRS and not e.endswith("/*") for e in (case.get("ignore") or "").split())
        and "'list' object has no attribute 'rstrip'" in (case.get("supp") or "")
    )


def _offset_unprotected(case):
    """Non-'/' offset: the filters are matched against offset-prefixed locations, so nothing is ever protected on merge."""
    return case.get("mode") == "offset" and case.get("op") in ("install", "replace") and case.get("fail") in ("overwritten", "no-cfg-file") and not case.get("supp")


def _uninstall_live_vs_live(case):
    """ConfigProtectUninstall compares the live file with itself (the 'uninstall' cset is the livefs intersection,
    not the recorded contents), so modified protected files are removed."""
    return case.get("fail") == "removed-modified" and case.get("op") in ("uninstall", "replace") and not case.get("supp")


def _number_never_reused(case):
    """ConfigProtectInstall compares the *real* file instead of the pending ._cfgNNNN_ file with the incoming one
    (updates[fn].append((count, fn)) drops the ._cfg name), so an identical pending update is never recognised."""
    return case.get("fail") == "number-not-reused" and case.get("op") in ("install", "replace") and not case.get("supp")


CLASSIFIERS = {
    "pending-update-number-never-reused": _number_never_reused,
    "envd-collision-ignore-is-a-string": _ignore_plain_string,
    "collision-ignore-directory-entry-raises": _ignore_dir_entry,
    "non-root-offset-never-protected": _offset_unprotected,
    "unmerge-compares-live-file-with-itself": _uninstall_live_vs_live,
}
