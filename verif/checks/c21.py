"""C21 protected configuration files are never silently overwritten or removed.

Exhaustive enumeration on a real tmpfs tree: every (env.d configuration, package file, live-filesystem state) of a
bounded alphabet is merged / replaced / unmerged through a real MergeEngine with the real ebuild triggers registered.
The "/" code path is exercised inside a chroot(2) of the scratch tree (forked child per case), the non-"/" path with
offset=<scratch root>.  The oracle is the property statement, evaluated on the resulting tree and recorded contents.
"""

import fnmatch
import hashlib
import itertools
import json
import os
import shutil
import sys
import traceback

PROPERTY = "C21"
LEVEL = "exploration"
ENGINE = "enum"
TECHNIQUE = (
    "exhaustive enumeration of (CONFIG_PROTECT/CONFIG_PROTECT_MASK/COLLISION_IGNORE configuration x package file path x "
    "existing-file state x pending ._cfg updates x engine mode x offset kind) executed on a real tmpfs tree through the real "
    "MergeEngine + ebuild triggers (offset '/' inside a chroot of the scratch tree), judged by the property statement"
)
RULE = (
    "every case of the product is executed in a fresh forked child: the scratch root gets etc/env.d, the existing file and "
    "pending ._cfgNNNN_ updates, the package image the incoming file; MergeEngine.install/replace/uninstall with merge/unmerge + "
    "ConfigProtectInstall/ConfigProtectUninstall runs sanity_check..final; the parent compares the resulting tree and "
    "get_merged_cset() with the statement for every file that an independent reference predicate says is protected "
    "(under a listed CONFIG_PROTECT dir, not under a MASK dir, not matched by COLLISION_IGNORE) and differs. A class is "
    "(operation, offset kind, per-file observed outcome); distinct_nontrivial counts classes observed."
)
ASSUMPTIONS = [
    "default merge plugins (ldconfig, InfoRegen, perms fixers) are disabled: only merge/unmerge and the ConfigProtect triggers are registered (ldconfig spawns /sbin/ldconfig, unusable in a chroot)",
    "offset '/' is exercised inside chroot(scratch root) in a forked child, so /etc/env.d, /etc, /opt/c are the literal paths the code sees; a tripwire aborts the check (engine error) if pkgcore lazily loads code after the chroot",
    "Excl: one-directional oracle - the statement only forbids overwriting/removing protected differing files; files the reference considers unprotected (masked, ignored, outside CONFIG_PROTECT, or CONFIG_PROTECT unset) carry no demand and are only counted as classes",
    "Excl: CONFIG_PROTECT/MASK entries are directories (file entries are arguable); COLLISION_IGNORE globs are chosen so that anchoring at the start of the path makes no difference (pkgcore uses an unanchored search: '/x' also ignores '/y/x')",
    "Excl: more than 9999 pending updates, non-regular files, names '.keep*' (built-in ignores)",
    "Excl: when several pending updates are identical to the incoming file any of their numbers may be reused",
    "uninstall with a non-'/' offset: MergeEngine.uninstall intersects the un-offset recorded paths with the real '/' (engine.py wraps old_cset, not raw_old_cset), so nothing is unmerged there and the property holds vacuously; this is visible as class 'uninstall/offset/nothing-unmerged'",
]
BOUNDS = {
    "quick": "install: 4 CONFIG_PROTECT x 3 MASK x 5 COLLISION_IGNORE x {env.d, extra_protects} x 9 paths x 3 existing x 5 pending states x {chroot '/', offset}; uninstall: all configs x 9 paths x 3 live states x 2 offsets; replace: reduced configs x 9 paths x 8 states x 3 dropped-file states x 2 offsets",
    "thorough": "install: 5 CONFIG_PROTECT x 4 MASK x 7 COLLISION_IGNORE x 2 sources x 9 paths x 4 existing x 9 pending states (+junk/decoy pending names) x 2 offsets; two-file packages (same dir / two protected dirs); replace and uninstall over the full configuration product",
}

NAME = "vq"
# the package file universe: (path, what it probes)
PATHS = [
    "/etc/vq",
    "/etc/sub/vq",
    "/etc/m/vq",
    "/etc/mm/vq",
    "/opt/c/vq",
    "/opt/c/m/vq",
    "/etc/ig/vq",
    "/etc/vq.ign",
    "/srv/vq",
]
PROTECTS = {"quick": [None, "/etc", "/opt/c/", "/etc /opt/c"], "thorough": [None, "/etc", "/opt/c/", "/etc /opt/c", "/opt//c /etc/"]}
MASKS = {"quick": [None, "/etc/m", "/etc/m /opt/c/m"], "thorough": [None, "/etc/m", "/etc/m /opt/c/m", "/etc/m/"]}
# (value, declared): declared "plain" = just COLLISION_IGNORE="..", "ss" = also SPACE_SEPARATED="COLLISION_IGNORE"
IGNORES = {
    "quick": [(None, "plain"), ("*.ign", "plain"), ("*.ign", "ss"), ("/etc/ig", "ss"), ("/etc/ig", "plain")],
    "thorough": [
        (None, "plain"),
        ("*.ign", "plain"),
        ("*.ign", "ss"),
        ("/etc/ig", "ss"),
        ("/etc/ig", "plain"),
        ("/etc/ig/*", "ss"),
        ("/etc/vq.ign /etc/ig/", "ss"),
    ],
}
IGNORE_DIRS = ["/etc/ig"]  # always exist in the pre-state, so a bare entry is a "directory entry"

# content tokens: N = incoming, I = identical to incoming, D = differs (same size), L = differs (other size), A = absent
CONTENT = {"N": "incoming-aaaa\n", "I": "incoming-aaaa\n", "D": "incoming-bbbb\n", "L": "locally edited, longer\n", "R": "recorded-old.\n"}
assert len(CONTENT["N"]) == len(CONTENT["D"]) == len(CONTENT["R"])


# ------------------------------------------------------------------ reference predicates (no pkgcore)
def _norm(p):
    return "/" + "/".join(c for c in p.split("/") if c)


def ref_under(p, entries):
    for e in entries:
        e = _norm(e)
        if p.startswith(e + "/"):
            return True
    return False


def ref_ignored(p, entries):
    for e in entries:
        if fnmatch.fnmatchcase(p, e):
            return True
        if _norm(e) in IGNORE_DIRS and e.rstrip("/") == _norm(e) and p.startswith(_norm(e) + "/"):
            return True
    return False


def ref_protected(p, case):
    """Does the statement demand protection for path p (relative to the offset) under this configuration?"""
    if case["protect"] is None:
        return False
    if not ref_under(p, case["protect"].split()):
        return False
    if case["mask"] and ref_under(p, case["mask"].split()):
        return False
    if case["ignore"] and ref_ignored(p, case["ignore"].split()):
        return False
    return True


def why_unprotected(p, case):
    if case["protect"] is None:
        return "protect-unset"
    if not ref_under(p, case["protect"].split()):
        return "outside"
    if case["mask"] and ref_under(p, case["mask"].split()):
        return "masked"
    return "ignored"


def cfgname(p, n):
    d, b = p.rsplit("/", 1)
    return f"{d}/._cfg{n:04d}_{b}"


def pre_state(case):
    """Files (path relative to root -> content) existing before the operation, excluding env.d."""
    files = {}
    for f in case.get("files", ()):
        if f["ex"] != "A":
            files[f["p"]] = CONTENT[f["ex"]]
        for n, tok in f.get("pend", ()):
            files[cfgname(f["p"], n)] = CONTENT[tok]
        for junk in f.get("junk", ()):
            d = f["p"].rsplit("/", 1)[0]
            files[f"{d}/{junk}"] = "junk\n"
    for f in case.get("ufiles", ()):
        if f["live"] != "A":
            files[f["p"]] = CONTENT[f["live"]]
    return files


def envd_text(case):
    lines = []
    if case["src"] == "envd":
        if case["protect"] is not None:
            lines.append(f'CONFIG_PROTECT="{case["protect"]}"')
        if case["mask"] is not None:
            lines.append(f'CONFIG_PROTECT_MASK="{case["mask"]}"')
    if case["ignore"] is not None:
        if case["igdecl"] == "ss":
            lines.append('SPACE_SEPARATED="COLLISION_IGNORE"')
        lines.append(f'COLLISION_IGNORE="{case["ignore"]}"')
    return "".join(l + "\n" for l in lines)


# ------------------------------------------------------------------ execution of one case on the real code
_base_counter = [0]


def _scratch():
    top = f"/dev/shm/verif-C21-{os.getpid()}"
    _base_counter[0] += 1
    base = os.path.join(top, str(_base_counter[0]))
    os.makedirs(base)
    return top, base


def _write(path, text):
    os.makedirs(os.path.dirname(path), exist_ok=True)
    with open(path, "w") as f:
        f.write(text)


def _build_tree(case, base):
    root = os.path.join(base, "root")
    inroot = case["mode"] == "root"
    aux = root if inroot else base  # image/tmp/CONTENTS live inside the chroot for offset "/"
    os.makedirs(os.path.join(root, "etc/env.d"))
    for d in IGNORE_DIRS:
        os.makedirs(root + d, exist_ok=True)
    txt = envd_text(case)
    if txt:
        _write(os.path.join(root, "etc/env.d/50verif"), txt)
    for p, content in pre_state(case).items():
        _write(root + p, content)
    os.makedirs(os.path.join(aux, ".tmp"))
    img = os.path.join(aux, ".img")
    os.makedirs(img)
    for f in case.get("files", ()):
        _write(img + f["p"], CONTENT["N"])
    recorded = []
    dirs = set()
    for f in list(case.get("ufiles", ())) + (list(case.get("files", ())) if case["op"] == "replace" else []):
        p = f["p"]
        comps = p.split("/")[1:-1]
        for i in range(1, len(comps) + 1):
            dirs.add("/" + "/".join(comps[:i]))
        # what the old package recorded: content R, except that a file also shipped by the new package was recorded as R too
        recorded.append(f"obj {p} {hashlib.md5(CONTENT['R'].encode()).hexdigest()} 1000")
    if recorded:
        _write(os.path.join(aux, ".old/CONTENTS"), "".join(f"dir {d}\n" for d in sorted(dirs)) + "".join(l + "\n" for l in recorded))
    return root, aux


class _Pkg:
    def __init__(self, contents):
        self.contents = contents


def _snapshot(root):
    out = {}
    for dp, dns, fns in os.walk(root):
        rel = dp[len(root.rstrip("/")) :] or "/"
        dns[:] = [d for d in dns if not (rel == "/" and d in (".img", ".tmp", ".old"))]
        for fn in fns:
            p = os.path.join(dp, fn)
            r = (rel.rstrip("/") + "/" + fn)
            if os.path.islink(p) or not os.path.isfile(p):
                out[r] = "<special>"
            else:
                with open(p, errors="replace") as f:
                    out[r] = f.read()
    return out


def _tripwire_install(hits):
    watched = tuple(
        p
        for p in {sys.prefix, sys.base_prefix, os.environ.get("VERIF_PKGCORE_ROOT", "/repo"), "/venv", "/usr/lib/python", os.path.dirname(os.path.dirname(os.path.abspath(__file__)))}
        if p
    )

    def hook(event, args):
        if event == "import":
            hits.append(f"import {args[0]}")
        elif event in ("open", "os.listdir", "os.scandir") and args and isinstance(args[0], str) and args[0].startswith(watched):
            hits.append(f"{event} {args[0]}")

    sys.addaudithook(hook)


def _run_in_child(case, base):
    """Runs in the forked child. Returns a JSON-able result."""
    from snakeoil.chksum import get_handlers

    from pkgcore.ebuild import triggers as et
    from pkgcore.fs import livefs
    from pkgcore.merge import triggers as mt
    from pkgcore.merge.engine import MergeEngine
    from pkgcore.operations import observer as om
    from pkgcore.vdb.contents import ContentsFile

    get_handlers()  # checksum handlers are loaded lazily from the package directory: force it before chroot
    root, aux = _build_tree(case, base)
    hits = []
    if case["mode"] == "root":
        os.chroot(root)
        os.chdir("/")
        _tripwire_install(hits)
        root, aux, offset = "/", "/", None
    else:
        offset = root
    res = {"exc": None, "phase": None, "recorded": None, "uninstall_seen": None}
    obs = om.repo_observer(om.null_output())
    tmp = os.path.join(aux, ".tmp")
    img = os.path.join(aux, ".img")
    phase = "setup"
    try:
        new = old = None
        if case["op"] in ("install", "replace"):
            new = _Pkg(livefs.scan(img, offset=img))
        if case["op"] in ("uninstall", "replace"):
            old = _Pkg(ContentsFile(os.path.join(aux, ".old/CONTENTS")))
        if case["op"] == "install":
            e = MergeEngine.install(tmp, new, offset=offset, observer=obs, disable_plugins=True)
        elif case["op"] == "replace":
            e = MergeEngine.replace(tmp, old, new, offset=offset, observer=obs, disable_plugins=True)
        else:
            e = MergeEngine.uninstall(tmp, old, offset=offset, observer=obs, disable_plugins=True)
        if case["op"] in ("install", "replace"):
            mt.merge().register(e)
            if case["src"] == "extra":
                prot = (case["protect"] or "").split()
                mask = (case["mask"] or "").split()
                et.ConfigProtectInstall(prot, mask).register(e)
            else:
                et.ConfigProtectInstall().register(e)
        if case["op"] in ("uninstall", "replace"):
            mt.unmerge().register(e)
            et.ConfigProtectUninstall().register(e)
        phase = "sanity_check"
        e.sanity_check()
        if case["op"] in ("install", "replace"):
            for phase in ("pre_merge", "merge", "post_merge"):
                getattr(e, phase)()
            phase = "get_merged_cset"
            res["recorded"] = sorted(x.location for x in e.get_merged_cset() if x.is_reg)
        if case["op"] in ("uninstall", "replace"):
            phase = "pre_unmerge"
            e.pre_unmerge()
            res["uninstall_seen"] = len(list(e.csets["uninstall"]))
            for phase in ("unmerge", "post_unmerge"):
                getattr(e, phase)()
        phase = "final"
        e.final()
    except Exception as exc:  # the outcome, not an engine error
        res["exc"] = f"{type(exc).__name__}: {exc}"[:300]
        res["phase"] = phase
    res["fs"] = _snapshot(root)
    res["tripwire"] = hits[:10]
    return res


_warm = []


def _warm_up():
    """Load everything the child needs in the parent, once (the child must not import after chroot)."""
    if _warm:
        return
    import snakeoil.chksum

    import pkgcore.ebuild.triggers  # noqa: F401
    import pkgcore.fs.livefs  # noqa: F401
    import pkgcore.fs.ops  # noqa: F401
    import pkgcore.merge.engine  # noqa: F401
    import pkgcore.merge.triggers  # noqa: F401
    import pkgcore.operations.observer  # noqa: F401
    import pkgcore.vdb.contents  # noqa: F401

    snakeoil.chksum.get_handlers()
    _warm.append(1)


def execute(case):
    """Fork, run the case on the real code, return the observation dict."""
    _warm_up()
    top, base = _scratch()
    try:
        r, w = os.pipe()
        sys.stdout.flush()
        sys.stderr.flush()
        pid = os.fork()
        if pid == 0:
            status = 0
            try:
                os.close(r)
                try:
                    out = _run_in_child(case, base)
                except BaseException as e:  # harness failure inside the child
                    out = {"harness_error": f"{type(e).__name__}: {e}\n{traceback.format_exc()}"}
                with os.fdopen(w, "w") as f:
                    json.dump(out, f)
            except BaseException:
                status = 1
            finally:
                os._exit(status)
        os.close(w)
        with os.fdopen(r) as f:
            data = f.read()
        _, st = os.waitpid(pid, 0)
        if st != 0 or not data:
            raise RuntimeError(f"C21 child failed status={st} case={case}")
        res = json.loads(data)
        if "harness_error" in res:
            raise RuntimeError("C21 harness error in child: " + res["harness_error"])
        if res.get("tripwire"):
            raise RuntimeError(f"C21 tripwire: code loaded lazily inside the chroot, results unreliable: {res['tripwire']}")
        return res
    finally:
        shutil.rmtree(base, ignore_errors=True)
        try:
            os.rmdir(top)
        except OSError:
            pass


# ------------------------------------------------------------------ oracle
def judge(case, res):
    """Returns (failures, classes). failures: list of (kind, message)."""
    fails = []
    classes = []
    pre = pre_state(case)
    fs = res["fs"]
    tag = f"{case['op']}/{case['mode']}"
    exc = res["exc"]
    if exc:
        classes.append(f"{tag}/raised-in-{res['phase']}")
    for f in case.get("files", ()):
        p = f["p"]
        new = CONTENT["N"]
        old = pre.get(p)
        pend = {n: CONTENT[tok] for n, tok in f.get("pend", ())}
        d, b = p.rsplit("/", 1)
        cfg_now = {}
        for q, content in fs.items():
            if q.startswith(f"{d}/._cfg") and q.endswith("_" + b) and len(q) == len(d) + 1 + 10 + len(b) and q[len(d) + 6 : len(d) + 10].isdigit():
                cfg_now[int(q[len(d) + 6 : len(d) + 10])] = content
        created = sorted(n for n in cfg_now if n not in pend)
        demanded = old is not None and old != new and ref_protected(p, case)
        if demanded:
            if exc:
                fails.append(("raised", f"{p}: protected file differs from the incoming one but the {case['op']} raised in {res['phase']}: {exc}"))
                continue
            ok = True
            if fs.get(p) != old:
                fails.append(("overwritten", f"{p}: protected existing file {old!r} differs from incoming {new!r} but now holds {fs.get(p)!r}"))
                ok = False
            for n, content in pend.items():
                if cfg_now.get(n) != content:
                    fails.append(("pending-clobbered", f"{cfgname(p, n)}: pending update {content!r} now {cfg_now.get(n)!r}"))
                    ok = False
            ident = sorted(n for n, content in pend.items() if content == new)
            if ident:
                if created:
                    fails.append(("number-not-reused", f"{p}: identical pending update(s) {ident} exist but new ._cfg numbers {created} were created"))
                    ok = False
                outcome = "protected-reused-number"
            else:
                mx = max(pend) if pend else -1
                if len(created) != 1 or cfg_now[created[0]] != new:
                    fails.append(("no-cfg-file", f"{p}: incoming file not written as exactly one new ._cfgNNNN_{b} beside it (created {created}, fs keys {sorted(k for k in fs if k.startswith(d + '/'))})"))
                    ok = False
                elif created[0] <= mx:
                    fails.append(("number-not-exceeding", f"{p}: new update number {created[0]} does not exceed existing {sorted(pend)}"))
                    ok = False
                outcome = "protected-new-number" + ("-after-pending" if pend else "")
            rec = res["recorded"] or []
            if p not in rec or any(q.rsplit("/", 1)[-1].startswith("._cfg") for q in rec):
                fails.append(("recorded-name", f"{p}: recorded contents {rec} do not keep the real name"))
                ok = False
            classes.append(f"{tag}/{outcome if ok else 'DEMAND-FAILED'}")
        else:
            if exc:
                continue
            if old is None:
                o = "fresh-install" if fs.get(p) == new else "fresh-not-installed"
            elif old == new:
                o = "identical-kept" if not created else "identical-but-cfg-created"
            else:
                o = ("unprotected-overwritten" if fs.get(p) == new else "overprotected") + ":" + why_unprotected(p, case)
            classes.append(f"{tag}/{o}")
    for f in case.get("ufiles", ()):
        p = f["p"]
        live = pre.get(p)
        demanded = live is not None and live != CONTENT["R"] and ref_protected(p, case)
        if demanded:
            if exc:
                fails.append(("raised", f"{p}: modified protected file but the {case['op']} raised in {res['phase']}: {exc}"))
            elif fs.get(p) != live:
                fails.append(("removed-modified", f"{p}: protected file {live!r} differs from the recorded content but after the unmerge it is {fs.get(p)!r}"))
                classes.append(f"{tag}/DEMAND-FAILED")
            else:
                classes.append(f"{tag}/" + ("nothing-unmerged" if res["uninstall_seen"] == 0 and case["op"] == "uninstall" else "modified-kept"))
        elif not exc:
            if live is None:
                o = "already-absent"
            elif res["uninstall_seen"] == 0 and case["op"] == "uninstall":
                o = "nothing-unmerged"
            elif live == CONTENT["R"]:
                o = "unmodified-removed" if p not in fs else "unmodified-kept"
            else:
                o = ("unprotected-removed" if p not in fs else "overprotected") + ":" + why_unprotected(p, case)
            classes.append(f"{tag}/{o}")
    return fails, classes


def check_case(case):
    case = {k: v for k, v in case.items() if k not in ("msg", "fail")}
    res = execute(case)
    return judge(case, res)


# ------------------------------------------------------------------ enumeration
def configs(tier, sources=("envd", "extra")):
    out = []
    for prot, mask, (ign, decl), src in itertools.product(PROTECTS[tier], MASKS[tier], IGNORES[tier], sources):
        if src == "extra" and prot is None and mask is None:
            continue  # identical to the env.d variant
        out.append({"protect": prot, "mask": mask, "ignore": ign, "igdecl": decl, "src": src})
    return out


def file_states(tier, small=False):
    if small:
        exs = ["I", "D"]
        pends = [[], [[0, "D"]], [[0, "I"]], [[0, "D"], [3, "I"]]]
    elif tier == "quick":
        exs = ["A", "I", "D"]
        pends = [[], [[0, "I"]], [[0, "D"]], [[0, "D"], [3, "I"]], [[0, "D"], [3, "D"]]]
    else:
        exs = ["A", "I", "D", "L"]
        pends = [
            [],
            [[0, "I"]],
            [[0, "D"]],
            [[3, "I"]],
            [[3, "L"]],
            [[0, "I"], [3, "D"]],
            [[0, "D"], [3, "I"]],
            [[0, "D"], [3, "D"]],
            [[9, "D"], [10, "L"]],
        ]
    return [(e, p) for e in exs for p in pends]


JUNK = ["._cfgXXXX_vq", "._cfg00_vq", "._cfg0007_other", "._cfg0001-vq"]


def all_cases(tier):
    """The fixed, ordered case list (simplest first)."""
    out = []
    cfgs = configs(tier)
    cfgs_envd = configs(tier, ("envd",))
    modes = ["root", "offset"]
    # 1. install, one file
    for cfg in cfgs:
        for mode in modes:
            for p in PATHS:
                for ex, pend in file_states(tier):
                    out.append(dict(cfg, op="install", mode=mode, files=[{"p": p, "ex": ex, "pend": pend}]))
    # 2. uninstall, one file (ConfigProtectUninstall only reads env.d)
    for cfg in cfgs_envd:
        for mode in modes:
            for p in PATHS:
                for live in (["A", "R", "D"] if tier == "quick" else ["A", "R", "D", "L"]):
                    out.append(dict(cfg, op="uninstall", mode=mode, ufiles=[{"p": p, "live": live}]))
    # 3. replace: file shipped by both packages + optionally a file dropped by the new package, in the same directory
    rcfgs = cfgs if tier == "thorough" else [c for c in cfgs if c["mask"] != "/etc/m /opt/c/m" and c["ignore"] in (None, "*.ign") and c["igdecl"] == ("ss" if c["ignore"] else "plain")]
    for cfg in rcfgs:
        for mode in modes:
            for p in PATHS:
                d = p.rsplit("/", 1)[0]
                for ex, pend in file_states(tier, small=True):
                    for dropped in (None, "R", "D"):
                        c = dict(cfg, op="replace", mode=mode, files=[{"p": p, "ex": ex, "pend": pend}])
                        if dropped:
                            c["ufiles"] = [{"p": f"{d}/vqdropped", "live": dropped}]
                        out.append(c)
    if tier == "thorough":
        # 4. junk / decoy pending names next to a differing protected file
        for cfg in cfgs_envd:
            for mode in modes:
                for p in ("/etc/vq", "/opt/c/vq"):
                    for pend in ([], [[0, "D"]], [[3, "I"]]):
                        out.append(dict(cfg, op="install", mode=mode, files=[{"p": p, "ex": "D", "pend": pend, "junk": JUNK}]))
        # 5. two-file packages: same directory (two names) and two protected directories
        pairs = [("/etc/vq", "/etc/vq2"), ("/etc/vq", "/opt/c/vq"), ("/etc/m/vq", "/etc/mm/vq"), ("/etc/vq", "/etc/sub/vq")]
        st2 = [("D", []), ("D", [[0, "D"]]), ("D", [[0, "I"]]), ("I", [[0, "D"]]), ("A", [])]
        for cfg in cfgs_envd:
            if cfg["ignore"] not in (None, "*.ign"):
                continue
            for mode in modes:
                for pa, pb in pairs:
                    for (ea, pea), (eb, peb) in itertools.product(st2, st2):
                        out.append(dict(cfg, op="install", mode=mode, files=[{"p": pa, "ex": ea, "pend": pea}, {"p": pb, "ex": eb, "pend": peb}]))
    return out


CHUNK = {"quick": 120, "thorough": 400}


def tasks(tier):
    n = len(all_cases(tier))
    c = CHUNK[tier]
    return [(tier, i, min(i + c, n)) for i in range(0, n, c)]


_cases_cache = {}


def work(task):
    tier, lo, hi = task
    cases = _cases_cache.get(tier)
    if cases is None:
        cases = _cases_cache[tier] = all_cases(tier)
    evals = 0
    classes = {}
    viol = []
    samples = []
    for case in cases[lo:hi]:
        fails, cls = check_case(case)
        evals += 1
        for c in cls:
            classes[c] = classes.get(c, 0) + 1
        if fails:
            viol.append(dict(case, fail=fails[0][0], msg=fails[0][1]))
    samples.append(cases[lo])
    return {"evals": evals, "classes": classes, "viol": viol, "samples": samples}


def replay(case):
    fails, _ = check_case(case)
    return [m for _, m in fails]


# ------------------------------------------------------------------ classifiers for known findings
def _ignore_plain_string(case):
    """COLLISION_IGNORE set in env.d without SPACE_SEPARATED: collapse_envd returns a str and
    gen_collision_ignore_filter calls .extend on it."""
    return case.get("fail") == "raised" and case.get("ignore") is not None and case.get("igdecl") == "plain" and "'str' object has no attribute 'extend'" in case.get("msg", "")


def _ignore_dir_entry(case):
    """A COLLISION_IGNORE entry naming an existing directory: `ignored.rstrip` is called on the list."""
    return (
        case.get("fail") == "raised"
        and case.get("mode") == "root"
        and case.get("igdecl") == "ss"
        and any(_norm(e) in IGNORE_DIRS and not e.endswith("/*") for e in (case.get("ignore") or "").split())
        and "'list' object has no attribute 'rstrip'" in case.get("msg", "")
    )


def _offset_unprotected(case):
    """Non-'/' offset: the filters are matched against offset-prefixed locations, so nothing is ever protected on merge."""
    return case.get("mode") == "offset" and case.get("op") in ("install", "replace") and case.get("fail") in ("overwritten", "no-cfg-file")


def _uninstall_live_vs_live(case):
    """ConfigProtectUninstall compares the live file with itself (the 'uninstall' cset is the livefs intersection,
    not the recorded contents), so modified protected files are removed."""
    return case.get("fail") == "removed-modified" and case.get("op") in ("uninstall", "replace")


CLASSIFIERS = {
    "envd-collision-ignore-is-a-string": _ignore_plain_string,
    "collision-ignore-directory-entry-raises": _ignore_dir_entry,
    "non-root-offset-never-protected": _offset_unprotected,
    "unmerge-compares-live-file-with-itself": _uninstall_live_vs_live,
}
