"""C22 contents sets behave like maps keyed by normalised path (E2: BFS over operation histories of real sets)."""

import itertools

from verif.engines import bfs

PROPERTY = "C22"
LEVEL = "model_checking"
ENGINE = "bfs"
TECHNIQUE = (
    "explicit-state breadth-first search over operation histories of real contentsSet/OrderedContentsSet objects, "
    "a plain dict keyed by normalised path run in lock-step as reference model; query battery on every directly constructed set"
)
RULE = (
    "roots = every set of <=k fs entries (file/dir/symlink at /a,/a/b,/a/b/c,/d, constructed from un-normalised spellings) "
    "as contentsSet and OrderedContentsSet; transitions = add/remove/discard (entry or any of 5 spellings of a path string)/"
    "update/difference_update/intersection_update/symmetric_difference_update/add_missing_directories/clear/clone/"
    "result-of-union|intersection|difference|symmetric_difference/change_offset; after every transition the real set is "
    "compared entry-by-entry (type, location, mode, uid, gid, mtime, target, data identity) with a dict model; on every directly "
    "constructed set (mutable and frozen) a battery of lookups, membership tests, subset/superset/disjoint tests, the four binary operations with every "
    "argument set as contentsSet/OrderedContentsSet/iterator of entries, change_offset/insert_offset for every applicable "
    "prefix and add-missing-directories construction is judged against the model; every expanded search state gets the lookup "
    "battery (entry and 5 spellings per path). Iterator/generator arguments also come as sequences naming one path twice "
    "(two entries built from different spellings); the family add_missing_directories ; any one mutator ; "
    "add_missing_directories is explored from every root. A class is (operation, outcome)."
)
ASSUMPTIONS = [
    "paths are absolute and do not start with '//' (POSIX normpath keeps a leading double slash); normalisation = collapse '//', '/./', trailing '/', lexical '..'",
    "Excl: binary set operations are given another contents set (contentsSet or OrderedContentsSet) or an iterator of entries (the kinds the statement and the repository tests use); lists/tuples/python sets of entries and iterables of path strings are not in the alphabet; an iterator/generator may name one path twice - the key set is judged, and either of its entries for that path is accepted",
    "Excl: where both operands hold an entry for a path, union/intersection may return either operand's entry (the statement fixes keys, not which value wins); add/update replace the value (map assignment)",
    "Excl: change_offset is only applied when every entry lies under the old prefix, and the old prefix is spelled normalised or with trailing '/' characters (what the rewriter strips); new prefixes are absolute",
    "Excl: frozen (mutable=False) sets are only queried, never mutated; iteration order of OrderedContentsSet is part of the state hash but not judged",
    "add_missing_directories is called with an explicit mtime (its default reads the clock)",
]
BOUNDS = {
    "quick": "search roots: all 67 sets of <=2 of the 12 entries x {contentsSet, OrderedContentsSet}, every history of <=2 further operations (~370 operations enabled per state); query battery (~1500 queries) on all 175 sets of <=3 entries x 2 classes x {mutable, frozen}; lookup battery in every expanded state, light battery in states holding relocated/auto-created entries; from every root x 2 add_missing_directories variants: add_missing_directories ; any add/remove/discard/update/*_update/clear ; add_missing_directories (3 operations)",
    "thorough": "search roots: all 175 sets of <=3 entries x 2 classes with every history of <=2 further operations (~520 operations per state, binary-operation results with all three argument kinds), plus the 13 sets of <=1 entry x 2 classes with every history of <=3 operations; query battery on all 256 sets of <=4 entries x 2 classes x {mutable, frozen}; every history of <=2 operations after add_missing_directories from the 67 sets of <=2 entries; the add_missing_directories ; mutator ; add_missing_directories family from all 175 roots",
}

PATHS = ["/a", "/a/b", "/a/b/c", "/d"]
KINDS = ["file", "dir", "sym"]
NSPELL = 5
AMD_VARIANTS = [dict(mode=0o750, uid=7, gid=8, mtime=99), dict(mtime=5)]
AMD_DEFAULTS = dict(mode=0o775, uid=0, gid=0)
OLD_OFFSETS = ["/", "/a", "/a/", "/a//", "/a/b", "/a/b/", "/d", "/d/"]
NEW_OFFSETS = ["/", "/n", "/n/", "/n//m/.", "/a"]
BINOPS = ["union", "intersection", "difference", "symmetric_difference"]
PREDS = ["issubset", "issuperset", "isdisjoint"]
UPDOPS = {"diff_u": "difference_update", "inter_u": "intersection_update", "symdiff_u": "symmetric_difference_update"}
AKINDS = ["cset", "ocset", "iter"]


# ---------------------------------------------------------------- reference model (plain python, no pkgcore)
_NORM = {}


def norm(p):
    r = _NORM.get(p)
    if r is None:
        r = _NORM[p] = _norm(p)
    return r


def _norm(p):
    assert p.startswith("/") and not p.startswith("//"), p
    out = []
    for c in p.split("/"):
        if c in ("", "."):
            continue
        if c == "..":
            if out:
                out.pop()
            continue
        out.append(c)
    return "/" + "/".join(out)


def spell(p, si):
    comps = p.split("/")[1:]
    if si == 0:
        return p
    if si == 1:
        return "/" + "//".join(comps) + ("//" if len(comps) == 1 else "")
    if si == 2:
        return p + "/"
    if si == 3:
        return "/".join([""] + comps[:-1] + [".", comps[-1]])
    return "/x/.." + p


def entry_sig(ei):
    """model value for universe entry ei: (kind, location, mode, uid, gid, mtime, target, data label)"""
    pi, ki = divmod(ei, len(KINDS))
    kind = KINDS[ki]
    return (
        kind,
        PATHS[pi],
        0o600 + ei,
        ei,
        100 + ei,
        1000 + ei,
        "t%d" % ei if kind == "sym" else None,
        "D%d" % ei if kind == "file" else None,
    )


NENT = len(PATHS) * len(KINDS)


def m_of(eis):
    m = {}
    for ei in eis:
        s = entry_sig(ei)
        m[s[1]] = s
    return m


def m_multi(eis):
    """every value an argument sequence offers per normalised path (a sequence may name one path more than once)"""
    m = {}
    for ei in eis:
        s = entry_sig(ei)
        m.setdefault(s[1], set()).add(s)
    return m


def widen(allowed, eis):
    """where the argument named a path several times, any of its entries for that path is acceptable wherever one is"""
    for k, alts in m_multi(eis).items():
        if len(alts) > 1 and k in allowed and allowed[k] & alts:
            allowed[k] = allowed[k] | alts
    return allowed


def under(k, prefix):
    return prefix == "/" or k == prefix or k.startswith(prefix + "/")


def m_reloc(model, old, new):
    p = norm(old)
    out = {}
    for k, s in model.items():
        rest = k if p == "/" else k[len(p):]
        nk = norm(new.rstrip("/") + "/" + rest.lstrip("/"))
        out[nk] = s[:1] + (nk,) + s[2:]
    return out


def m_missing(model):
    add = set()
    for k in model:
        comps = [c for c in k.split("/") if c]
        for i in range(1, len(comps)):
            anc = "/" + "/".join(comps[:i])
            if anc not in model:
                add.add(anc)
    return add


def m_amd(model, variant):
    kw = dict(AMD_DEFAULTS)
    kw.update(AMD_VARIANTS[variant])
    out = dict(model)
    for a in m_missing(model):
        out[a] = ("dir", a, kw["mode"], kw["uid"], kw["gid"], kw["mtime"], None, None)
    return out


def m_binary(op, m, a):
    """-> {key: set of acceptable values}"""
    if op == "union":
        return {k: {d[k] for d in (m, a) if k in d} for k in set(m) | set(a)}
    if op == "intersection":
        return {k: {m[k], a[k]} for k in set(m) & set(a)}
    if op == "difference":
        return {k: {m[k]} for k in set(m) - set(a)}
    if op == "symmetric_difference":
        return {k: {m[k] if k in m else a[k]} for k in set(m) ^ set(a)}
    raise ValueError(op)


def m_inplace(op, m, a):
    if op == "diff_u":
        return {k: v for k, v in m.items() if k not in a}
    if op == "inter_u":
        return {k: v for k, v in m.items() if k in a}
    if op == "symdiff_u":
        out = {k: v for k, v in m.items() if k not in a}
        out.update({k: v for k, v in a.items() if k not in m})
        return out
    raise ValueError(op)


def m_pred(op, m, a):
    if op == "issubset":
        return set(m) <= set(a)
    if op == "issuperset":
        return set(m) >= set(a)
    return not (set(m) & set(a))


# ---------------------------------------------------------------- real objects
_REAL = {}
_LABEL = {}
_KEEP = []


def E(ei):
    """the real fs entry for universe index ei, constructed once from an un-normalised spelling"""
    e = _REAL.get(ei)
    if e is None:
        e = _REAL[ei] = mk_entry(entry_sig(ei), ei % NSPELL)
    return e


def mk_entry(sig, si):
    from pkgcore.fs import fs
    from snakeoil.data_source import data_source

    kind, loc, mode, uid, gid, mtime, target, label = sig
    where = spell(loc, si)
    if kind == "file":
        ds = data_source(label.encode())
        _KEEP.append(ds)
        _LABEL[id(ds)] = label
        return fs.fsFile(where, mode=mode, uid=uid, gid=gid, mtime=mtime, data=ds, dev=None, inode=None)
    if kind == "dir":
        return fs.fsDir(where, mode=mode, uid=uid, gid=gid, mtime=mtime)
    return fs.fsSymlink(where, target, mode=mode, uid=uid, gid=gid, mtime=mtime)


def real_sig(e):
    if e.is_reg:
        return ("file", e.location, e.mode, e.uid, e.gid, e.mtime, None, _LABEL.get(id(e.data), "?"))
    if e.is_dir:
        return ("dir", e.location, e.mode, e.uid, e.gid, e.mtime, None, None)
    if e.is_sym:
        return ("sym", e.location, e.mode, e.uid, e.gid, e.mtime, e.target, None)
    return (type(e).__name__, e.location, None, None, None, None, None, None)


def snap(real):
    """-> (dict location->sig, ordered tuple of sigs, problems)"""
    items = [real_sig(e) for e in real]
    d = {s[1]: s for s in items}
    probs = []
    if len(d) != len(items):
        probs.append("iteration yields two entries with the same location")
    if len(real) != len(items):
        probs.append(f"len()={len(real)} but iteration yields {len(items)} entries")
    for s in items:
        if s[1] != norm(s[1]):
            probs.append(f"entry location {s[1]!r} is not normalised")
    return d, tuple(items), probs


_MODS = {}


def _contents():
    m = _MODS.get("contents")
    if m is None:
        from pkgcore.fs import contents as m

        _MODS["contents"] = m
    return m


def mk_set(cls, eis, mutable=True):
    contents = _contents()
    ents = [E(i) for i in eis]
    if cls == "cset":
        return contents.contentsSet(ents, mutable=mutable)
    return contents.OrderedContentsSet(ents, mutable=mutable)


def mk_arg(akind, eis):
    if akind == "iter":
        return iter([E(i) for i in eis])
    if akind == "gen":
        return (E(i) for i in eis)
    return mk_set(akind, eis)


def fmt(m):
    return "{" + ", ".join(f"{s[0]}:{k}" for k, s in sorted(m.items())) + "}"


def diff_state(got, exp):
    if got == exp:
        return None
    parts = []
    for k in sorted(set(got) | set(exp)):
        if got.get(k) != exp.get(k):
            parts.append(f"{k}: real={got.get(k)} model={exp.get(k)}")
    return "; ".join(parts)


def diff_allowed(got, allowed):
    parts = []
    for k in sorted(set(got) | set(allowed)):
        if k not in got:
            parts.append(f"{k}: missing from result")
        elif k not in allowed:
            parts.append(f"{k}: unexpected {got[k][0]} entry in result")
        elif got[k] not in allowed[k]:
            parts.append(f"{k}: real={got[k]} not among {sorted(allowed[k], key=repr)}")
    return "; ".join(parts) or None


class St:
    __slots__ = ("real", "model", "cls", "last_notes", "relocs", "prev", "order")

    def __init__(self, real, model, cls):
        self.real, self.model, self.cls, self.last_notes, self.relocs, self.prev, self.order = real, model, cls, [], 0, {}, ()


def keyof(how, x):
    return entry_sig(x)[1] if how == "e" else norm(x)


def argof(how, x):
    return E(x) if how == "e" else x


def apply(st, ev):
    """apply one event to the real set and the model; deviations go to st.last_notes; model is then re-synchronised
    with the real object so that later events are judged from the state the implementation is really in."""
    notes = []
    op = ev[0]
    real, model = st.real, dict(st.model)
    exp_allowed = None
    try:
        if op == "init":
            _, cls, mutable, eis = ev
            real = mk_set(cls, eis, mutable)
            st.cls = cls
            model = m_of(eis)
        elif op == "add":
            s = entry_sig(ev[1])
            model[s[1]] = s
            real.add(E(ev[1]))
        elif op in ("remove", "discard"):
            k = keyof(ev[1], ev[2])
            present = k in model
            model.pop(k, None)
            try:
                getattr(real, op)(argof(ev[1], ev[2]))
                if op == "remove" and not present:
                    notes.append(f"remove({ev[2]!r}) of an absent path did not raise KeyError")
            except KeyError:
                if op == "discard" or present:
                    notes.append(f"{op}({ev[2]!r}) raised KeyError although {k} {'is' if present else 'is not'} present")
        elif op == "update":
            for ei in ev[1]:
                s = entry_sig(ei)
                model[s[1]] = s
            real.update([E(i) for i in ev[1]])
        elif op in UPDOPS:
            model = m_inplace(op, model, m_of(ev[2]))
            exp_allowed = widen({k: {v} for k, v in model.items()}, ev[2])
            getattr(real, UPDOPS[op])(mk_arg(ev[1], ev[2]))
        elif op == "amd":
            model = m_amd(model, ev[1])
            real.add_missing_directories(**AMD_VARIANTS[ev[1]])
        elif op == "clear":
            model = {}
            real.clear()
        elif op == "clone":
            real = real.clone()
        elif op == "assign":
            exp_allowed = widen(m_binary(ev[1], model, m_of(ev[3])), ev[3])
            real = getattr(real, ev[1])(mk_arg(ev[2], ev[3]))
        elif op == "reloc":
            model = m_reloc(model, ev[1], ev[2])
            real = real.change_offset(ev[1], ev[2])
            st.relocs += 1
        else:
            raise ValueError(ev)
    except Exception as e:  # the implementation raised where the model does not
        notes.append(f"{op}{tuple(ev[1:])!r} raised {type(e).__name__}: {e}")
    got, st.order, probs = snap(real)
    notes.extend(f"after {op}{tuple(ev[1:])!r}: {p}" for p in probs)
    if exp_allowed is not None:
        d = diff_allowed(got, exp_allowed)
    else:
        d = diff_state(got, model)
    if d:
        notes.append(f"{op}{tuple(ev[1:])!r} on {fmt(st.model)}: {d}")
    st.prev = st.model
    st.real, st.model, st.last_notes = real, got, notes
    return st


def build(hist):
    st = St(None, {}, None)
    for ev in hist:
        apply(st, ev)
    return st


def canon(st):
    order = st.order  # snapshot taken right after the last event; queries verify they leave the set unchanged
    return (type(st.real).__name__, bool(st.real.mutable), order if st.cls == "ocset" else tuple(sorted(order, key=repr)))


# ---------------------------------------------------------------- alphabets
def subsets(maxn):
    """sets of universe entries with pairwise distinct paths, smallest first"""
    out = [()]
    for n in range(1, maxn + 1):
        for ps in itertools.combinations(range(len(PATHS)), n):
            for ks in itertools.product(range(len(KINDS)), repeat=n):
                out.append(tuple(p * len(KINDS) + k for p, k in zip(ps, ks)))
    return out


ARGSETS_FULL = subsets(2)
ARGSETS_LIGHT = subsets(1) + [
    tuple(p * 3 + (p + q + i) % 3 for i, p in enumerate(pq)) for q, pq in enumerate(itertools.combinations(range(4), 2))
]
UPDATE_LISTS = [(p * 3 + a, p * 3 + b) for p in range(4) for a in range(3) for b in range(3) if a != b] + [
    (p * 3, q * 3 + 1) for p in range(4) for q in range(4) if p != q
]
# argument sequences naming one path twice (two different entries built from two different spellings), only ever handed
# over as one-shot iterators/generators: a map keyed by normalised path sees that path once
DUPSETS_FULL = [(p * 3 + a, p * 3 + b) for p in range(4) for a in range(3) for b in range(3) if a != b] + [
    t for p in range(4) for t in ((p * 3, p * 3 + 1, ((p + 1) % 4) * 3 + 2), (p * 3 + 2, ((p + 1) % 4) * 3, p * 3 + 1))
]
DUPSETS_LIGHT = [(p * 3 + p % 3, p * 3 + (p + 1) % 3) for p in range(4)] + [(4, 9, 5)]
DUP_AKINDS = ["iter", "gen"]
MUTATORS = ("add", "remove", "discard", "update", "diff_u", "inter_u", "symdiff_u", "clear")
BASE_STRINGS = [spell(p, si) for p in PATHS for si in range(NSPELL)]


def strings_for(model):
    out = list(BASE_STRINGS)
    for k in sorted(model):
        if k not in PATHS and k != "/":
            out.extend(spell(k, si) for si in range(NSPELL))
    if "/" in model:
        out.extend(["/", "/."])
    return out


def enabled_events(st, hist, quick):
    if not st.real.mutable:
        return
    strs = strings_for(st.model)
    for op in ("add",):
        for ei in range(NENT):
            yield (op, ei)
    for op in ("remove", "discard"):
        for ei in range(NENT):
            yield (op, "e", ei)
        for s in strs:
            yield (op, "s", s)
    for l in UPDATE_LISTS:
        yield ("update", l)
    argsets = ARGSETS_LIGHT
    for op in UPDOPS:
        for ak in AKINDS:
            for a in argsets:
                yield (op, ak, a)
        for i, a in enumerate(DUPSETS_LIGHT):
            yield (op, DUP_AKINDS[i % 2], a)
    yield ("amd", 0)
    yield ("amd", 1)
    yield ("clear",)
    yield ("clone",)
    for op in BINOPS:
        for ak in AKINDS[:1] if quick else AKINDS:  # the query battery runs these four with every argument kind anyway
            for a in argsets:
                yield ("assign", op, ak, a)
        for i, a in enumerate(DUPSETS_LIGHT):
            yield ("assign", op, DUP_AKINDS[(i + 1) % 2], a)
    if st.relocs == 0 and st.model:
        for old in OLD_OFFSETS:
            if all(under(k, norm(old)) for k in st.model):
                for new in ("/n", "/", "/a/"):
                    yield ("reloc", old, new)


def enabled_amd3(st, hist):
    """the family  add_missing_directories ; any one mutator ; add_missing_directories  (root = init + amd)"""
    if len(hist) == 2:
        for ev in enabled_events(st, hist, True):
            if ev[0] in MUTATORS:
                yield ev
    elif len(hist) == 3:
        yield ("amd", 0)
        yield ("amd", 1)


def is_plain(model):
    """every entry is one of the universe entries (such states are also covered by the directly constructed battery roots)"""
    return all(s[2] is not None and 0 <= s[2] - 0o600 < NENT and entry_sig(s[2] - 0o600) == s for s in model.values())


def probes_for(st, level):
    strs = strings_for(st.model)
    for ei in range(NENT):
        yield ("in", "e", ei)
        yield ("get", "e", ei)
    for s in strs:
        yield ("in", "s", s)
        yield ("get", "s", s)
    if level == "lookups":
        return
    argsets = ARGSETS_FULL if level == "full" else ARGSETS_LIGHT
    for op in PREDS + BINOPS:
        for ak in AKINDS:
            for a in argsets:
                yield (op, ak, a)
        for ak in DUP_AKINDS:
            for a in DUPSETS_FULL if level == "full" else DUPSETS_LIGHT:
                yield (op, ak, a)
    for old in OLD_OFFSETS:
        if st.model and all(under(k, norm(old)) for k in st.model):
            for new in NEW_OFFSETS:
                yield ("change_offset", old, new)
    for new in NEW_OFFSETS:
        yield ("insert_offset", new)
    yield ("octor_amd",)
    yield ("clone",)


def run_probe(st, probe):
    """evaluate one non-mutating query on the real set against the model -> (outcome class, [messages])"""
    real, model = st.real, st.model
    op = probe[0]
    msgs = []
    cls = op
    try:
        if op in ("in", "get"):
            k = keyof(probe[1], probe[2])
            arg = argof(probe[1], probe[2])
            unn = probe[1] == "s" and probe[2] != k
            if op == "in":
                got = arg in real
                cls = f"in:{'str' if probe[1] == 's' else 'entry'}:{'unnorm:' if unn else ''}{got}"
                if got != (k in model):
                    msgs.append(f"({probe[2]!r} in set)={got} but path {k} {'is' if k in model else 'is not'} a key of {fmt(model)}")
            else:
                try:
                    got = real_sig(real[arg])
                except KeyError:
                    got = None
                cls = f"get:{'str' if probe[1] == 's' else 'entry'}:{'unnorm:' if unn else ''}{'hit' if got else 'KeyError'}"
                if got != model.get(k):
                    msgs.append(f"set[{probe[2]!r}] -> {got} but model holds {model.get(k)} for {k}")
        elif op in PREDS or op in BINOPS:
            a = m_of(probe[2])
            arg = mk_arg(probe[1], probe[2])
            rel = "dupkeys" if len(a) < len(probe[2]) else "empty" if not a else "disjoint" if not set(a) & set(model) else "samevals" if all(model.get(k) == v for k, v in a.items() if k in model) else "overlap"
            if op in PREDS:
                got = getattr(real, op)(arg)
                cls = f"{op}:{got}"
                exp = m_pred(op, model, a)
                if got is not exp:
                    msgs.append(f"{fmt(model)}.{op}({probe[1]} {fmt(a)}) = {got!r}, maps say {exp}")
            else:
                res = getattr(real, op)(arg)
                cls = f"{op}:{rel}"
                if res is real:
                    msgs.append(f"{op} returned the set itself")
                got, _o, probs = snap(res)
                msgs.extend(f"{op} result: {p}" for p in probs)
                d = diff_allowed(got, widen(m_binary(op, model, a), probe[2]))
                if d:
                    msgs.append(f"{fmt(model)}.{op}({probe[1]} {fmt(a)}): {d}")
            if probe[1] in ("cset", "ocset"):
                d = diff_state(snap(arg)[0], a)
                if d:
                    msgs.append(f"{op} modified its argument: {d}")
        elif op in ("change_offset", "insert_offset"):
            if op == "change_offset":
                old, new = probe[1], probe[2]
                res = real.change_offset(old, new)
            else:
                old, new = "/", probe[1]
                res = real.insert_offset(new)
            exp = m_reloc(model, old, new)
            cls = f"{op}:{'root' if norm(old) == '/' else 'sub'}->{'root' if norm(new) == '/' else 'sub'}"
            got, _o, probs = snap(res)
            msgs.extend(f"{op} result: {p}" for p in probs)
            d = diff_state(got, exp)
            if d:
                msgs.append(f"{fmt(model)}.{op}{tuple(probe[1:])!r}: {d}")
        elif op == "octor_amd":
            from pkgcore.fs import contents

            res = contents.OrderedContentsSet(list(real), add_missing_directories=True)
            got, _o, probs = snap(res)
            miss = m_missing(model)
            cls = f"octor_amd:{'adds' if miss else 'complete'}"
            exp = dict(model)
            for a in miss:
                exp[a] = ("dir", a, 0o775, 0, 0, got.get(a, (None,) * 6)[5], None, None)  # default mtime reads the clock
            d = diff_state(got, exp)
            if d:
                msgs.append(f"OrderedContentsSet({fmt(model)}, add_missing_directories=True): {d}")
        elif op == "clone":
            res = real.clone()
            if res is real:
                msgs.append("clone returned the set itself")
            d = diff_state(snap(res)[0], model)
            if d:
                msgs.append(f"clone of {fmt(model)}: {d}")
        else:
            raise ValueError(probe)
    except Exception as e:
        msgs.append(f"{op}{tuple(probe[1:])!r} on {fmt(model)} raised {type(e).__name__}: {e}")
        cls = f"{op}:raised"
    d = diff_state(snap(real)[0], model)
    if d:
        msgs.append(f"query {op}{tuple(probe[1:])!r} changed the set: {d}")
    return cls, msgs


def event_class(st_before_model, ev):
    op = ev[0]
    if op in ("remove", "discard"):
        k = keyof(ev[1], ev[2])
        unn = ev[1] == "s" and ev[2] != k
        return f"{op}:{'str' if ev[1] == 's' else 'entry'}:{'unnorm:' if unn else ''}{'present' if k in st_before_model else 'absent'}"
    if op == "add":
        return f"add:{'replace' if entry_sig(ev[1])[1] in st_before_model else 'new'}"
    if op == "assign":
        return f"assign:{ev[1]}"
    if op == "amd":
        return f"amd:{'adds' if m_missing(st_before_model) else 'complete'}"
    return op


# ---------------------------------------------------------------- tasks
def _tup(x):
    return tuple(_tup(i) for i in x) if isinstance(x, (list, tuple)) else x


def tasks(tier):
    out = [("ctor",)]
    nroot, nbat = (2, 3) if tier == "quick" else (3, 4)
    for cls in ("cset", "ocset"):
        for eis in subsets(nroot):
            out.append(("bfs", cls, eis, 2, tier == "quick"))
        if tier != "quick":
            for eis in subsets(1):
                out.append(("bfs", cls, eis, 3, False))
            for eis in subsets(2):
                for v in range(len(AMD_VARIANTS)):
                    out.append(("amdbfs", cls, eis, v))
        sets = subsets(nroot)
        for i in range(0, len(sets), 9):
            out.append(("amd3", cls, tuple(sets[i : i + 9])))
    bat = [(cls, mutable, eis) for eis in subsets(nbat) for cls in ("cset", "ocset") for mutable in (True, False)]
    for i in range(0, len(bat), 8):
        out.append(("battery", tuple(bat[i : i + 8])))
    return out


def check_ctor():
    """entries built from any spelling carry the normalised location; a set built from several spellings of one path
    holds one entry"""
    evals, viol, classes = 0, [], {}
    from pkgcore.fs import contents

    for pi, p in enumerate(PATHS):
        for si in range(NSPELL):
            for ki in range(len(KINDS)):
                evals += 1
                sig = entry_sig(pi * 3 + ki)
                e = mk_entry(sig, si)
                classes["ctor"] = classes.get("ctor", 0) + 1
                if real_sig(e) != sig:
                    viol.append({"kind": "ctor", "ei": pi * 3 + ki, "si": si, "msg": f"{KINDS[ki]}({spell(p, si)!r}) -> {real_sig(e)} expected {sig}"})
        for cls in (contents.contentsSet, contents.OrderedContentsSet):
            evals += 1
            s = cls([mk_entry(entry_sig(pi * 3 + (si % 3)), si) for si in range(NSPELL)])
            got = snap(s)[0]
            exp = {p: entry_sig(pi * 3 + ((NSPELL - 1) % 3))}
            if got != exp:
                viol.append({"kind": "ctor-set", "pi": pi, "cls": cls.__name__, "msg": f"{cls.__name__} of {NSPELL} spellings of {p}: {got} expected {exp}"})
    return evals, viol, classes


def replay_ctor(case):
    evals, viol, _ = check_ctor()
    return [v["msg"] for v in viol if all(v.get(k) == case.get(k) for k in ("kind", "ei", "si", "pi", "cls"))]


def work(task):
    if task[0] == "ctor":
        evals, viol, classes = check_ctor()
        return {"evals": evals, "classes": classes, "viol": viol, "samples": [], "counters": {"states": 0, "transitions": 0}}
    evals = 0
    classes = {}
    cases = []
    battery_done = set()

    known = []

    def note(k):
        classes[k] = classes.get(k, 0) + 1

    def add_case(c):
        # cases of an already classified defect must not crowd out anything else
        if any(f(c) for f in CLASSIFIERS.values()):
            if len(known) < 3:
                known.append(c)
        elif len(cases) < 36:
            cases.append(c)

    def check(st, hist):
        nonlocal evals
        evals += 1
        if len(hist) > 1 and hist[-1][0] != "init":
            note(event_class(st.prev, hist[-1]))
        for m in st.last_notes:
            add_case({"hist": list(hist), "probe": None, "msg": m})
        key = canon(st)
        if key in battery_done:
            return []
        battery_done.add(key)
        if len(hist) >= battery_below:
            return []  # leaf of the bounded search: the transition was judged above, queries run in expanded states
        level = "full" if task[0] == "battery" else "lookups" if task[0] == "amd3" or is_plain(st.model) else "light"
        for probe in probes_for(st, level):
            evals += 1
            c, msgs = run_probe(st, probe)
            note(c)
            for m in msgs[:1]:
                add_case({"hist": list(hist), "probe": list(probe), "msg": m})
        return []

    states = transitions = 0
    samples = []
    maxd = 0
    battery_below = 99
    en = lambda st, hist: enabled_events(st, hist, task[0] == "bfs" and task[4])  # noqa: E731
    if task[0] == "bfs":
        _, cls, eis, depth, quick = task
        roots = [((("init", cls, True, tuple(eis)),), 1 + depth)]
    elif task[0] == "amdbfs":
        _, cls, eis, v = task
        roots = [((("init", cls, True, tuple(eis)), ("amd", v)), 4)]
    elif task[0] == "amd3":
        roots = [((("init", task[1], True, tuple(eis)), ("amd", v)), 4) for eis in task[2] for v in range(len(AMD_VARIANTS))]
        en = enabled_amd3
    else:
        roots = [((("init", cls, mutable, tuple(eis)),), 1) for cls, mutable, eis in task[1]]
    for root, md in roots:
        battery_below = 3 if task[0] == "amd3" else md if task[0] in ("bfs", "amdbfs") else 99
        r = bfs.explore(root, build, en, canon, check, md)
        states += r["states"]
        transitions += r["transitions"]
        maxd = max(maxd, r["max_depth"] - 1)
        if len(samples) < 2:
            samples.append(r["sample"])
    return {
        "evals": evals,
        "classes": classes,
        "viol": cases + known,
        "samples": samples,
        "counters": {"states": states, "transitions": transitions, "max_depth": maxd},
    }


def replay(case):
    if case.get("kind", "").startswith("ctor"):
        return replay_ctor(case)
    hist = _tup(case["hist"])
    st = build(hist)
    if case.get("probe") is None:
        return list(st.last_notes)
    return run_probe(st, _tup(case["probe"]))[1]


def _discard_unnormalised(case):
    """contentsSet.discard(<path string>) looks the string up without normalising it, so discarding an un-normalised
    spelling of a present path silently removes nothing."""
    if case.get("probe") is not None or not case.get("hist"):
        return False
    ev = case["hist"][-1]
    return ev[0] == "discard" and ev[1] == "s" and ev[2] != norm(ev[2]) and case.get("msg", "").startswith("discard(")


CLASSIFIERS = {"discard-unnormalised-string": _discard_unnormalised}
