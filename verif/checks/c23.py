"""C23 merge-time permission hardening never lets unsafe modes through (E1: every mode x kind x owner)."""

import io
import os
import shutil
import sys
import tempfile

PROPERTY = "C23"
LEVEL = "exploration"
ENGINE = "enum"
TECHNIQUE = (
    "exhaustive enumeration of all 4096 permission modes x entry kind x owner/group through a real "
    "MergeEngine.install(...).pre_merge() with the default triggers, judged by a per-entry predicate"
)
RULE = (
    "every mode 0..07777 x kind {file, dir, fifo, symlink, char device} x uid {root, build user, build group's number, other} "
    "x gid likewise x observer {engine default, repo_observer(null_output()), repo_observer(file_handle_output(StringIO))}; 64 entries of one kind (plus one mixed-kind "
    "batch per task) form the contents of one package whose install engine's pre_merge hook is run with the default triggers "
    "under a scratch offset; "
    "engine.csets['new_cset'] is then judged per entry. A second sweep gives every entry a file name with characters special "
    "to %-interpolation, str.format and escapes ('%', 'a%sb', '100%.dat', 'a%20b', 'x%%y', '%(k)s', '%d', '{', '}', '{0}', "
    "backslashes, a space; one name per package and all names mixed in one package) under offsets 'root' and 'ro%ot{}' with 256 "
    "representative modes x 5 kinds, through observers {engine default, null, repo_observer(file_handle_output), "
    "repo_observer(formatter_output(PlainTextFormatter))} - the real interpolating outputs pmerge wires, real trigger dispatch "
    "with exception suppression. A class is (kind, which of the mode/uid/gid fixes the stage was observed to apply)."
)
P_UID, P_GID, OTHER = 250, 251, 1234
ASSUMPTIONS = [
    f"the sandbox has no 'portage' account (os_data would make the build user root); pwd/grp lookups of 'portage' are interposed to uid {P_UID} / gid {P_GID} before pkgcore.os_data is imported, so the default fix_uid_perms/fix_gid_perms triggers have a non-root build user to act on",
    "Excl: the set-id/world-writable clause is not applied to symlinks (their mode is never applied at merge; fix_set_bits deliberately skips them); ownership and identity clauses are",
    "frame condition (DESIGN C23 O): mode bits outside 06002 are unchanged, uid/gid that are not the build user's/group's are unchanged; whether the world-writable bit itself is cleared is not judged",
    "pre_merge raising an exception for a set of ordinary entries counts as a violation (the stage did not produce a hardened set)",
    "the engine runs with offset = a tmpfs scratch directory (the default ldconfig trigger stats/creates etc/ld.so.conf under the offset); expected location = offset + original location",
]
BOUNDS = {
    "quick": "full product: 4096 modes x 5 kinds x 4 uids x 4 gids x 3 observers = 983 040 entries (+ mixed-kind packages), 64-70 entries per engine run, 15 744 engine runs; plus the path-name sweep: 13 names (+ mixed) x 2 offsets x 4 observers x 256 modes x 5 kinds = 143 360 entries in 2 240 engine runs",
    "thorough": "same full product (the space is finite and fully covered in quick)",
}

KINDS = ["file", "dir", "fifo", "sym", "dev"]
UIDS = [0, P_UID, P_GID, OTHER]
GIDS = [0, P_GID, P_UID, OTHER]
OBSERVERS = ["none", "null", "fho"]
# observers for the path-name sweep: engine default, and the two real interpolating outputs wrapped the way pmerge wires
# them (repo_observer(formatter_output(formatter)) / repo_observer(file_handle_output(stream)))
NAME_OBSERVERS = ["none", "null", "fho", "fmt"]
# path-name representatives: characters special to %-interpolation, str.format and escapes
NAMES = ["%", "a%sb", "100%.dat", "a%20b", "x%%y", "%(k)s", "%d", "{", "}", "{0}", "a\\b", "\\n", "pl ain"]
OFFSET_NAMES = ["root", "ro%ot{}"]
# modes for the path-name sweep: every set-id/sticky combination x every 'other' triple x owner {0,7} x group {0,5}
NAME_MODES = [sp << 9 | u << 6 | g << 3 | o for sp in range(8) for u in (0, 7) for g in (0, 5) for o in range(8)]
BATCH = 64
S_IFCHR = 0o020000

_ENV = {}


def _env():
    """import the engine with a simulated portage account; one scratch root per process"""
    if _ENV:
        return _ENV
    import grp
    import pwd

    real_pw, real_gr = pwd.getpwnam, grp.getgrnam

    def getpwnam(name):
        if name == "portage":
            return pwd.struct_passwd(("portage", "x", P_UID, P_GID, "", "/var/tmp/portage", "/bin/false"))
        return real_pw(name)

    def getgrnam(name):
        if name == "portage":
            return grp.struct_group(("portage", "x", P_GID, []))
        return real_gr(name)

    if "pkgcore.merge.triggers" in sys.modules or "pkgcore.os_data" in sys.modules:
        from pkgcore import os_data

        if (os_data.portage_uid, os_data.portage_gid) != (P_UID, P_GID):
            raise RuntimeError("pkgcore.os_data was imported before the portage account could be simulated")
    pwd.getpwnam, grp.getgrnam = getpwnam, getgrnam
    try:
        from pkgcore import os_data
        from pkgcore.merge import engine, triggers
    finally:
        pwd.getpwnam, grp.getgrnam = real_pw, real_gr
    from pkgcore.fs import contents, fs
    from pkgcore.operations import observer
    from snakeoil.data_source import data_source

    if (os_data.portage_uid, os_data.portage_gid, os_data.root_uid, os_data.root_gid) != (P_UID, P_GID, 0, 0):
        raise RuntimeError("simulated portage account not picked up by pkgcore.os_data")
    if (triggers.fix_uid_perms().bad_uid, triggers.fix_gid_perms().bad_gid) != (P_UID, P_GID):
        raise RuntimeError("default permission triggers do not target the simulated build user")
    _ENV.update(engine=engine, triggers=triggers, contents=contents, fs=fs, observer=observer, data_source=data_source)
    return _ENV


class Scratch:
    def __init__(self, offset_name="root"):
        self.offset_name = offset_name

    def __enter__(self):
        self.base = tempfile.mkdtemp(dir="/dev/shm", prefix=f"verif-{PROPERTY}-{os.getpid()}-")
        self.offset = os.path.join(self.base, self.offset_name)
        self.tmp = os.path.join(self.base, "tmp")
        os.makedirs(self.offset)
        os.makedirs(self.tmp)
        return self

    def __exit__(self, *a):
        shutil.rmtree(self.base, ignore_errors=True)


def loc_of(i, spec):
    """spec = [kind, mode, uid, gid] or [kind, mode, uid, gid, name]: the optional name becomes part of the file name"""
    return f"/usr/share/c23/{spec[0]}{i}" + (f"-{spec[4]}" if len(spec) > 4 else "")


def mk_entry(env, i, spec):
    """spec = [kind, mode, uid, gid] -> (real entry, data object or None)"""
    fs = env["fs"]
    kind, mode, uid, gid = spec[:4]
    loc = loc_of(i, spec)
    common = dict(mode=mode, uid=uid, gid=gid, mtime=1000 + i)
    if kind == "file":
        ds = env["data_source"](b"payload %d" % i)
        return fs.fsFile(loc, data=ds, dev=None, inode=None, **common), ds
    if kind == "dir":
        return fs.fsDir(loc, **common), None
    if kind == "fifo":
        return fs.fsFifo(loc, **common), None
    if kind == "sym":
        return fs.fsSymlink(loc, f"../target{i}", **common), None
    common["mode"] = S_IFCHR | mode
    return fs.fsDev(loc, major=1, minor=3, **common), None


KIND_ATTR = {"file": "is_reg", "dir": "is_dir", "fifo": "is_fifo", "sym": "is_sym", "dev": "is_dev"}


def judge(spec, i, orig, data, res, offset):
    """the property, per entry: spec is what went in, res what pre_merge left in new_cset (or None)"""
    kind, mode, uid, gid = spec[:4]
    want_loc = offset.rstrip("/") + loc_of(i, spec)
    if res is None:
        return [f"{kind} {loc_of(i, spec)} mode {mode:04o} uid {uid} gid {gid}: no entry at {want_loc} after pre_merge"]
    msgs = []
    head = f"{kind} mode {mode:04o} uid {uid} gid {gid}" + (f" name {spec[4]!r}" if len(spec) > 4 else "")
    if type(res) is not type(orig) or not getattr(res, KIND_ATTR[kind], False):
        msgs.append(f"{head}: type changed to {type(res).__name__}")
        return msgs
    if res.location != want_loc:
        msgs.append(f"{head}: location {res.location!r} expected {want_loc!r}")
    if kind == "sym" and res.target != orig.target:
        msgs.append(f"{head}: target changed {orig.target!r} -> {res.target!r}")
    if kind == "file" and res.data is not data:
        msgs.append(f"{head}: data object replaced")
    rmode = res.mode & 0o7777
    if kind != "sym" and (rmode & 0o6000) and (rmode & 0o002):
        msgs.append(f"{head}: still set-id and world-writable after pre_merge (mode {rmode:04o})")
    if uid == P_UID and res.uid != 0:
        msgs.append(f"{head}: owned by the build user but uid is {res.uid} after pre_merge")
    if gid == P_GID and res.gid != 0:
        msgs.append(f"{head}: owned by the build group but gid is {res.gid} after pre_merge")
    if uid != P_UID and res.uid != uid:
        msgs.append(f"{head}: uid changed {uid} -> {res.uid}")
    if gid != P_GID and res.gid != gid:
        msgs.append(f"{head}: gid changed {gid} -> {res.gid}")
    if (res.mode ^ orig.mode) & ~0o6002:
        msgs.append(f"{head}: mode bits outside 06002 changed {orig.mode:o} -> {res.mode:o}")
    return msgs


def outcome(spec, orig, res):
    """observed outcome class: which of the three fixes pre_merge applied to this entry"""
    if res is None:
        return f"{spec[0]}:lost"
    fx = [n for n, ch in (("mode", res.mode != orig.mode), ("uid", res.uid != orig.uid), ("gid", res.gid != orig.gid)) if ch]
    return f"{spec[0]}:{'+'.join(fx) or 'untouched'}"


def mk_observer(env, obs):
    o = env["observer"]
    if obs == "none":
        return None
    if obs == "null":
        return o.repo_observer(o.null_output())
    if obs == "fho":
        return o.repo_observer(o.file_handle_output(io.StringIO()))
    if obs == "fmt":
        from snakeoil.formatters import PlainTextFormatter

        return o.repo_observer(o.formatter_output(PlainTextFormatter(io.BytesIO())))
    raise ValueError(obs)


def eval_batch(obs, specs, scratch):
    """run one engine over the entries `specs`; -> (list of (index, message), outcome classes); index None = whole batch"""
    env = _env()
    built = [mk_entry(env, i, s) for i, s in enumerate(specs)]

    class pkg:
        contents = env["contents"].contentsSet([e for e, _ in built])

    try:
        eng = env["engine"].MergeEngine.install(scratch.tmp, pkg, offset=scratch.offset, observer=mk_observer(env, obs))
        eng.pre_merge()
        cset = eng.csets["new_cset"]
    except Exception as e:
        return [(None, f"pre_merge with observer={obs} raised {type(e).__name__}: {e}")], []
    out = []
    tags = []
    got = {x.location: x for x in cset}
    if len(got) != len(specs):
        out.append((None, f"new_cset holds {len(got)} entries for {len(specs)} package entries"))
    for i, (s, (orig, data)) in enumerate(zip(specs, built)):
        res = got.get(scratch.offset.rstrip("/") + loc_of(i, s))
        tags.append(outcome(s, orig, res))
        for m in judge(s, i, orig, data, res, scratch.offset):
            out.append((i, m))
    return out, tags


def tasks(tier):
    out = [(obs, uid, gid, o) for obs in OBSERVERS for uid in UIDS for gid in GIDS for o in range(8)]
    out += [("names", obs, off, name) for obs in NAME_OBSERVERS for off in OFFSET_NAMES for name in NAMES + ["*mixed*"]]
    return out


def name_batches(name):
    """NAME_MODES x kinds, owned by the build user and group, every entry's file name carrying `name`; '*mixed*' puts all
    names into every package (so one entry's name can affect what happens to the others)"""
    if name == "*mixed*":
        specs = [[k, m, P_UID, P_GID, NAMES[(j + ki) % len(NAMES)]] for j, m in enumerate(NAME_MODES) for ki, k in enumerate(KINDS)]
    else:
        specs = [[k, m, P_UID, P_GID, name] for k in KINDS for m in NAME_MODES]
    for i in range(0, len(specs), BATCH):
        yield specs[i : i + BATCH]


def batches(uid, gid, o):
    """all 512 modes whose 'other' permission bits are `o`, for every kind: kind-homogeneous batches of 64 entries plus
    one batch mixing the kinds (a batch is one package / one engine run)"""
    for k in KINDS:
        for hi in range(0, 512, BATCH):
            yield [[k, h * 8 + o, uid, gid] for h in range(hi, hi + BATCH)]
    yield [[k, h * 8 + o, uid, gid] for h in range(0, 512, 37) for k in KINDS]


def work(task):
    if task[0] == "names":
        _, obs, offname, name = task
        todo = name_batches(name)
    else:
        obs, uid, gid, o = task
        offname = "root"
        todo = batches(uid, gid, o)
    evals = 0
    classes = {}
    viol = []
    known = []

    def add(case):
        if any(f(case) for f in CLASSIFIERS.values()):
            if len(known) < 2:
                known.append(case)
        elif len(viol) < 38:
            viol.append(case)

    def note(c, n=1):
        classes[c] = classes.get(c, 0) + n

    def case_of(entries, msg):
        c = {"obs": obs, "entries": entries, "msg": msg}
        if offname != "root":
            c["offset"] = offname
        return c

    with Scratch(offname) as sc:
        for specs in todo:
            evals += len(specs)
            bad, tags = eval_batch(obs, specs, sc)
            if any(i is None for i, _ in bad):
                # the stage itself failed: find the simplest single entry that makes it fail; the other entries of this
                # package could not be judged in this run
                note(f"stage-raised:{specs[0][0] if len({s[0] for s in specs}) == 1 else 'mixed'}:{obs}", len(specs))
                for sp in specs:
                    one = eval_batch(obs, [sp], sc)[0]
                    if one:
                        add(case_of([sp], one[0][1]))
                        break
                else:
                    add(case_of(specs, bad[0][1]))
                continue
            for t in tags:
                note(t)
            if bad:
                shrunk = False
                for i in sorted({i for i, _ in bad})[:3]:
                    one = eval_batch(obs, [specs[i]], sc)[0]
                    if one:
                        add(case_of([specs[i]], one[0][1]))
                        shrunk = True
                if not shrunk:
                    add(case_of(specs, bad[0][1]))
    if task[0] == "names":
        samples = [case_of([["file", 0o6777, P_UID, P_GID, NAMES[0] if name == "*mixed*" else name]], "")]
    else:
        samples = [{"obs": obs, "entries": [[k, 0o6770 + o, uid, gid] for k in KINDS[:2]]}]
    return {"evals": evals, "classes": classes, "viol": viol + known, "samples": samples}


def replay(case):
    with Scratch(case.get("offset", "root")) as sc:
        return [m for _i, m in eval_batch(case["obs"], [list(s) for s in case["entries"]], sc)[0]]


def _default_observer(case):
    """MergeEngine.__init__ wraps the *class* observer.null_output (not an instance) when no observer is passed, so the
    first trigger that warns (fix_set_bits / detect_world_writable on a world-writable entry) dies with TypeError, and
    so does the engine's own exception-suppression path."""
    return case.get("obs") == "none" and "raised TypeError" in case.get("msg", "") and "null_output.warn() missing" in case.get("msg", "")


CLASSIFIERS = {"default-observer-null-output-class": _default_observer}
