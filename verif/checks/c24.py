"""C24 installed-package CONTENTS files round-trip and are replaced atomically.

Seam: pkgcore.vdb.contents.ContentsFile(path, create=True) + update + flush (exactly what
vdb.repo_ops does), read back with a fresh ContentsFile(path) (what vdb.ondisk does).
"""

import itertools
import os
import shutil
import tempfile

PROPERTY = "C24"
LEVEL = "exploration"
ENGINE = "enum"
TECHNIQUE = "exhaustive enumeration of bounded contents sets + crash-point/torn-write enumeration of flush()"
RULE = (
    "every set of <=3 entries (distinct locations) over a universe of file/symlink/dir/fifo/device entries whose "
    "paths and symlink targets carry embedded, doubled, leading and trailing spaces, '->' fragments (glued and as a "
    "separate word), unicode, keyword-like and checksum-like words, with md5 in {0, 2^128-1, mixed} and mtime in "
    "{0, 1, 2^31, 1.9}; each set is flushed through the real ContentsFile and read back by a fresh ContentsFile and "
    "compared with a plain dict model on (kind, path, md5, int(mtime), target). Separately, for every ordered pair "
    "(old set, new set) of a scenario list, flush(new) over a file holding old is re-executed with a crash before "
    "every mutating syscall and a torn write at every open-for-write; the file bytes and the fresh read must be those "
    "of the complete old or the complete new file. A class is (entry kinds in the set, path/target features) for the "
    "round trip and (crash plan, old/new outcome) for the sweep; distinct_nontrivial counts the classes observed."
)
RULE += (
    " Fault variants per scenario: crash before each mutating syscall, crash at the first Python line after each "
    "rename/link/symlink returns, torn write at each open-for-write, and each write()/writelines() call on a file "
    "opened for writing below the scratch root failing after half of its data with OSError(ENOSPC) resp. "
    "KeyboardInterrupt (process alive, the code's own error handling runs; afterwards old-or-new, and a later "
    "fault-free run must give the complete new state)."
)
RULE += (
    " Paths and symlink targets also carry each character str.splitlines() breaks at but a line iteration does not "
    "(U+2028, U+2029, U+0085, \\x0b, \\x0c, \\x1c-\\x1e) and \\r, inside and at the end. Operation histories on one "
    "ContentsFile object: {open an existing CONTENTS, create one and flush it} followed by rounds of one change "
    "(add a new path, remove a path, replace the entry at a present path with other md5/mtime, other symlink "
    "target/mtime, or another entry type, through add() and update()) + flush(); after every flush a fresh reader "
    "must see exactly the in-memory set."
)
ASSUMPTIONS = [
    "Excl: paths or targets containing \\n: the format is line based. \\r IS in the alphabet (before the fix 'vdb CONTENTS is read "
    "with only \\n ending an entry' a \\r inside a path ended the line on read: [('dir', '/a\\rb')] -> ValueError unknown entry type 'b'), "
    "as are the other characters str.splitlines() breaks at (U+2028, U+2029, U+0085, \\x0b, \\x0c, \\x1c-\\x1e)",
    "Excl: symlink *locations* containing '->' as a separate word: 'sym A -> B -> C t' is inherently ambiguous in the "
    "format (portage resolves it the same way, first '->' wins); '->' as a separate word is covered in symlink targets "
    "and in file/dir/fifo/device paths, and glued ('a->b') everywhere",
    "Excl: locations are absolute and normalised (fsBase normalises on construction, not part of this property)",
    "Excl: ContentsFile over a data_source (only the file-path form is used by the vdb)",
    "device entries are read back through LookupFsDev which stats the *live* path: the alphabet has one device path that "
    "does not exist on the host and /dev/null",
    "crash = process death with completed syscalls durable; loss of un-synced data on power failure is not modelled",
    "a stale .update.CONTENTS left behind by a crash is not an error for this property",
]
BOUNDS = {
    "quick": "universe 618 entries (+ the empty set): all singles; all pairs of a 75-entry core (distinct paths); all triples of a "
    "36-entry core (~9.4k round trips); 2 starts x all valid histories of <=2 rounds over 15 operations (~480 histories); crash sweep: all ordered "
    "pairs of 14 scenario sets incl. absent/empty = 182 scenarios x (5 crash points + crash-after-rename + torn write + 2 write faults per write call)",
    "thorough": "all singles; all pairs of the whole universe; all triples of a 75-entry core; histories of <=3 rounds; crash sweep over all ordered pairs of 21 scenario sets = 420 scenarios",
}

# ---------------------------------------------------------------------------------------------
# alphabet (plain data; an entry is a tuple)
#   ("obj", path, md5, mtime) ("sym", path, target, mtime) ("dir", path) ("fif", path) ("dev", path)

NAMES = [
    "a",
    "a b",
    "a  b",  # doubled space
    " a",  # leading space
    "a ",  # trailing space
    "a -> b",  # arrow as a separate word
    "a->b",  # glued arrow
    "->",
    "é ✓",  # unicode
    "dir x",  # keyword-like first word
    "x 00000000000000000000000000000001 7",  # looks like the tail of an obj line
]
TARGETS = ["t", "t u", "../a  b", "t -> u", "->", "é", "t ", " t", "x 12"]
MD5S = [0, 2**128 - 1, 0xD41D8CD98F00B204E9800998ECF8427E]
MTIMES = [0, 1, 2**31, 1.9]
# characters str.splitlines() or a universal-newline read breaks at but that do not end a CONTENTS entry
LINEBREAKS = ["\u2028", "\u2029", "\x85", "\x0b", "\x0c", "\x1c", "\x1d", "\x1e", "\r"]
DEVROOT = "/verif-c24-no-such-dir"  # device paths below it do not exist on the host
DEV_MISSING = DEVROOT + "/a"
DEV_LIVE = "/dev/null"


def _arrow_word(s):
    return "->" in s.split(" ")


def _paths():
    out = ["/" + n for n in NAMES]
    out += ["/d e/" + n for n in ("a", "a b", "a ")]
    return out


def universe():
    ents = []
    for p in _paths():
        for md5 in MD5S:
            for mt in MTIMES:
                ents.append(("obj", p, md5, mt))
    for p in _paths():
        if _arrow_word(p):
            continue
        for t in TARGETS:
            for mt in (0, 2**31, 1.9):
                ents.append(("sym", p, t, mt))
    for kind in ("dir", "fif"):
        for p in _paths():
            ents.append((kind, p))
    for p in _paths():
        ents.append(("dev", DEVROOT + p))
    ents.append(("dev", DEV_LIVE))
    ents.extend(linebreak_entries())
    return ents


def linebreak_entries():
    """every kind with each line-break look-alike inside and at the end of a path / symlink target"""
    out = []
    for ch in LINEBREAKS:
        out.append(("obj", "/a" + ch + "b", 0, 1))
        out.append(("dir", "/a" + ch + "b"))
        out.append(("dir", "/a" + ch))
        out.append(("fif", "/" + ch + "a"))
        out.append(("dev", DEVROOT + "/a" + ch + "b"))
        out.append(("sym", "/l", "t" + ch + "u", 0))
        out.append(("sym", "/l" + ch + "m", "t" + ch, 1))
    return out


def core(n):
    """simplest-first sub-universe: one entry per (kind, path feature), then attribute variants"""
    first = [
        ("obj", "/a", 0, 0),
        ("sym", "/a", "t", 0),
        ("dir", "/a"),
        ("fif", "/a"),
        ("dev", DEV_LIVE),
        ("obj", "/a b", 2**128 - 1, 2**31),
        ("sym", "/a b", "t u", 2**31),
        ("dir", "/a b"),
        ("obj", "/a -> b", 0xD41D8CD98F00B204E9800998ECF8427E, 1.9),
        ("sym", "/a->b", "t -> u", 1.9),
        ("dir", "/a -> b"),
        ("fif", "/a -> b"),
        ("obj", "/é ✓", 0, 1),
        ("sym", "/é ✓", "é", 0),
        ("dir", "/é ✓"),
        ("obj", "/a ", 0, 1),
        ("sym", "/a ", "t ", 0),
        ("dir", "/a "),
        ("fif", "/a "),
        ("dev", DEV_MISSING),
        ("dir", "/d e"),
        ("obj", "/d e/a b", 0, 1),
        # ---- 22
        ("obj", "/x 00000000000000000000000000000001 7", 2**128 - 1, 0),
        ("dir", "/x 00000000000000000000000000000001 7"),
        ("sym", "/dir x", "x 12", 2**31),
        ("dir", "/dir x"),
        ("obj", "/a  b", 0, 2**31),
        ("sym", "/a  b", "../a  b", 0),
        ("dir", "/ a"),
        ("sym", "/ a", " t", 1.9),
        ("obj", "/->", 0, 0),
        ("sym", "/a", "->", 0),
        ("dir", "/->"),
        ("fif", "/->"),
        ("dev", DEVROOT + "/a b"),
        ("dev", DEVROOT + "/a "),
        # ---- 36
    ]
    if n <= len(first):
        return first[:n]
    rest = [e for e in universe() if e not in first]
    step = max(1, len(rest) // (n - len(first)))
    return first + rest[::step][: n - len(first)]


def scenario_sets(tier):
    c = core(22)
    sets = [
        None,  # file absent
        [],  # empty set
        [c[0]],
        [c[1]],
        [c[2]],
        [c[0], c[6], c[7]],
        [c[8], c[9], c[10]],
        [c[12], c[13], c[3]],
        [c[4], c[5]],
        [c[15], c[16]],
        [c[17], c[19]],
        [c[20], c[21], c[11]],
        [("obj", "/a", 2**128 - 1, 1)],  # same path as c[0], other attributes
        [("dir", "/a"), ("obj", "/a b", 0, 0)],
    ]
    if tier == "thorough":
        c = core(36)
        for i in range(22, 36, 2):
            sets.append([c[i], c[i + 1]])
        for i in range(0, 27, 3):
            sets.append([c[i], c[i + 11 if i + 11 < 36 else 1], c[(i + 23) % 36]])
        sets = [s for i, s in enumerate(sets) if s is None or len({e[1] for e in s}) == len(s)]
    return sets


# ---------------------------------------------------------------------------------------------
# reference model: what a reader must get back


def model(entries):
    d = {}
    for e in entries:
        k = e[0]
        if k == "obj":
            d[e[1]] = ["obj", e[2], int(e[3]), None]
        elif k == "sym":
            d[e[1]] = ["sym", None, int(e[3]), e[2]]
        else:
            d[e[1]] = [k, None, None, None]
    return d


def features(entries):
    f = set()
    for e in entries:
        strs = [("p", e[1])] + ([("t", e[2])] if e[0] == "sym" else [])
        for tag, s in strs:
            base = s.rsplit("/", 1)[-1] if tag == "p" else s
            if base != base.strip(" "):
                f.add(tag + "-edge-space")
            elif " " in base:
                f.add(tag + "-space")
            if _arrow_word(base):
                f.add(tag + "-arrow-word")
            elif "->" in base:
                f.add(tag + "-arrow-glued")
            if any(ord(ch) > 127 for ch in base):
                f.add(tag + "-unicode")
            if any(ch in base for ch in LINEBREAKS):
                f.add(tag + "-linebreak-lookalike")
        if e[0] in ("obj", "sym") and e[-1] != int(e[-1]):
            f.add("float-mtime")
        if e[0] == "dev" and e[1] != DEV_LIVE:
            f.add("dev-not-on-host")
    return f


# ---------------------------------------------------------------------------------------------
# driving the real code


def _mk(e):
    from pkgcore.fs import fs

    k = e[0]
    if k == "obj":
        return fs.fsFile(e[1], chksums={"md5": e[2]}, mtime=e[3], strict=False)
    if k == "sym":
        return fs.fsLink(e[1], e[2], mtime=e[3], strict=False)
    if k == "dir":
        return fs.fsDir(e[1], strict=False)
    if k == "fif":
        return fs.fsFifo(e[1], strict=False)
    return fs.fsDev(e[1], strict=False)


def write_set(path, entries):
    from pkgcore.vdb.contents import ContentsFile

    c = ContentsFile(path, mutable=True, create=True)
    c.update(_mk(e) for e in entries)
    c.flush()


def read_set(path):
    """canonical observation of a fresh reader: dict path -> [kind, md5, mtime, target] or an error string"""
    from pkgcore.vdb.contents import ContentsFile

    try:
        c = ContentsFile(path)
    except FileNotFoundError:
        return "absent"
    except Exception as e:  # unreadable file
        return f"unreadable: {type(e).__name__}: {e}"
    d = {}
    n = 0
    for o in c:
        n += 1
        if o.is_reg:
            md5 = o.chksums.get("md5") if o.chksums is not None else None
            mt = o.mtime
            d[o.location] = ["obj", md5, mt if type(mt) is int else repr(mt), None]
        elif o.is_sym:
            mt = o.mtime
            d[o.location] = ["sym", None, mt if type(mt) is int else repr(mt), o.target]
        elif o.is_dir:
            d[o.location] = ["dir", None, None, None]
        elif o.is_fifo:
            d[o.location] = ["fif", None, None, None]
        elif o.is_dev:
            d[o.location] = ["dev", None, None, None]
        else:
            d[o.location] = [type(o).__name__, None, None, None]
    if n != len(d):
        return f"unreadable: {n} objects for {len(d)} locations"
    return d


def check_roundtrip(path, entries):
    """-> (messages, observation)"""
    try:
        os.unlink(path)
    except FileNotFoundError:
        pass
    try:
        write_set(path, entries)
    except Exception as e:
        return [f"flush raised {type(e).__name__}: {e}"], None
    got = read_set(path)
    exp = model(entries)
    if got == exp:
        return [], got
    if isinstance(got, str):
        return [f"wrote {len(entries)} entries {_short(entries)}; reading back: {got}"], got
    missing = sorted(set(exp) - set(got))
    extra = sorted(set(got) - set(exp))
    diff = sorted(k for k in set(exp) & set(got) if exp[k] != got[k])
    parts = []
    if missing:
        parts.append(f"lost paths {missing!r}")
    if extra:
        parts.append(f"unexpected paths {extra!r}")
    for k in diff[:2]:
        parts.append(f"{k!r}: wrote {exp[k]!r} read {got[k]!r}")
    return [f"wrote {_short(entries)}; " + "; ".join(parts)], got


def _short(entries):
    return repr([list(e) for e in entries])[:300]


# operation histories on one ContentsFile object ----------------------------------------------------

HIST_BASE = [("obj", "/a", 0, 0), ("sym", "/l", "t", 0), ("dir", "/d")]
HIST_OPS = [
    ["add", ["obj", "/n", 1, 1]],  # new path
    ["add", ["dir", "/n2"]],  # new path
    ["remove", "/a"],
    ["remove", "/l"],
    ["remove", "/d"],
    ["add", ["obj", "/a", 2**128 - 1, 5]],  # same path: other md5 and mtime
    ["update", ["obj", "/a", 0, 7]],  # same path: other mtime only, through update()
    ["add", ["obj", "/a", 1, 0]],  # same path: other md5 only
    ["add", ["sym", "/a", "t", 0]],  # file -> symlink
    ["add", ["obj", "/l", 0, 0]],  # symlink -> file
    ["update", ["sym", "/l", "u", 0]],  # same path: other target
    ["add", ["sym", "/l", "t", 9]],  # same path: other symlink mtime
    ["add", ["obj", "/d", 0, 0]],  # dir -> file
    ["add", ["dir", "/a"]],  # file -> dir
    ["add", ["fif", "/d"]],  # dir -> fifo
]
HIST_STARTS = ["open-existing", "create-flush"]


def hist_valid(ops):
    """a remove must name a path that is there (removing an absent path raises KeyError by contract)"""
    paths = {e[1] for e in HIST_BASE}
    for op in ops:
        if op[0] == "remove":
            if op[1] not in paths:
                return False
            paths.discard(op[1])
        else:
            paths.add(op[1][1])
    return True


def check_history(path, start, ops):
    """{open an existing CONTENTS | create one and flush it}, then rounds of (one change, flush()): after every flush a
    fresh reader must see exactly the in-memory set. -> (messages, class names)"""
    from pkgcore.vdb.contents import ContentsFile

    try:
        os.unlink(path)
    except FileNotFoundError:
        pass
    names = {"hist:" + start, f"hist:depth-{len(ops)}"}
    try:
        if start == "open-existing":
            write_set(path, HIST_BASE)
            c = ContentsFile(path, mutable=True)
        else:
            c = ContentsFile(path, mutable=True, create=True)
            c.update(_mk(e) for e in HIST_BASE)
            c.flush()
        m = {e[1]: e for e in HIST_BASE}
        got = read_set(path)
        if got != model(list(m.values())):
            return [f"{start}: base set {_short(HIST_BASE)} reads back as {got!r}"], names
        for i, op in enumerate(ops):
            if op[0] == "remove":
                c.remove(op[1])
                del m[op[1]]
                names.add("hist:remove")
            else:
                e = tuple(op[1])
                prev = m.get(e[1])
                if op[0] == "add":
                    c.add(_mk(e))
                else:
                    c.update([_mk(e)])
                m[e[1]] = e
                if prev is None:
                    names.add("hist:new-path")
                elif prev[0] != e[0]:
                    names.add(f"hist:replace-kind-{prev[0]}-to-{e[0]}")
                elif prev == e:
                    names.add("hist:replace-identical")
                else:
                    names.add("hist:replace-attrs-" + e[0])
            c.flush()
            got = read_set(path)
            exp = model(list(m.values()))
            if got != exp:
                names.add("hist:MISMATCH")
                if isinstance(got, dict):
                    diff = {k: (exp.get(k, "<absent>"), got.get(k, "<absent>")) for k in set(exp) | set(got) if exp.get(k) != got.get(k)}
                else:
                    diff = got
                return [
                    f"{start} {_short(HIST_BASE)}, then {ops!r} with a flush() after each: after step {i + 1} a fresh reader does not see the "
                    f"in-memory set; (expected, read) per path: {diff!r}"[:900]
                ], names
    except Exception as e:
        return [f"{start}, {ops!r}: raised {type(e).__name__}: {e}"[:900]], names
    return [], names


def hist_space(tier, start, i):
    depth = 2 if tier == "quick" else 3
    out = [[HIST_OPS[i]]]
    for d in range(2, depth + 1):
        for rest in itertools.product(HIST_OPS, repeat=d - 1):
            out.append([HIST_OPS[i]] + list(rest))
    return [ops for ops in out if hist_valid(ops)]


# crash sweep -------------------------------------------------------------------------------


def _file_bytes(path):
    try:
        with open(path, "rb") as f:
            return f.read().decode("utf8", "replace")
    except FileNotFoundError:
        return None


def check_sweep(scr, old, new, only_plan=None):
    """old: entry list or None (file absent); new: entry list. -> (viol cases, classes, ncrash)"""
    from verif import c24c30_sweep as sw

    path = os.path.join(scr.data, "CONTENTS")

    def prepare():
        if old is not None:
            write_set(path, old)

    def op():
        write_set(path, new)

    def observe():
        return {"bytes": _file_bytes(path), "read": read_set(path)}

    # the two legal outcomes, taken from fault-free runs of the same code
    scr.reset()
    prepare()
    old_obs = observe()
    status, value, events = sw.record(scr, prepare, op)
    if status != "ok":
        return ([{"kind": "sweep", "old": old, "new": new, "plan": None, "msg": f"fault-free flush failed: {status} {value!r}"}], {}, 0)
    new_obs = observe()
    viol, classes, n = [], {}, 0
    for plan in sw.plans(events, scr.nwrites):
        if only_plan is not None and list(plan) != list(only_plan):
            continue
        n += 1
        status, value, evs = sw.run_plan(scr, prepare, op, plan)
        obs = observe()
        where = sw.describe(events, plan)
        if obs == new_obs and obs == old_obs:
            out = "old=new"
        elif obs == old_obs:
            out = "old"
        elif obs == new_obs:
            out = "new"
        else:
            out = "NEITHER"
            viol.append(
                {
                    "kind": "sweep",
                    "old": old,
                    "new": new,
                    "plan": list(plan),
                    "msg": f"flush interrupted at {where}: CONTENTS is neither the old nor the new file: "
                    f"bytes={obs['bytes']!r} read={obs['read']!r}; old bytes={old_obs['bytes']!r} new bytes={new_obs['bytes']!r}"[:900],
                }
            )
        if not sw.fired(status):
            viol.append({"kind": "sweep", "old": old, "new": new, "plan": list(plan), "msg": f"engine: plan {plan} did not fire ({status})"})
        if plan[0] in sw.WRITE_FAULTS:
            # the process survived the failed write: a later fault-free flush must give the complete new file
            sw.rerun(op)
            obs2 = observe()
            if obs2 != new_obs:
                out += "+recovery-bad"
                viol.append(
                    {
                        "kind": "sweep",
                        "old": old,
                        "new": new,
                        "plan": list(plan),
                        "msg": f"after {where} a later fault-free flush does not produce the complete new file: bytes={obs2['bytes']!r} read={obs2['read']!r}"[:900],
                    }
                )
        key = f"sweep:{sw.plan_class(events, plan)}:{out}"
        classes[key] = classes.get(key, 0) + 1
    return viol, classes, n


# ---------------------------------------------------------------------------------------------


def tasks(tier):
    out = []
    u = universe()
    for i in range(0, len(u), 30):
        out.append(("single", i, min(i + 30, len(u))))
    np_, nt = (75, 36) if tier == "quick" else (len(u), 75)
    for i in range(np_):
        out.append(("pair", np_, i))
    for i in range(nt):
        out.append(("triple", nt, i))
    ns = len(scenario_sets(tier))
    for i in range(ns):
        out.append(("sweep", tier, i))
    for start in HIST_STARTS:
        for i in range(len(HIST_OPS)):
            out.append(("hist", tier, start, i))
    return out


def _distinct(entries):
    return len({e[1] for e in entries}) == len(entries)


def work(task):
    from verif import c24c30_sweep as sw

    sw.warm("pkgcore.vdb.contents")
    base = tempfile.mkdtemp(dir="/dev/shm", prefix=f"verif-C24-{os.getpid()}-")
    evals = 0
    classes, viol, samples = {}, [], []
    counters = {"crash_points": 0, "crash_scenarios": 0}
    try:
        kind = task[0]
        if kind == "sweep":
            scr = sw.Scratch(base)
            sets = scenario_sets(task[1])
            old = sets[task[2]]
            for new in sets:
                if new is None:
                    continue
                v, c, n = check_sweep(scr, old, new)
                evals += n
                counters["crash_points"] += n
                counters["crash_scenarios"] += 1
                viol.extend(v)
                for k, x in c.items():
                    classes[k] = classes.get(k, 0) + x
            samples = [{"sweep_old": old, "sweep_new": sets[2]}]
        elif kind == "hist":
            path = os.path.join(base, "CONTENTS")
            space = hist_space(task[1], task[2], task[3])
            for ops in space:
                evals += 1
                msgs, names = check_history(path, task[2], ops)
                for k2 in names:
                    classes[k2] = classes.get(k2, 0) + 1
                if msgs:
                    viol.append({"kind": "hist", "start": task[2], "ops": ops, "msg": msgs[0]})
            samples = [{"start": task[2], "ops": space[-1]}]
        else:
            path = os.path.join(base, "CONTENTS")
            if kind == "single":
                u = universe()
                combos = [(u[i],) for i in range(task[1], task[2])]
            elif kind == "pair":
                c = core(task[1])
                combos = [(c[task[2]], c[j]) for j in range(task[2] + 1, len(c))]
            else:
                c = core(task[1])
                i = task[2]
                combos = [(c[i], c[j], c[k]) for j in range(i + 1, len(c)) for k in range(j + 1, len(c))]
            if kind == "single" and task[1] == 0:
                combos.insert(0, ())
            for combo in combos:
                if not _distinct(combo):
                    continue
                evals += 1
                msgs, got = check_roundtrip(path, list(combo))
                names = {"rt:size-%d" % len(combo)} | {"rt:kind-" + e[0] for e in combo}
                names |= {"rt:" + f for f in (features(combo) or {"plain"})}
                if msgs:
                    names.add("rt:MISMATCH")
                for k2 in names:
                    classes[k2] = classes.get(k2, 0) + 1
                if msgs:
                    viol.append({"kind": "rt", "entries": [list(e) for e in combo], "msg": msgs[0][:900]})
            if combos:
                samples = [[list(e) for e in combos[len(combos) // 2]]]
    finally:
        shutil.rmtree(base, ignore_errors=True)
    # the runner keeps at most 40 candidates per task: put the ones no classifier explains first
    viol.sort(key=lambda v: any(f(v) for f in CLASSIFIERS.values()))
    return {"evals": evals, "classes": classes, "viol": viol, "samples": samples, "counters": counters}


def replay(case):
    from verif import c24c30_sweep as sw

    sw.warm("pkgcore.vdb.contents")
    base = tempfile.mkdtemp(dir="/dev/shm", prefix=f"verif-C24-{os.getpid()}-")
    try:
        if case["kind"] == "rt":
            msgs, _ = check_roundtrip(os.path.join(base, "CONTENTS"), [tuple(e) for e in case["entries"]])
            return msgs
        if case["kind"] == "hist":
            msgs, _ = check_history(os.path.join(base, "CONTENTS"), case["start"], case["ops"])
            return msgs
        scr = sw.Scratch(base)
        old = None if case["old"] is None else [tuple(e) for e in case["old"]]
        new = [tuple(e) for e in case["new"]]
        v, _, _ = check_sweep(scr, old, new, only_plan=case["plan"])
        return [x["msg"] for x in v]
    finally:
        shutil.rmtree(base, ignore_errors=True)


# ---------------------------------------------------------------------------------------------
# narrow classifiers for known_findings.json


def _is_rt(case):
    return case.get("kind") == "rt"


def _dev_not_on_host(case):
    """a device entry whose path is not a device node on the host makes the whole file unreadable
    (LookupFsDev turns strict on and fsDev then demands major/minor): the read fails with exactly that TypeError."""
    if not _is_rt(case):
        return False
    has = any(e[0] == "dev" and e[1] != DEV_LIVE for e in case["entries"])
    return has and "reading back: unreadable: TypeError: major/minor must be specified" in case["msg"]


def _trailing_ws_stripped(case):
    """a dir/fifo/device path ending in whitespace loses it on read (lines are read with strip_whitespace=True);
    true only when every difference is such a path coming back right-stripped."""
    if not _is_rt(case):
        return False
    ents = [tuple(e) for e in case["entries"]]
    exp = model(ents)
    bad = {e[1] for e in ents if e[0] in ("dir", "fif", "dev") and e[1] != e[1].rstrip()}
    if not bad:
        return False
    if any(e[0] == "dev" and e[1] != DEV_LIVE for e in ents):
        return False  # that is the other defect
    # predicted observation: the stripped path replaces the original one (last writer in sorted order wins)
    pred = {}
    for p in sorted(exp):
        q = p.rstrip() if p in bad else p
        pred[q] = exp[p]
    msg = case["msg"]
    lost = sorted(set(exp) - set(pred))
    return bool(lost) and f"lost paths {lost!r}" in msg


CLASSIFIERS = {
    "dev-entry-not-on-host-unreadable": _dev_not_on_host,
    "trailing-whitespace-path-stripped": _trailing_ws_stripped,
}
