"""C25 binary-package tarballs round-trip their contents.

Every subset (up to a size bound) of a universe of entry specifications is built as a
real tree on tmpfs, scanned with ``livefs.scan``, written as a tarball and read back:

  writer "bz2"    tar.write_set(..., compressor="bzip2") -> tar.generate_contents(...)   (what binpkg does)
  writer "plain"  tar.add_contents_to_tarfile(TarFile("w")) -> tar.convert_archive(TarFile("r"))   (uncompressed)
  writer "chain"  an archive of the same tree written by the harness with the stock tarfile module the way a
                  foreign tool may write it (hardlink *chains* x -> y -> z, link names with and without "./"),
                  read with tar.generate_contents

plus, for every symlink of the tree that denotes a directory of the tree, the "alias" variant: the contents
set spells that directory's descendants *through the symlink* (what a merge through a symlinked directory
records); reading back must give the entries at their resolved locations, i.e. exactly the tree on disk.

Oracle: an independent recursive ``lstat`` snapshot of the tree on disk (DESIGN A9).
"""

import hashlib
import itertools
import os
import shutil
import signal
import stat
import tempfile

PROPERTY = "C25"
LEVEL = "exploration"
ENGINE = "enum"
TECHNIQUE = "exhaustive subset enumeration of entry specs built as real tmpfs trees; lstat-snapshot oracle"
RULE = (
    "all path-consistent subsets (size bound per tier) of a universe of entry specs (files in 4 attribute/data groups "
    "where equal group = hardlinked, relative/absolute/chained (outer name sorting before and after the inner)/dangling symlinks, fifos, char and block devices, explicit "
    "directories with sticky/odd owners, sibling names that merely start with a directory symlink's name) are built on tmpfs, scanned, written and read back through three writers "
    "(bzip2 write_set/generate_contents, uncompressed add_contents_to_tarfile/convert_archive, foreign-style archive "
    "with hardlink chains), in sorted and reversed contents order, and once per directory-denoting symlink with the "
    "directory's descendants spelled through that symlink; each round trip is compared entry by entry with an lstat "
    "snapshot. Write histories: for every tree of size <= 2 (and core subsets of size 3) the tree is built once and every "
    "sequence of 2 (quick) / 3 (thorough) writes over {bz2 sorted, plain reversed, bz2 with one entry dropped, one-hop "
    "aliased spellings} is performed by one process without recreating the tree, each archive read back and judged on "
    "its own. One evaluation = one archive written and read back. A class is (writer, feature observed in the "
    "read-back set: kind, hardlink group size, symlink form, setuid/owner/fractional mtime, alias depth, error type)."
)
ASSUMPTIONS = [
    "Excl: write_set(compressor=None) -- snakeoil.compression only knows bzip2/xz, tar.known_compressors is dead code; "
    "'uncompressed' is exercised through add_contents_to_tarfile/convert_archive on a plain TarFile instead",
    "Excl: contents sets whose files share (dev, inode) but differ in uid/gid/mode/mtime (cannot come from a disk scan)",
    "Excl: aliased spellings that collide with a directly spelled entry, symlink loops, archives needing "
    "add_missing_directories (its mode/mtime for invented directories is not fixed by the statement)",
    "Excl: negative mtimes, names with newlines; sockets (not representable in tar)",
    "an 'empty archive' is (a) what write_set produces for an empty set and (b) a zero-length tar stream inside a valid "
    "bzip2 container (the case generate_contents' ReadError handler is written for); a zero-byte *file* is not a bzip2 "
    "stream at all and is excluded",
    "directory mtimes are compared too (they are set explicitly after the tree is built)",
    "the source set is scanned with chksum_types=('size',) (the only checksum the writer consults); scanning with every "
    "handler costs ten threads per file and changes nothing the reader sees",
    "must run as root on tmpfs (mknod, chown)",
]
BOUNDS = {
    "quick": "universe of 31 entry specs (incl. siblings /l10, /l1x/f of the directory symlink /l1): all subsets of size <= 3 + all subsets of size 4-5 of a 12-spec "
    "core (hardlink triple x alias chain x fifo x device); x 3 writers, 2 orders, every alias variant; empty archives; write histories of depth 2 over 682 trees (subsets of size <= 2 + core subsets of size 3)",
    "thorough": "universe of 37 entry specs (adds prefix-siblings /l1y, /l1_, 120-char name, non-ASCII name with space, uid 3000000, symlink to parent): "
    "all subsets of size <= 4 + core subsets of size 5-7; same variants; write histories of depth 3 over 885 trees",
}

CASE_CPU_TIMEOUT = 10  # seconds of CPU (ITIMER_VIRTUAL): a looping conversion
CASE_WALL_TIMEOUT = 600  # seconds of wall clock: a blocked read; generous because the machine is shared

# ---------------------------------------------------------------------------------------------
# alphabet

_BIG = bytes(range(256)) * 79  # 20224 bytes, spans several tar blocks
GROUPS = {
    # name: (data, mode, uid, gid, mtime)
    "A": (b"hello\n", 0o644, 0, 0, 1000),
    "a": (b"hello\n", 0o644, 0, 0, 1000),  # same bytes/attrs as A, separate inode
    "B": (_BIG, 0o4755, 1234, 100, 1234567890.5),
    "E": (b"", 0o600, 0, 0, 1000),
    "U": (b"u\n", 0o640, 3000000, 70000, 1000),
}
DEF_DIR = (0o755, 0, 0, 1000)
LONGNAME = "/d/" + "n" * 120

FILE_PATHS = ["/f", "/g", "/d/f", "/d/e/f"]


def _universe(tier):
    u = []
    for p in FILE_PATHS:
        for g in ("A", "a", "B", "E"):
            u.append(["f", p, g])
    u += [
        ["s", "/l1", "d", 0, 0],
        ["s", "/l2", "l1", 0, 0],
        ["s", "/l0", "l1", 0, 0],
        ["s", "/z/up", "../d", 0, 0],
        ["s", "/abs", "/d/e", 0, 0],
        ["s", "/sf", "f", 1234, 100],
        ["s", "/d/dang", "../nowhere/x", 0, 0],
        ["p", "/p", 0o644, 0, 0],
        ["p", "/d/p", 0o600, 1234, 100],
        ["c", "/c", 1, 3, 0o644, 0, 0],
        ["b", "/d/b", 7, 0, 0o660, 0, 6],
        ["d", "/x", 0o1777, 0, 0],
        ["d", "/d/e/y", 0o750, 1234, 100],
        # names of which the symlink name /l1 is a strict string prefix, next character sorting after "/":
        # siblings of a symlinked directory, never below it
        ["f", "/l10", "A"],
        ["f", "/l1x/f", "B"],
    ]
    if tier == "thorough":
        u += [
            ["s", "/l1y", "d/f", 0, 0],
            ["d", "/l1_", 0o755, 0, 0],
            ["f", LONGNAME, "A"],
            ["f", "/ü x", "B"],
            ["f", "/g", "U"],
            ["s", "/d/e/ld", "..", 0, 0],
        ]
    return u


CORE = [
    ["f", "/f", "A"],
    ["f", "/d/f", "A"],
    ["f", "/d/e/f", "A"],
    ["f", "/d/f", "B"],
    ["f", "/g", "a"],
    ["s", "/l1", "d", 0, 0],
    ["s", "/l2", "l1", 0, 0],
    ["s", "/z/up", "../d", 0, 0],
    ["s", "/abs", "/d/e", 0, 0],
    ["p", "/d/p", 0o600, 1234, 100],
    ["d", "/d/e/y", 0o750, 1234, 100],
    ["c", "/c", 1, 3, 0o644, 0, 0],
]


def _consistent(specs):
    paths = [s[1] for s in specs]
    if len(set(paths)) != len(paths):
        return False
    # nothing may live below a non-directory
    nondirs = {s[1] for s in specs if s[0] != "d"}
    for p in paths:
        q = os.path.dirname(p)
        while q != "/":
            if q in nondirs:
                return False
            q = os.path.dirname(q)
    return True


def _subsets(tier):
    """The fixed, ordered list of trees for a tier (simplest first)."""
    u = _universe(tier)
    kmax = 3 if tier == "quick" else 4
    out = []
    for k in range(0, kmax + 1):
        for combo in itertools.combinations(range(len(u)), k):
            specs = [u[i] for i in combo]
            if _consistent(specs):
                out.append(specs)
    lo, hi = (4, 5) if tier == "quick" else (5, 7)
    for k in range(lo, hi + 1):
        for combo in itertools.combinations(range(len(CORE)), k):
            specs = [CORE[i] for i in combo]
            if _consistent(specs):
                out.append(specs)
    return out


CHUNK = {"quick": 40, "thorough": 250}
EMPTY_KINDS = ["bz2-of-nothing"]


def tasks(tier):
    n = len(_subsets(tier))
    c = CHUNK[tier]
    out = [("trees", tier, i, min(i + c, n)) for i in range(0, n, c)]
    out.append(("empty", tier, 0, 0))
    nh, ch = len(_hist_trees(tier)), HIST_CHUNK[tier]
    out += [("hist", tier, i, min(i + ch, nh)) for i in range(0, nh, ch)]
    return out


# ---------------------------------------------------------------------------------------------
# building the tree and the reference snapshot (plain os calls only)


def _all_dirs(specs):
    dirs = {}
    for s in specs:
        q = os.path.dirname(s[1])
        while q != "/":
            dirs.setdefault(q, DEF_DIR)
            q = os.path.dirname(q)
    for s in specs:
        if s[0] == "d":
            dirs[s[1]] = (s[2], s[3], s[4], 1000)
    return dirs


def build_tree(root, specs):
    os.mkdir(root)
    dirs = _all_dirs(specs)
    for d in sorted(dirs):
        os.mkdir(root + d)
    first = {}
    later = []
    for s in specs:
        kind, p = s[0], s[1]
        full = root + p
        if kind == "f":
            g = s[2]
            if g in first:
                os.link(first[g], full)
                continue
            data, mode, uid, gid, mtime = GROUPS[g]
            with open(full, "wb") as f:
                f.write(data)
            os.chown(full, uid, gid)
            os.chmod(full, mode)
            later.append((full, mtime))
            first[g] = full
        elif kind == "s":
            os.symlink(s[2], full)
            os.lchown(full, s[3], s[4])
            later.append((full, 1000))
        elif kind == "p":
            os.mkfifo(full)
            os.chown(full, s[3], s[4])
            os.chmod(full, s[2])
            later.append((full, 1000))
        elif kind in "cb":
            os.mknod(full, (stat.S_IFCHR if kind == "c" else stat.S_IFBLK) | 0o600, os.makedev(s[2], s[3]))
            os.chown(full, s[5], s[6])
            os.chmod(full, s[4])
            later.append((full, 1000))
    for full, mtime in later:
        ns = int(round(mtime * 2)) * 500000000
        os.utime(full, ns=(ns, ns), follow_symlinks=False)
    for d in sorted(dirs, reverse=True):
        mode, uid, gid, mtime = dirs[d]
        os.chown(root + d, uid, gid)
        os.chmod(root + d, mode)
    for d in sorted(dirs, reverse=True):
        os.utime(root + d, (dirs[d][3], dirs[d][3]))


def snapshot(root):
    """path -> dict, by lstat only (DESIGN A9)."""
    snap = {}
    stack = [""]
    while stack:
        rel = stack.pop()
        for name in sorted(os.listdir(root + (rel or "/"))):
            p = rel + "/" + name
            st = os.lstat(root + p)
            m = st.st_mode
            e = {"mode": stat.S_IMODE(m), "uid": st.st_uid, "gid": st.st_gid, "mtime": st.st_mtime_ns / 1e9}
            if stat.S_ISDIR(m):
                e["kind"] = "dir"
                stack.append(p)
            elif stat.S_ISREG(m):
                e["kind"] = "file"
                with open(root + p, "rb") as f:
                    e["data"] = hashlib.sha1(f.read()).hexdigest()
                e["size"] = st.st_size
                e["ino"] = (st.st_dev, st.st_ino)
            elif stat.S_ISLNK(m):
                e["kind"] = "sym"
                e["target"] = os.readlink(root + p)
            elif stat.S_ISFIFO(m):
                e["kind"] = "fifo"
            elif stat.S_ISCHR(m) or stat.S_ISBLK(m):
                e["kind"] = "chr" if stat.S_ISCHR(m) else "blk"
                e["major"], e["minor"] = os.major(st.st_rdev), os.minor(st.st_rdev)
            else:
                raise RuntimeError(f"unexpected file type at {p}")
            snap[p] = e
    return snap


# ---------------------------------------------------------------------------------------------
# reference resolution of a symlink inside the (virtual) tree: which directory does it denote?


def _vreal(path, syms, limit=16):
    parts = [p for p in path.split("/") if p and p != "."]
    cur = ""
    hops = 0
    while parts:
        p = parts.pop(0)
        if p == "..":
            cur = os.path.dirname(cur) if cur else ""
            if cur == "/":
                cur = ""
            continue
        nxt = cur + "/" + p
        if nxt in syms:
            hops += 1
            if hops > limit:
                return None, hops
            t = syms[nxt]
            if t.startswith("/"):
                cur = ""
            parts = [q for q in t.split("/") if q and q != "."] + parts
        else:
            cur = nxt
    return cur or "/", hops


def alias_variants(specs):
    """[(symlink path, denoted directory, hops)] for which an aliased spelling is well defined."""
    syms = {s[1]: s[2] for s in specs if s[0] == "s"}
    dirs = set(_all_dirs(specs))
    allpaths = [s[1] for s in specs] + list(dirs)
    out = []
    for sp in sorted(syms):
        d, hops = _vreal(sp, syms)
        if d is None or d not in dirs:
            continue
        if sp.startswith(d + "/"):
            continue  # the alias lives inside the directory it denotes
        desc = [p for p in allpaths if p.startswith(d + "/")]
        if not desc:
            continue
        # every symlink on the resolution path must stay where it is
        if any(q.startswith(d + "/") for q in syms if q != sp and _on_chain(sp, q, syms)):
            continue
        out.append((sp, d, hops))
    return out


def _on_chain(start, q, syms):
    seen = set()
    cur = start
    while cur in syms and cur not in seen:
        seen.add(cur)
        if cur == q:
            return True
        t = syms[cur]
        cur = os.path.normpath(t if t.startswith("/") else os.path.join(os.path.dirname(cur), t))
    return cur == q


# ---------------------------------------------------------------------------------------------
# the round trip through pkgcore


class _Timeout(Exception):
    pass


def _alarm(signum, frame):
    raise _Timeout()


def _write_chain(root, snap, out):
    """A foreign-style archive of the tree: stock tarfile, hardlink chains, mixed link-name spellings."""
    import tarfile

    groups = {}
    with tarfile.open(out, "w:bz2", format=tarfile.PAX_FORMAT) as t:
        for p in sorted(snap):
            e = snap[p]
            ti = tarfile.TarInfo("." + p)
            ti.mode, ti.uid, ti.gid = e["mode"], e["uid"], e["gid"]
            ti.mtime = int(e["mtime"]) if e["mtime"] == int(e["mtime"]) else e["mtime"]
            k = e["kind"]
            fobj = None
            if k == "dir":
                ti.type = tarfile.DIRTYPE
            elif k == "file":
                chain = groups.setdefault(e["ino"], [])
                if chain:
                    ti.type = tarfile.LNKTYPE
                    prev = chain[-1]
                    ti.linkname = ("." + prev) if len(chain) % 2 else prev.lstrip("/")
                else:
                    ti.type = tarfile.REGTYPE
                    ti.size = e["size"]
                    fobj = open(root + p, "rb")
                chain.append(p)
            elif k == "sym":
                ti.type = tarfile.SYMTYPE
                ti.linkname = e["target"]
            elif k == "fifo":
                ti.type = tarfile.FIFOTYPE
            else:
                ti.type = tarfile.CHRTYPE if k == "chr" else tarfile.BLKTYPE
                ti.devmajor, ti.devminor = e["major"], e["minor"]
            try:
                t.addfile(ti, fobj)
            finally:
                if fobj is not None:
                    fobj.close()


def _observe(result):
    obs = {}
    for x in result:
        e = {"mode": x.mode, "uid": x.uid, "gid": x.gid, "mtime": x.mtime}
        if x.is_dir:
            e["kind"] = "dir"
        elif x.is_reg:
            e["kind"] = "file"
            data = x.data.bytes_fileobj().read()
            e["data"] = hashlib.sha1(data).hexdigest()
            e["size"] = len(data)
            e["ino"] = (x.dev, x.inode)
        elif x.is_sym:
            e["kind"] = "sym"
            e["target"] = x.target
        elif x.is_fifo:
            e["kind"] = "fifo"
        elif x.is_dev:
            e["kind"] = "chr" if stat.S_ISCHR(x.mode) else ("blk" if stat.S_ISBLK(x.mode) else "dev?")
            e["mode"] = stat.S_IMODE(x.mode)
            e["major"], e["minor"] = x.major, x.minor
        else:
            e["kind"] = "unknown:" + type(x).__name__
        if x.location in obs:
            e["dup"] = True
        obs[x.location] = e
    return obs


def _compare(snap, obs):
    msgs = []
    for p in sorted(set(snap) | set(obs)):
        if p not in obs:
            msgs.append(f"{p}: missing after round trip (was {snap[p]['kind']})")
            continue
        if p not in snap:
            msgs.append(f"{p}: unexpected {obs[p]['kind']} entry after round trip")
            continue
        a, b = snap[p], obs[p]
        for k in ("kind", "mode", "uid", "gid", "mtime", "target", "data", "size", "major", "minor"):
            if a.get(k) != b.get(k):
                av, bv = a.get(k), b.get(k)
                if k == "mode":
                    av, bv = oct(av), oct(bv)
                msgs.append(f"{p}: {k} {av!r} on disk, {bv!r} after round trip")
    files = sorted(p for p in snap if snap[p]["kind"] == "file" and p in obs and obs[p]["kind"] == "file")
    for i, p in enumerate(files):
        for q in files[i + 1 :]:
            same_disk = snap[p]["ino"] == snap[q]["ino"]
            same_obs = obs[p]["ino"] == obs[q]["ino"] and None not in obs[p]["ino"]
            if same_disk and not same_obs:
                msgs.append(f"{p} and {q} were hardlinked but no longer share (dev, inode)")
            elif same_obs and not same_disk:
                msgs.append(f"{p} and {q} were separate files but share (dev, inode) after round trip")
    return msgs


def _features(obs, writer, order, alias_hops):
    tags = set()
    groups = {}
    for p, e in obs.items():
        k = e["kind"]
        if k == "file":
            tags.add("file-empty" if e["size"] == 0 else ("file-multiblock" if e["size"] > 512 else "file-small"))
            groups.setdefault(e["ino"], []).append(p)
        elif k == "sym":
            tags.add("sym-abs" if e["target"].startswith("/") else ("sym-dotdot" if ".." in e["target"] else "sym-rel"))
        else:
            tags.add(k)
        if e["mode"] & 0o7000:
            tags.add("mode-special-bits")
        if e["uid"] or e["gid"]:
            tags.add("owner-nonroot")
        if e["uid"] > 0o7777777:
            tags.add("owner-beyond-ustar")
        if e["mtime"] != int(e["mtime"]):
            tags.add("mtime-fractional")
        if len(p) > 100:
            tags.add("name-over-100")
    for g in groups.values():
        if len(g) > 1:
            tags.add(f"hardlink-group-{min(len(g), 3)}")
    if not obs:
        tags.add("empty-set")
    if alias_hops:
        tags.add(f"alias-{min(alias_hops, 2)}-hop")
    if order == "rev":
        tags.add("reversed-order")
    return {f"{writer}:{t}" for t in tags}


def write_read(root, snap, specs, out, writer, order, alias, drop=False):
    """One archive of the tree standing at ``root``: write, read back, compare.  Returns (messages, class tags).
    ``drop``: the contents set leaves out the last non-directory entry (a different set sharing the other files)."""
    from pkgcore.fs import contents, livefs
    from pkgcore.fs import tar as ptar
    from pkgcore.fs._tar import tarfile as ptarfile

    hops = 0
    expect = snap
    old = signal.signal(signal.SIGALRM, _alarm)
    oldv = signal.signal(signal.SIGVTALRM, _alarm)
    signal.alarm(CASE_WALL_TIMEOUT)
    signal.setitimer(signal.ITIMER_VIRTUAL, CASE_CPU_TIMEOUT)
    try:
        try:
            if writer == "chain":
                _write_chain(root, snap, out)
                result = ptar.generate_contents(out)
            else:
                entries = sorted(livefs.scan(root, offset=root, chksum_types=("size",)), key=lambda x: x.location)
                if drop:
                    victim = dropped_path(snap)
                    entries = [x for x in entries if x.location != victim]
                    expect = {k: v for k, v in snap.items() if k != victim}
                if alias is not None:
                    cand = {a: (d, h) for a, d, h in alias_variants(specs)}
                    d, hops = cand[alias]
                    entries = [
                        x.change_attributes(location=alias + x.location[len(d) :]) if x.location.startswith(d + "/") else x
                        for x in entries
                    ]
                    entries.sort(key=lambda x: x.location)
                if order == "rev":
                    entries.reverse()
                cset = contents.contentsSet(entries)
                if writer == "bz2":
                    ptar.write_set(cset, out, compressor="bzip2", parallelize=True)
                    result = ptar.generate_contents(out)
                else:
                    with open(out, "wb") as f:
                        th = ptarfile.TarFile(name=out, fileobj=f, mode="w")
                        ptar.add_contents_to_tarfile(cset, th)
                        th.close()
                    result = ptar.convert_archive(ptarfile.TarFile(name=out, mode="r"))
            obs = _observe(result)
        finally:
            signal.setitimer(signal.ITIMER_VIRTUAL, 0)
            signal.alarm(0)
            signal.signal(signal.SIGALRM, old)
            signal.signal(signal.SIGVTALRM, oldv)
    except _Timeout:
        return [f"no result within {CASE_CPU_TIMEOUT}s of CPU (non-terminating conversion)"], {f"{writer}:error-timeout"}
    except Exception as e:
        return [f"round trip raised {type(e).__name__}: {e}"], {f"{writer}:error-{type(e).__name__}"}
    return _compare(expect, obs), _features(obs, writer, order, hops)


def dropped_path(snap):
    """The entry a 'drop' contents set leaves out: the last non-directory path (None if the tree has none)."""
    cands = sorted(p for p, e in snap.items() if e["kind"] != "dir")
    return cands[-1] if cands else None


def round_trip(scratch, specs, writer, order, alias):
    """Build a fresh tree, write one archive, read back, compare.  Returns (messages, class tags)."""
    root = os.path.join(scratch, "t")
    shutil.rmtree(root, ignore_errors=True)
    build_tree(root, specs)
    return write_read(root, snapshot(root), specs, os.path.join(scratch, "a.tar"), writer, order, alias)


# ---------------------------------------------------------------------------------------------
# write histories: several archives of ONE on-disk tree written by one process


def history_writes(specs):
    """The per-step alphabet: (writer, order, alias, drop).  Same set through both pkgcore writers, a different set
    sharing files (one entry dropped), and the one-hop aliased spellings (two-hop aliases are the registered
    alias-chain finding and stay in the single-write sweep)."""
    out = [("bz2", "fwd", None, False), ("plain", "rev", None, False)]
    if any(s[0] != "d" for s in specs):
        out.append(("bz2", "fwd", None, True))
    for a, _d, h in alias_variants(specs):
        if h == 1:
            out.append(("bz2", "fwd", a, False))
    return out


def histories(specs, depth):
    return [list(h) for h in itertools.product(history_writes(specs), repeat=depth)]


def run_history(scratch, specs, history):
    """The tree is built once and NOT recreated between the writes; every archive is read back and judged on its own
    by the unchanged round-trip oracle.  Returns (messages, class tags, number of archives)."""
    root = os.path.join(scratch, "t")
    shutil.rmtree(root, ignore_errors=True)
    build_tree(root, specs)
    snap = snapshot(root)
    msgs, tags = [], set()
    for i, (writer, order, alias, drop) in enumerate(history):
        m, t = write_read(root, snap, specs, os.path.join(scratch, f"h{i}.tar"), writer, order, alias, drop)
        what = f"{writer}/{order}" + (f"/alias {alias}" if alias else "") + ("/one entry dropped" if drop else "")
        msgs += [f"archive {i + 1} of {len(history)} ({what}): {x}" for x in m[:3]]
        tags |= {f"history:step{i + 1}:{x.split(':', 1)[1]}" for x in t if ":error-" in x}
        if i and any(":hardlink-group" in x for x in t):
            tags.add("history:hardlink-group-in-later-archive")
        if i and any(":file-" in x for x in t):
            tags.add("history:file-payload-in-later-archive")
    if not msgs:
        kinds = sorted({("drop" if d else "alias" if a else w) for w, _o, a, d in history})
        tags.add("history:ok:" + "+".join(kinds))
    return msgs, tags, len(history)


def _hist_trees(tier):
    """Trees for the history dimension: all consistent subsets of size <= 2 of the universe + all core subsets of size 3."""
    u = _universe(tier)
    out = []
    for k in range(1, 3):
        for combo in itertools.combinations(range(len(u)), k):
            specs = [u[i] for i in combo]
            if _consistent(specs):
                out.append(specs)
    for combo in itertools.combinations(range(len(CORE)), 3):
        specs = [CORE[i] for i in combo]
        if _consistent(specs):
            out.append(specs)
    return out


HIST_DEPTH = {"quick": 2, "thorough": 3}
HIST_CHUNK = {"quick": 25, "thorough": 12}


def variants(specs):
    out = [("bz2", "fwd", None), ("plain", "rev", None), ("chain", "fwd", None)]
    if len(specs) > 1:
        out += [("bz2", "rev", None), ("plain", "fwd", None)]
    for a, _d, _h in alias_variants(specs):
        out += [("bz2", "fwd", a), ("plain", "rev", a)]
    return out


def empty_case(scratch, kind):
    """An empty archive must read as an empty set."""
    import bz2

    from pkgcore.fs import tar as ptar
    from pkgcore.fs._tar import tarfile as ptarfile

    out = os.path.join(scratch, "empty.tar")
    try:
        if kind == "bz2-of-nothing":
            with open(out, "wb") as f:
                f.write(bz2.compress(b""))
            got = list(ptar.generate_contents(out))
        else:
            raise ValueError(kind)
    except Exception as e:
        return [f"empty archive ({kind}) raised {type(e).__name__}: {e}"], {f"empty:{kind}:error-{type(e).__name__}"}
    if got:
        return [f"empty archive ({kind}) read as {got!r}"], {f"empty:{kind}:nonempty"}
    return [], {f"empty:{kind}:empty-set"}


def _scratch():
    return tempfile.mkdtemp(dir="/dev/shm", prefix=f"verif-C25-{os.getpid()}-")


def work(task):
    kind, tier, lo, hi = task
    evals = 0
    classes = {}
    viol = []
    samples = []
    if os.geteuid() != 0:
        raise RuntimeError("C25 needs root (mknod/chown)")
    scratch = _scratch()
    try:
        if kind == "empty":
            for k in EMPTY_KINDS:
                evals += 1
                msgs, tags = empty_case(scratch, k)
                for t in tags:
                    classes[t] = classes.get(t, 0) + 1
                if msgs:
                    viol.append({"empty": k, "msg": msgs[0]})
            samples.append({"empty": EMPTY_KINDS})
        elif kind == "hist":
            trees = _hist_trees(tier)
            for i in range(lo, hi):
                specs = trees[i]
                for hist in histories(specs, HIST_DEPTH[tier]):
                    msgs, tags, n = run_history(scratch, specs, hist)
                    evals += n
                    for t in tags:
                        classes[t] = classes.get(t, 0) + 1
                    if msgs:
                        viol.append({"specs": specs, "history": [list(w) for w in hist], "msg": "; ".join(msgs[:3])})
            if hi > lo:
                samples.append({"specs": trees[hi - 1], "history": histories(trees[hi - 1], HIST_DEPTH[tier])[-1]})
        else:
            trees = _subsets(tier)
            for i in range(lo, hi):
                specs = trees[i]
                for writer, order, alias in variants(specs):
                    evals += 1
                    msgs, tags = round_trip(scratch, specs, writer, order, alias)
                    for t in tags:
                        classes[t] = classes.get(t, 0) + 1
                    if msgs:
                        viol.append({"specs": specs, "writer": writer, "order": order, "alias": alias, "msg": "; ".join(msgs[:3])})
            if hi > lo:
                samples.append({"specs": trees[hi - 1], "variants": [list(v) for v in variants(trees[hi - 1])]})
    finally:
        shutil.rmtree(scratch, ignore_errors=True)
    return {"evals": evals, "classes": classes, "viol": viol, "samples": samples, "keep_all_viol": False}


def replay(case):
    scratch = _scratch()
    try:
        if "empty" in case:
            return empty_case(scratch, case["empty"])[0]
        specs = [list(s) for s in case["specs"]]
        if "history" in case:
            return run_history(scratch, specs, [tuple(w) for w in case["history"]])[0]
        return round_trip(scratch, specs, case["writer"], case["order"], case.get("alias"))[0]
    finally:
        shutil.rmtree(scratch, ignore_errors=True)


# ---------------------------------------------------------------------------------------------
# narrow classifiers for defects found on the unchanged tree


def _dev_member(case):
    """archive_to_fsobj reads member.major/minor (TarInfo has devmajor/devminor) and drops the S_IFCHR/S_IFBLK bits
    fsDev insists on: every archive holding a device node fails to load."""
    if "specs" not in case or not any(s[0] in "cb" for s in case["specs"]):
        return False
    m = case.get("msg", "")
    return "has no attribute 'major'" in m or "must specify the device type" in m


def _zero_length(case):
    """generate_contents' handler for a zero-length archive reads e.message (absent on Python 3) and tests for the
    Python 2 wording 'empty header'."""
    m = case.get("msg", "")
    return "empty" in case and ("has no attribute 'message'" in m or "ReadError: empty file" in m)


def _alias_chain(case):
    """convert_archive relocates entries below a symlinked directory once; relocated entries are not inspected again,
    so a directory reached through a chain of symlinks (l2 -> l1 -> d) is only resolved one hop."""
    if not case.get("alias") or "specs" not in case:
        return False
    cand = {a: h for a, _d, h in alias_variants([list(s) for s in case["specs"]])}
    return cand.get(case["alias"], 0) >= 2 and "raised" not in case.get("msg", "")


CLASSIFIERS = {
    "device-member-major-minor": _dev_member,
    "zero-length-archive-handler": _zero_length,
    "alias-chain-resolved-one-hop": _alias_chain,
}
