"""C26 XPAK segments round-trip and rewrites preserve the archive (E2: BFS over rewrite histories of a real file)."""

import itertools
import os
import shutil
import struct
import tempfile

from verif.engines import bfs

PROPERTY = "C26"
LEVEL = "model_checking"
ENGINE = "bfs"
TECHNIQUE = (
    "explicit-state breadth-first search over histories of Xpak.write_xpak rewrites of a real file (state = the file's bytes), "
    "every state parsed by an independent XPAK reader and read back through Xpak(path)"
)
RULE = (
    "start states = carrier files {empty, 5 bytes, 16 zero bytes, 1 KiB tar-like prefix, prefix + segment, bare segment, prefix "
    "whose tail imitates a trailer with an impossible offset} where existing segments are produced by an independent encoder "
    "written from xpak(5); events = write_xpak(path, mapping) for every mapping of the pool (ordered key sequences over "
    "{A, BB, environment.bz2, CATEGORY, environment} with text values {'', 'x', 'é✓', 300 chars} and environment values {b'', "
    "all 256 byte values, invalid UTF-8}); after every event: bytes before the segment start are identical to the carrier "
    "prefix, the rest of the file is exactly one well-formed segment (independent parser) holding the mapping in order, and "
    "Xpak(path) keys()/items()/values()/[]/len agree with the mapping (text decoded, environment raw), as does the object "
    "returned by write_xpak. Classes are (carrier, relation of new payload size to the old one) and the mapping shape."
)
ASSUMPTIONS = [
    "Excl: the target file exists (write_xpak on a missing path raises FileNotFoundError from open(..., 'r+b') although it computes start=0 for that case; the statement speaks of files with and without a segment)",
    "Excl: key 'repo' (deliberately rewritten to 'REPO' on read), empty and non-ASCII keys",
    "Excl: text (str) values only under non-environment keys and bytes values only under keys starting with 'environment' (the reader decides decoding from the key name alone)",
    "Excl: targets given as data_source objects (only path targets, the seam of DESIGN C26)",
    "the layout of index and data inside the new segment is not prescribed beyond being a well-formed xpak(5) segment that ends the file",
]
BOUNDS = {
    "quick": "7 carriers x pool of 98 mappings (all ordered key sequences of <=3 of 5 keys): every carrier -> m1 -> m2 (all 9 604 ordered pairs per carrier: growing, equal and shrinking payloads) and all histories of 3 rewrites over an 8-mapping sub-pool; ~73 k rewrites",
    "thorough": "7 carriers x pool of 259 mappings (sequences of <=5 keys, two value assignments each): all 67 081 ordered pairs per carrier, and all histories of 3 rewrites over an 18-mapping sub-pool; ~512 k rewrites",
}

TEXT_KEYS = ["A", "BB", "CATEGORY"]
ENV_KEYS = ["environment.bz2", "environment"]
KEYS = ["A", "BB", "environment.bz2", "CATEGORY", "environment"]
TEXT_VALS = ["", "x", "é✓", "".join(chr(33 + i % 90) for i in range(299)) + "\n"]
ENV_VALS = [b"", bytes(range(256)), b"\xff\xfe\x00BZh"]
PREFIX = (b"pkg/file\0" + b"\0" * 91 + b"0000644\0" + b"ustar  \0" + bytes(range(256)) * 4)[:1024]


# ---------------------------------------------------------------- independent XPAK codec (from xpak(5))
def ref_encode(items):
    """items: list of (key str, value bytes) -> '<xpak><xpak_offset>STOP'"""
    index = b""
    data = b""
    for k, v in items:
        kb = k.encode("ascii")
        index += struct.pack(">I", len(kb)) + kb + struct.pack(">II", len(data), len(v))
        data += v
    xpak = b"XPAKPACK" + struct.pack(">II", len(index), len(data)) + index + data + b"XPAKSTOP"
    return xpak + struct.pack(">I", len(xpak)) + b"STOP"


def ref_parse(seg):
    """parse bytes that must be exactly one segment -> (list of (key, value bytes), None) or (None, reason)"""
    if len(seg) < 32:
        return None, f"{len(seg)} bytes cannot hold a segment"
    if seg[:8] != b"XPAKPACK":
        return None, f"does not start with XPAKPACK but {seg[:8]!r}"
    if seg[-4:] != b"STOP" or seg[-16:-8] != b"XPAKSTOP":
        return None, f"does not end with XPAKSTOP<offset>STOP but {seg[-16:]!r}"
    ilen, dlen = struct.unpack(">II", seg[8:16])
    (off,) = struct.unpack(">I", seg[-8:-4])
    if 16 + ilen + dlen + 16 != len(seg):
        return None, f"header says index {ilen} + data {dlen} bytes, i.e. a {32 + ilen + dlen}-byte segment, but {len(seg)} bytes follow the segment start"
    if off != len(seg) - 8:
        return None, f"trailer offset {off} but the xpak block is {len(seg) - 8} bytes"
    index, data = seg[16 : 16 + ilen], seg[16 + ilen : 16 + ilen + dlen]
    out = []
    pos = 0
    while pos < len(index):
        if pos + 4 > len(index):
            return None, "truncated index entry"
        (klen,) = struct.unpack(">I", index[pos : pos + 4])
        if pos + 4 + klen + 8 > len(index):
            return None, "index entry overruns the index"
        key = index[pos + 4 : pos + 4 + klen]
        doff, dl = struct.unpack(">II", index[pos + 4 + klen : pos + 12 + klen])
        if doff + dl > len(data):
            return None, f"value of {key!r} overruns the data block"
        out.append((key.decode("ascii"), data[doff : doff + dl]))
        pos += 12 + klen
    return out, None


# ---------------------------------------------------------------- alphabets
def is_env(k):
    return k.startswith("environment")


def mapping_pool(tier):
    """ordered mappings, simplest first; a mapping is a tuple of (key, value-index)"""
    out = [()]
    # every single key with every value
    for k in KEYS:
        for vi in range(len(ENV_VALS) if is_env(k) else len(TEXT_VALS)):
            out.append(((k, vi),))
    # every ordered key sequence of length 2..n with rotating value assignments
    maxlen = 3 if tier == "quick" else 5
    nvar = 1 if tier == "quick" else 2
    for n in range(2, maxlen + 1):
        for seq in itertools.permutations(range(len(KEYS)), n):
            if tier != "quick" and n >= 4 and sum((i + 1) * s for i, s in enumerate(seq)) % 5:
                continue
            for var in range(nvar):
                m = []
                for pos, ki in enumerate(seq):
                    k = KEYS[ki]
                    nv = len(ENV_VALS) if is_env(k) else len(TEXT_VALS)
                    m.append((k, (ki + pos + var * 2 + n) % nv))
                out.append(tuple(m))
    return list(dict.fromkeys(out))


def sub_pool(tier):
    p = mapping_pool(tier)
    n = 8 if tier == "quick" else 20
    pick = [p[0], p[1], p[4]] + p[len(p) // 3 :: max(1, len(p) // n)]
    return list(dict.fromkeys(pick))[:n]


def as_dict(m):
    """the mapping handed to write_xpak (a plain dict keeps insertion order)"""
    return {k: (ENV_VALS[vi] if is_env(k) else TEXT_VALS[vi]) for k, vi in m}


def as_raw(m):
    return [(k, ENV_VALS[vi] if is_env(k) else TEXT_VALS[vi].encode("utf8")) for k, vi in m]


OLD = (("CATEGORY", 1), ("environment.bz2", 1), ("A", 2))
CARRIERS = ["empty", "short", "zeros16", "prefix", "prefix+seg", "seg", "prefix+faketrailer"]


def carrier(name):
    """-> (file bytes, number of leading bytes that no rewrite may touch)"""
    if name == "empty":
        return b"", 0
    if name == "short":
        return b"tar..", 5
    if name == "zeros16":
        return b"\0" * 16, 16
    if name == "prefix":
        return PREFIX, len(PREFIX)
    if name == "prefix+seg":
        return PREFIX + ref_encode(as_raw(OLD)), len(PREFIX)
    if name == "seg":
        return ref_encode(as_raw(OLD)), 0
    if name == "prefix+faketrailer":
        b = PREFIX[:200] + b"XPAKSTOP" + struct.pack(">I", 5000) + b"STOP"
        return b, len(b)
    raise ValueError(name)


# ---------------------------------------------------------------- real system
class Ctx:
    """scratch file of this process"""

    def __init__(self):
        self.dir = tempfile.mkdtemp(dir="/dev/shm", prefix=f"verif-{PROPERTY}-{os.getpid()}-")
        self.path = os.path.join(self.dir, "pkg.tbz2")

    def close(self):
        shutil.rmtree(self.dir, ignore_errors=True)


class St:
    __slots__ = ("name", "data", "keep", "last", "notes", "ret")


def build_in(ctx, hist):
    """replay: write the carrier, then every rewrite through the real Xpak.write_xpak"""
    from pkgcore.binpkg.xpak import Xpak

    st = St()
    st.notes = []
    st.ret = None
    st.last = None
    for ev in hist:
        if ev[0] == "carrier":
            st.name = ev[1]
            data, st.keep = carrier(ev[1])
            with open(ctx.path, "wb") as f:
                f.write(data)
            st.data = data
            if ev[1] in ("prefix+seg", "seg"):
                st.last = OLD
        else:
            st.notes = []
            st.ret = None
            try:
                st.ret = Xpak.write_xpak(ctx.path, as_dict(ev[1]))
            except Exception as e:
                st.notes.append(f"write_xpak raised {type(e).__name__}: {e}")
            st.last = ev[1]
            with open(ctx.path, "rb") as f:
                st.data = f.read()
    return st


def read_back(x):
    """everything the statement says about reading, through the public mapping interface of an Xpak object"""
    keys = list(x.keys())
    items = list(x.items())
    vals = list(x.values())
    each = [(k, x[k]) for k in keys]
    return keys, items, vals, each, len(x)


def check_state(ctx, st):
    """oracle, evaluated in every state; -> list of messages"""
    from pkgcore.binpkg.xpak import Xpak

    msgs = list(st.notes)
    data, keep = st.data, st.keep
    orig = carrier(st.name)[0]
    if data[:keep] != orig[:keep]:
        n = next((i for i in range(min(len(data), keep)) if data[i] != orig[i]), min(len(data), keep))
        msgs.append(f"bytes before the segment changed: first difference at offset {n} of {keep} protected bytes (file is {len(data)} bytes)")
    if st.last is None:
        return msgs  # carrier without a segment: nothing to read
    exp_raw = as_raw(st.last)
    exp = [(k, v if is_env(k) else v.decode("utf8")) for k, v in exp_raw]
    parsed, why = ref_parse(data[keep:])
    if parsed is None:
        msgs.append(f"after the {keep} preserved bytes the file is not exactly one XPAK segment: {why}")
    elif parsed != exp_raw:
        msgs.append(f"independent parse of the segment gives {short(parsed)} expected {short(exp_raw)}")
    for label, mk in (("Xpak(path)", lambda: Xpak(ctx.path)), ("write_xpak result", lambda: st.ret)):
        try:
            x = mk()
            if x is None:
                continue
            keys, items, vals, each, n = read_back(x)
        except Exception as e:
            msgs.append(f"{label}: reading raised {type(e).__name__}: {e}")
            continue
        if keys != [k for k, _ in exp]:
            msgs.append(f"{label}.keys() = {keys} expected {[k for k, _ in exp]}")
        elif items != exp:
            bad = next((k for (k, v), (_, w) in zip(items, exp) if v != w or type(v) is not type(w)), None)
            msgs.append(f"{label}.items() differs at key {bad!r}: {short(items)} expected {short(exp)}")
        elif vals != [v for _, v in exp] or each != exp or n != len(exp):
            msgs.append(f"{label}: values()/[]/len disagree with items(): {short(each)} len {n}")
        elif any(type(v) is not type(w) for (_, v), (_, w) in zip(items, exp)):
            msgs.append(f"{label}.items() value types {[type(v).__name__ for _, v in items]} expected {[type(w).__name__ for _, w in exp]}")
    return msgs


def short(items):
    return "[" + ", ".join(f"{k}={v[:12]!r}{'…' if len(v) > 12 else ''}" for k, v in items) + "]"


def payload(m):
    return sum(len(k) + 12 + len(v) for k, v in as_raw(m))


def klass(st, hist):
    if len(hist) == 1:
        return f"carrier:{hist[0][1]}"
    prev = hist[-2][1] if hist[-2][0] == "write" else (OLD if hist[0][1] in ("prefix+seg", "seg") else None)
    new = hist[-1][1]
    if prev is None:
        rel = "first"
    else:
        a, b = payload(prev), payload(new)
        rel = "grow" if b > a else "shrink" if b < a else "same"
    return f"{hist[0][1]}:{rel}"


def shape(hist):
    new = hist[-1][1] if hist[-1][0] == "write" else ()
    return "shape:" + ("empty" if not new else ("env" if any(is_env(k) for k, _ in new) else "text") + str(min(len(new), 3)))


# ---------------------------------------------------------------- tasks
def _tup(x):
    return tuple(_tup(i) for i in x) if isinstance(x, (list, tuple)) else x


def tasks(tier):
    out = [("carriers", tier, None)]
    pool = mapping_pool(tier)
    chunk = 8 if tier == "quick" else 6
    for c in CARRIERS:
        for i in range(0, len(pool), chunk):
            out.append(("pairs", tier, c, i, min(i + chunk, len(pool))))
        for j in range(len(sub_pool(tier))):
            out.append(("triples", tier, c, j))
    return out


def make_build(ctx):
    return lambda hist: build_in(ctx, hist)


def work(task):
    kind, tier, cname = task[:3]
    pool = mapping_pool(tier)
    ctx = Ctx()
    evals = maxd = 0
    classes = {}
    cases = []
    try:
        build = make_build(ctx)

        def canon(st):
            return st.data

        def check(st, hist):
            nonlocal evals, maxd
            evals += 1
            maxd = max(maxd, len(hist) - 1)
            for k in (klass(st, hist), shape(hist)):
                classes[k] = classes.get(k, 0) + 1
            msgs = check_state(ctx, st)
            for m in msgs[:1]:
                if len(cases) < 40:
                    cases.append({"hist": [list(e) for e in hist], "msg": m})
            return []

        states = transitions = 0
        samples = []
        if kind == "carriers":
            roots = [(("carrier", c),) for c in CARRIERS]
            events = []
            depth = 1
        elif kind == "pairs":
            lo, hi = task[3], task[4]
            roots = [(("carrier", cname), ("write", m)) for m in pool[lo:hi]]
            events = [("write", m) for m in pool]
            depth = 3
        else:
            sp = sub_pool(tier)
            roots = [(("carrier", cname), ("write", sp[task[3]]))]
            events = [("write", m) for m in sp]
            depth = 4
        for root in roots:
            r = bfs.explore(root, build, lambda st, hist: events, canon, check, depth)
            states += r["states"]
            transitions += r["transitions"] + (len(root) - 1)  # plus the root's own rewrite
            if len(samples) < 1:
                samples.append([list(e) for e in r["sample"]])
    finally:
        ctx.close()
    return {
        "evals": evals,
        "classes": classes,
        "viol": cases,
        "samples": samples,
        "counters": {"states": states, "transitions": transitions, "max_depth": maxd},
    }


def replay(case):
    ctx = Ctx()
    try:
        hist = _tup(case["hist"])
        st = make_build(ctx)(hist)
        return check_state(ctx, st)
    finally:
        ctx.close()


CLASSIFIERS = {}
