"""C27 metadata cache entries round-trip and are replaced atomically; listings never show partial entries.

Seam: pkgcore.cache.flat_hash.database / md5_cache  __setitem__ / __getitem__ / keys() / __delitem__,
always observed through a *fresh* cache object on the same directory.
"""

import itertools
import math
import os
import shutil
import tempfile
import types

PROPERTY = "C27"
LEVEL = "exploration"
ENGINE = "enum"
TECHNIQUE = "exhaustive enumeration of bounded metadata entries + crash-point/torn-write enumeration of a store"
RULE = (
    "every metadata dict over 3 known keys x {absent, '', 'a b', 'x=y', unicode} (+ an unknown key), every eclass map of "
    "0-2 eclasses over names/paths-with-spaces/mtimes(int, float)/md5s (or no _eclasses_ at all), every validation "
    "checksum value, for the flat_hash (mtime) and md5-cache layouts, cache depths 'cat/pkg-1' and 'pkg-1', stored over "
    "{nothing, missing category dir, a previous entry}; each is stored through the real cache object and read back, "
    "listed and deleted through fresh cache objects and compared with a plain model. Separately, for every scenario "
    "(layout, previous state, new entry) the store (and a delete) is re-executed with a crash before every mutating "
    "syscall and a torn write at every open-for-write; the pair (cache[cpv], sorted(keys())) seen by a fresh cache "
    "object must be exactly the fault-free old pair or the fault-free new pair, and the sibling entry must stay intact. "
    "A class is (layout, previous state, which value/eclass features occur) for the round trip and (layout, crash plan, "
    "outcome) for the sweep; distinct_nontrivial counts the classes observed."
)
RULE += (
    " Fault variants per scenario: crash before each mutating syscall, crash at the first Python line after each "
    "rename/link/symlink returns, torn write at each open-for-write, and each write()/writelines() call on a file "
    "opened for writing below the scratch root failing after half of its data with OSError(ENOSPC) resp. "
    "KeyboardInterrupt (process alive, the code's own error handling runs; afterwards old-or-new, and a later "
    "fault-free run must give the complete new state)."
)
RULE += (
    " Second generation: after every fault plan of a store, the same process (same pid, hence the same temp-file name) "
    "stores the key again fault-free with an entry serialised shorter than, identical to and longer than the "
    "interrupted one; a fresh cache object must then see exactly what that store alone gives. Histories on one key: "
    "every sequence of <=3 operations over {store one of 6 entries that share a checksum but differ in a value, in the "
    "eclass data, in the key set, or differ in the checksum only; delete}, with one cache object for the whole history "
    "and with a fresh object per operation; after every operation a fresh object must read exactly the last stored entry."
)
ASSUMPTIONS = [
    "Excl: keys/values containing a line break (the format is line based) or a tab in eclass names/paths (the eclass field separator)",
    "Excl: values with leading or trailing whitespace (entries are read with strip_whitespace=True; observed: 'a ' comes back as 'a', ' b' survives)",
    "Excl: mtimes that are negative or >= 2^53 (serialised through a float format)",
    "Excl: cpvs deeper than 'cat/pkg-1'; keys that are not valid cpv strings",
    "unknown keys are stored and ignored on read; only known keys are compared (known = pkgcore.ebuild.const.metadata_keys + the checksum key)",
    "inherited-eclass data is compared as a mapping eclass -> ((chf, value), ...), the order of eclasses is not demanded",
    "crash = process death with completed syscalls durable; loss of un-synced data on power failure is not modelled",
    "a stale .update.* temp file left behind by a crash is not an error by itself -- only its showing up in keys() is",
]
BOUNDS = {
    "quick": "2 layouts x 2 depths x 3 previous states x (125 key dicts x 2 unknown-key x 3 chf on a fixed eclass map + 11 eclass maps x 5 key dicts x 3 chf) = 10 980 round trips "
    "(store, read, list, sibling, delete); 2 layouts x 2 depths x 2 object modes x all 399 store/delete histories of <=3 operations over 7 operations; "
    "crash sweep: 2 layouts x 2 depths x 3 previous states x (8 new entries + delete) = 100 scenarios, every crash point, crash-after-rename, torn write and "
    "write fault, each followed by 3 second-generation stores (~6k executions)",
    "thorough": "full product 125 key dicts x 2 unknown-key x 11 eclass maps x 3 chf x 2 layouts x 2 depths x 3 previous states = 99 000 round trips; same histories; crash sweep over 24 new entries (292 scenarios)",
}

# ---------------------------------------------------------------------------------------------
# alphabet

KEYS = ["DESCRIPTION", "DEPEND", "SLOT"]
VALUES = [None, "", "a b", "x=y", "é ✓"]  # None = key absent
UNKNOWN = [None, "junk value"]
ECL_ATOMS = [
    # name, path, mtime, md5
    ("e1", "/r/eclass/e1.eclass", 1155996352, 0),
    ("foo-r1", "/r x/eclass/foo-r1.eclass", 1.9, 2**128 - 1),
    ("e2", "/r/e2.eclass", 0, 0xD41D8CD98F00B204E9800998ECF8427E),
]
CHFS = [(0, 0), (1000, 2**128 - 1), (1700000000.7, 0xD41D8CD98F00B204E9800998ECF8427E)]  # (mtime, md5)
LAYOUTS = ["flat", "md5"]
CPVS = ["cat/pkg-1", "pkg-1"]
PREVS = ["nodir", "sibling", "present"]  # cache dir (or category) missing / only a sibling entry / an older entry of cpv


def eclass_maps():
    out = [None, []]
    for n in (1, 2):
        for combo in itertools.permutations(range(len(ECL_ATOMS)), n):
            out.append([list(ECL_ATOMS[i]) for i in combo])
    return out  # None, [], 3 singles, 6 ordered pairs = 11


def key_dicts():
    out = []
    for vals in itertools.product(VALUES, repeat=len(KEYS)):
        out.append({k: v for k, v in zip(KEYS, vals) if v is not None})
    out.sort(key=lambda d: (len(d), sorted(d.items())))
    return out


def entry(keys, unknown, ecl, chf):
    return {"keys": keys, "unknown": unknown, "ecl": ecl, "chf": list(chf)}


OLD_ENTRY = entry({"DESCRIPTION": "old", "SLOT": "0"}, None, [list(ECL_ATOMS[0])], (5, 5))
SIB_ENTRY = entry({"DESCRIPTION": "sibling"}, None, [], (7, 7))


def sibling_of(cpv):
    return cpv.replace("pkg-1", "other-2")


# ---------------------------------------------------------------------------------------------
# reference model


def model_read(layout, ent):
    """what cache[cpv] must return (canonical form) after storing ent"""
    d = dict(ent["keys"])
    mtime, md5 = ent["chf"]
    if layout == "flat":
        d["_mtime_"] = math.floor(mtime)
    else:
        d["_md5_"] = md5
    if ent["ecl"] is not None:
        m = {}
        for name, path, emtime, emd5 in ent["ecl"]:
            if layout == "flat":
                m[name] = [["eclassdir", path.rsplit("/", 1)[0]], ["mtime", math.floor(emtime)]]
            else:
                m[name] = [["md5", emd5]]
        d["_eclasses_"] = m
    return d


# ---------------------------------------------------------------------------------------------
# driving the real code


def open_cache(layout, base):
    from pkgcore.cache import flat_hash

    if layout == "flat":
        return flat_hash.database(os.path.join(base, "cache"))
    return flat_hash.md5_cache(os.path.join(base, "repo"))


def store(db, cpv, ent):
    values = dict(ent["keys"])
    if ent["unknown"] is not None:
        values["BOGUS"] = ent["unknown"]
    if ent["ecl"] is not None:
        values["_eclasses_"] = {
            name: types.SimpleNamespace(path=path, mtime=mtime, md5=md5) for name, path, mtime, md5 in ent["ecl"]
        }
    values["_chf_"] = types.SimpleNamespace(mtime=ent["chf"][0], md5=ent["chf"][1])
    db[cpv] = values


def _known():
    from pkgcore.ebuild.const import metadata_keys

    return set(metadata_keys) | {"_mtime_", "_md5_"}


def read(layout, base, cpv):
    """canonical observation of cache[cpv] by a fresh cache object"""
    db = open_cache(layout, base)
    try:
        d = db[cpv]
    except KeyError:
        return "KeyError"
    except Exception as e:
        return f"error: {type(e).__name__}"
    known = _known()
    out = {}
    for k, v in d.items():
        if k not in known:
            continue
        if k == "_eclasses_":
            try:
                m = {}
                for name, chfs in v:
                    if name in m:
                        return f"error: duplicate eclass {name!r}"
                    m[name] = [[c, x] for c, x in chfs]
                out[k] = m
            except Exception as e:
                return f"error: eclasses {type(e).__name__}: {v!r}"
        else:
            out[k] = v
    return out


def listing(layout, base):
    db = open_cache(layout, base)
    try:
        return sorted(db.keys())
    except Exception as e:
        return [f"error: {type(e).__name__}"]


def setup_prev(layout, base, cpv, prev):
    if prev == "nodir":
        return
    db = open_cache(layout, base)
    store(db, sibling_of(cpv), SIB_ENTRY)
    if prev == "present":
        store(db, cpv, OLD_ENTRY)


def check_roundtrip(base, layout, cpv, prev, ent):
    shutil.rmtree(base, ignore_errors=True)
    os.makedirs(base)
    msgs = []
    try:
        setup_prev(layout, base, cpv, prev)
        store(open_cache(layout, base), cpv, ent)
    except Exception as e:
        return [f"{layout} {cpv} over {prev}: store raised {type(e).__name__}: {e}"]
    got = read(layout, base, cpv)
    exp = model_read(layout, ent)
    tag = f"{layout} cache, {cpv} stored over '{prev}'"
    if got != exp:
        if isinstance(got, dict):
            diff = {k: (exp.get(k, "<absent>"), got.get(k, "<absent>")) for k in set(exp) | set(got) if exp.get(k) != got.get(k)}
            msgs.append(f"{tag}: read back differs (stored, read): {diff!r}")
        else:
            msgs.append(f"{tag}: stored {ent!r} but reading gives {got}")
    exp_keys = sorted([cpv] + ([sibling_of(cpv)] if prev != "nodir" else []))
    keys = listing(layout, base)
    if keys != exp_keys:
        msgs.append(f"{tag}: keys() = {keys!r}, expected {exp_keys!r}")
    if prev != "nodir":
        sib = read(layout, base, sibling_of(cpv))
        if sib != model_read(layout, SIB_ENTRY):
            msgs.append(f"{tag}: sibling entry changed: {sib!r}")
    # delete through a fresh object
    try:
        del open_cache(layout, base)[cpv]
    except Exception as e:
        msgs.append(f"{tag}: delete raised {type(e).__name__}: {e}")
    after = read(layout, base, cpv)
    keys = listing(layout, base)
    if after != "KeyError" or cpv in keys:
        msgs.append(f"{tag}: after delete read={after!r} keys={keys!r}")
    return [m[:900] for m in msgs]


# crash sweep -------------------------------------------------------------------------------


# store/delete histories on one key ----------------------------------------------------------------

_CHF_A, _CHF_B = (1000, 2**128 - 1), (2000, 5)
HIST_VALUES = [
    entry({"DESCRIPTION": "one"}, None, [list(ECL_ATOMS[0])], _CHF_A),
    entry({"DESCRIPTION": "two"}, None, [list(ECL_ATOMS[0])], _CHF_A),  # same checksum, other value
    entry({"DESCRIPTION": "one"}, None, [list(ECL_ATOMS[0]), list(ECL_ATOMS[2])], _CHF_A),  # same checksum, other eclasses
    entry({"DESCRIPTION": "one", "SLOT": "1"}, None, None, _CHF_A),  # same checksum, another key, no eclass data
    entry({"DESCRIPTION": "one"}, None, [list(ECL_ATOMS[0])], _CHF_B),  # other checksum only
    entry({}, None, None, _CHF_A),  # same checksum, nothing else
]
HIST_OPS = [["store", i] for i in range(len(HIST_VALUES))] + [["delete"]]
HIST_MODES = ["one-object", "fresh-object-per-op"]


def check_history(base, layout, cpv, mode, ops):
    """stores and deletes on one key; after every operation a fresh cache object must see exactly the last stored
    entry (or nothing after a delete). -> (messages, class names)"""
    shutil.rmtree(base, ignore_errors=True)
    os.makedirs(base)
    names = {f"hist:{layout}:{mode}"}
    db = open_cache(layout, base)
    cur = None
    done = []
    for op in ops:
        if mode != "one-object":
            db = open_cache(layout, base)
        done.append(op)
        try:
            if op[0] == "store":
                new = HIST_VALUES[op[1]]
                if cur is not None:
                    same_chf = cur["chf"] == new["chf"]
                    names.add("hist:overwrite-same-chf-" + ("identical" if cur == new else "other-data") if same_chf else "hist:overwrite-other-chf")
                else:
                    names.add("hist:store-on-absent")
                store(db, cpv, new)
                cur = new
            else:
                names.add("hist:delete-present" if cur is not None else "hist:delete-absent")
                try:
                    del db[cpv]
                except KeyError:
                    if cur is not None:
                        raise
                cur = None
        except Exception as e:
            return [f"{layout} cache, {cpv}, {mode}, history {_hist_text(done)}: raised {type(e).__name__}: {e}"[:900]], names
        got = read(layout, base, cpv)
        exp = model_read(layout, cur) if cur is not None else "KeyError"
        keys = listing(layout, base)
        exp_keys = [cpv] if cur is not None else []
        if got != exp or keys != exp_keys:
            names.add("hist:MISMATCH")
            return [
                f"{layout} cache, {cpv}, {mode}, history {_hist_text(done)}: a fresh cache object reads {_brief(got)} keys {keys!r}, "
                f"expected {_brief(exp)} keys {exp_keys!r}"[:900]
            ], names
    return [], names


def _hist_text(ops):
    return [("store " + repr({k: HIST_VALUES[o[1]][k] for k in ("keys", "chf")}) + f" ecl#{len(HIST_VALUES[o[1]]['ecl'] or [])}") if o[0] == "store" else "delete" for o in ops]


def hist_space(tier, i):
    depth = 3
    out = [[HIST_OPS[i]]]
    for d in range(2, depth + 1):
        for rest in itertools.product(HIST_OPS, repeat=d - 1):
            out.append([HIST_OPS[i]] + [list(o) for o in rest])
    return out


# follow-up stores on the same key by the same process, right after an interrupted store: serialised shorter than,
# identical to and longer than the interrupted entry (a stale temp file of the same pid must not leak into it)
FOLLOW_SHORT = entry({}, None, None, (1, 1))
FOLLOW_LONG = entry(
    {"DESCRIPTION": "long " * 40, "DEPEND": "dep/" * 30, "SLOT": "9/9"}, "junk value " * 5, [list(a) for a in ECL_ATOMS], CHFS[2]
)


def follow_ups(ent):
    return [("shorter", FOLLOW_SHORT), ("same", ent), ("longer", FOLLOW_LONG)]


def check_sweep(scr, layout, cpv, prev, op_kind, ent, only_plan=None, only_follow=None):
    from verif import c24c30_sweep as sw

    base = scr.data
    sib = sibling_of(cpv)

    def prepare():
        setup_prev(layout, base, cpv, prev)

    def op():
        db = open_cache(layout, base)
        if op_kind == "store":
            store(db, cpv, ent)
        else:
            del db[cpv]

    def observe():
        return {
            "read": read(layout, base, cpv),
            "keys": [sw.scrub(k) for k in listing(layout, base)],
            "sib": read(layout, base, sib) if prev != "nodir" else None,
        }

    scr.reset()
    prepare()
    old_obs = observe()
    status, value, events = sw.record(scr, prepare, op)
    desc = {"kind": "sweep", "layout": layout, "cpv": cpv, "prev": prev, "op": op_kind, "ent": ent}
    if status != "ok":
        return [dict(desc, plan=None, msg=f"fault-free {op_kind} failed: {status} {value!r}")], {}, 0
    new_obs = observe()
    viol, classes, n = [], {}, 0
    follows, follow_exp = [], {}
    if op_kind == "store":
        follows = follow_ups(ent)
        for fname, fent in follows:  # what the follow-up store alone gives, fault-free
            scr.reset()
            prepare()
            sw.rerun(lambda: store(open_cache(layout, base), cpv, fent))
            follow_exp[fname] = observe()
    for plan in sw.plans(events, scr.nwrites):
        if only_plan is not None and list(plan) != list(only_plan):
            continue
        n += 1
        status, value, evs = sw.run_plan(scr, prepare, op, plan)
        obs = observe()
        where = sw.describe(events, plan)
        if obs == old_obs:
            out = "old"
        elif obs == new_obs:
            out = "new"
        else:
            out = "NEITHER"
            read_ok = obs["read"] in (old_obs["read"], new_obs["read"]) and obs["sib"] == old_obs["sib"]
            allowed = old_obs["keys"] if obs["read"] == old_obs["read"] else new_obs["keys"]
            extra = sorted(set(obs["keys"]) - set(allowed))
            missing = sorted(set(allowed) - set(obs["keys"]))
            if read_ok and (extra or missing):
                what = f"keys() lists {extra!r}" + (f" and lacks {missing!r}" if missing else "")
                if extra:
                    what += f"; cache[{extra[0]!r}] -> {_brief(read(layout, base, _unscrub(extra[0], base, layout)))}"
            else:
                what = f"cache[{cpv!r}] -> {_brief(obs['read'])}, keys {obs['keys']!r}, sibling {_brief(obs['sib'])}"
            viol.append(
                dict(
                    desc,
                    plan=list(plan),
                    read_ok=read_ok,
                    extra_keys=extra,
                    missing_keys=missing,
                    msg=f"{layout} cache, {op_kind} {cpv} over '{prev}' interrupted at {where}: a fresh cache object sees neither "
                    f"the old nor the new state: {what} (old keys {old_obs['keys']!r}, new keys {new_obs['keys']!r})"[:900],
                )
            )
        if not sw.fired(status):
            viol.append(dict(desc, plan=list(plan), msg=f"engine: plan {plan} did not fire ({status})"))
        # second generation: the same process (same pid, so the same temp name) stores the key again, fault-free,
        # right after the interrupted/failed store; a fresh cache object must then see exactly that second entry
        for j, (fname, fent) in enumerate(follows):
            if only_follow is not None and fname != only_follow:
                continue
            if j or only_follow is not None:
                sw.run_plan(scr, prepare, op, plan)  # every follow-up starts from the state the fault left
            n += 1
            sw.rerun(lambda: store(open_cache(layout, base), cpv, fent))
            obs2 = observe()
            if obs2 != follow_exp[fname]:
                out += "+follow-" + fname + "-bad"
                viol.append(
                    dict(
                        desc,
                        plan=list(plan),
                        follow=fname,
                        msg=f"{layout} cache, store {cpv} over '{prev}' interrupted at {where}, then the same process stores a {fname} entry "
                        f"{_brief(fent)} on that key: a fresh cache object sees cache[{cpv!r}] -> {_brief(obs2['read'])}, keys {obs2['keys']!r}; "
                        f"expected {_brief(follow_exp[fname]['read'])}, keys {follow_exp[fname]['keys']!r}"[:900],
                    )
                )
        key = f"sweep:{layout}:{op_kind}:{sw.plan_class(events, plan)}:{out}"
        classes[key] = classes.get(key, 0) + 1
    return viol, classes, n


def _brief(x):
    return repr(x)[:160]


def _unscrub(key, base, layout):
    """find the on-disk name a scrubbed key stands for (temp names carry the worker pid)"""
    from verif import c24c30_sweep as sw

    for k in listing(layout, base):
        if sw.scrub(k) == key:
            return k
    return key


# ---------------------------------------------------------------------------------------------


def rt_space(tier):
    """list of (keys, unknown, ecl, chf) descriptors"""
    kd = key_dicts()
    em = eclass_maps()
    out = []
    if tier == "thorough":
        for k, u, e, c in itertools.product(kd, UNKNOWN, em, CHFS):
            out.append(entry(k, u, e, c))
        return out
    fixed_ecl = [list(ECL_ATOMS[0])]
    for k, u, c in itertools.product(kd, UNKNOWN, CHFS):
        out.append(entry(k, u, fixed_ecl, c))
    few = [kd[0], kd[1], {"DESCRIPTION": "a b", "DEPEND": "x=y"}, {"SLOT": "é ✓"}, {"DESCRIPTION": "", "DEPEND": "", "SLOT": ""}]
    for e, k, c in itertools.product(em, few, CHFS):
        out.append(entry(k, None, e, c))
    return out


def sweep_entries(tier):
    kd = key_dicts()
    em = eclass_maps()
    ents = [
        entry({}, None, None, CHFS[0]),
        entry({"DESCRIPTION": "a b"}, None, [], CHFS[1]),
        entry({"DESCRIPTION": "old", "SLOT": "0"}, None, [list(ECL_ATOMS[0])], (5, 5)),  # identical to the previous entry
        entry({"DESCRIPTION": "x=y", "DEPEND": "é ✓", "SLOT": ""}, "junk value", em[2], CHFS[2]),
        entry({"DEPEND": "a b"}, None, em[5], CHFS[1]),
        entry({"SLOT": "x=y"}, None, em[8], CHFS[0]),
        entry({"DESCRIPTION": "", "DEPEND": "", "SLOT": ""}, None, em[3], CHFS[2]),
        entry({"DESCRIPTION": "é ✓"}, "junk value", None, CHFS[1]),
    ]
    if tier == "thorough":
        for i in range(16):
            ents.append(entry(kd[(i * 7 + 3) % len(kd)], UNKNOWN[i % 2], em[i % len(em)], CHFS[i % 3]))
    return ents


RT_CHUNK = 60


def tasks(tier):
    out = []
    n = len(rt_space(tier))
    for layout, cpv, prev in itertools.product(LAYOUTS, CPVS, PREVS):
        for i in range(0, n, RT_CHUNK * (1 if tier == "quick" else 8)):
            out.append(("rt", tier, layout, cpv, prev, i, min(n, i + RT_CHUNK * (1 if tier == "quick" else 8))))
    for layout, cpv, prev in itertools.product(LAYOUTS, CPVS, PREVS):
        out.append(("sweep", tier, layout, cpv, prev))
    for layout, cpv, mode in itertools.product(LAYOUTS, CPVS, HIST_MODES):
        for i in range(len(HIST_OPS)):
            out.append(("hist", tier, layout, cpv, mode, i))
    return out


def _feat(ent):
    f = set()
    vals = list(ent["keys"].values())
    if not vals:
        f.add("no-keys")
    if "" in vals:
        f.add("empty-value")
    if any(" " in v for v in vals):
        f.add("space-value")
    if any("=" in v for v in vals):
        f.add("equals-value")
    if any(ord(ch) > 127 for v in vals for ch in v):
        f.add("unicode-value")
    if ent["unknown"] is not None:
        f.add("unknown-key")
    e = ent["ecl"]
    f.add("ecl-absent" if e is None else f"ecl-{len(e)}")
    if e and any(x[2] != int(x[2]) for x in e):
        f.add("ecl-float-mtime")
    if e and any(" " in x[1] for x in e):
        f.add("ecl-path-space")
    if ent["chf"][0] != int(ent["chf"][0]):
        f.add("chf-float-mtime")
    return f


def work(task):
    from verif import c24c30_sweep as sw

    sw.warm("pkgcore.cache.flat_hash")
    base = tempfile.mkdtemp(dir="/dev/shm", prefix=f"verif-C27-{os.getpid()}-")
    evals = 0
    classes, viol, samples = {}, [], []
    counters = {"crash_points": 0, "crash_scenarios": 0}
    try:
        if task[0] == "rt":
            _, tier, layout, cpv, prev, lo, hi = task
            space = rt_space(tier)
            wd = os.path.join(base, "w")
            for ent in space[lo:hi]:
                evals += 1
                msgs = check_roundtrip(wd, layout, cpv, prev, ent)
                names = {f"rt:{layout}:{prev}", f"rt:{layout}:{cpv}"} | {"rt:" + x for x in _feat(ent)}
                if msgs:
                    names.add("rt:MISMATCH")
                    viol.append({"kind": "rt", "layout": layout, "cpv": cpv, "prev": prev, "ent": ent, "msg": msgs[0]})
                for k in names:
                    classes[k] = classes.get(k, 0) + 1
            samples = [{"layout": layout, "cpv": cpv, "prev": prev, "ent": space[lo]}]
        elif task[0] == "hist":
            _, tier, layout, cpv, mode, i = task
            wd = os.path.join(base, "w")
            space = hist_space(tier, i)
            for ops in space:
                evals += 1
                msgs, names = check_history(wd, layout, cpv, mode, ops)
                if msgs:
                    viol.append({"kind": "hist", "layout": layout, "cpv": cpv, "mode": mode, "ops": ops, "msg": msgs[0]})
                for k in names:
                    classes[k] = classes.get(k, 0) + 1
            samples = [{"layout": layout, "cpv": cpv, "mode": mode, "history": _hist_text(space[-1])}]
        else:
            _, tier, layout, cpv, prev = task
            scr = sw.Scratch(base)
            scen = [("store", e) for e in sweep_entries(tier)]
            if prev == "present":
                scen.append(("delete", None))
            for op_kind, ent in scen:
                v, c, n = check_sweep(scr, layout, cpv, prev, op_kind, ent)
                evals += n
                counters["crash_points"] += n
                counters["crash_scenarios"] += 1
                viol.extend(v)
                for k, x in c.items():
                    classes[k] = classes.get(k, 0) + x
            samples = [{"sweep": [layout, cpv, prev], "ent": scen[1][1]}]
    finally:
        shutil.rmtree(base, ignore_errors=True)
    # the runner keeps at most 40 candidates per task: put the ones no classifier explains first
    viol.sort(key=lambda v: any(f(v) for f in CLASSIFIERS.values()))
    return {"evals": evals, "classes": classes, "viol": viol, "samples": samples, "counters": counters, "keep_all_viol": False}


def replay(case):
    from verif import c24c30_sweep as sw

    sw.warm("pkgcore.cache.flat_hash")
    base = tempfile.mkdtemp(dir="/dev/shm", prefix=f"verif-C27-{os.getpid()}-")
    try:
        if case["kind"] == "rt":
            return check_roundtrip(os.path.join(base, "w"), case["layout"], case["cpv"], case["prev"], case["ent"])
        if case["kind"] == "hist":
            return check_history(os.path.join(base, "w"), case["layout"], case["cpv"], case["mode"], case["ops"])[0]
        scr = sw.Scratch(base)
        v, _, _ = check_sweep(
            scr, case["layout"], case["cpv"], case["prev"], case["op"], case["ent"], only_plan=case["plan"], only_follow=case.get("follow")
        )
        return [x["msg"] for x in v if x.get("follow") == case.get("follow")]
    finally:
        shutil.rmtree(base, ignore_errors=True)


# ---------------------------------------------------------------------------------------------


def _temp_listed(case):
    """after an interrupted store the entry itself and the sibling read back fine (old or new), nothing is missing
    from keys(), and every surplus key is the store's own '.update.<pid>.<name>' temp file."""
    if case.get("kind") != "sweep" or case.get("op") != "store" or not case.get("read_ok"):
        return False
    extra = case.get("extra_keys") or []
    if not extra or case.get("missing_keys"):
        return False
    want = ".update.PID." + case["cpv"].rsplit("/", 1)[-1]
    return all(k.rsplit("/", 1)[-1] == want for k in extra)


CLASSIFIERS = {"keys-lists-update-temp-file": _temp_listed}
