"""C28 Manifest generation is deterministic, idempotent, parseable and atomic.

Seam: pkgcore.ebuild.digest.Manifest(path, thin=...).update(fetchables, chfs) on a real package
directory on tmpfs, read back with pkgcore.ebuild.digest.parse_manifest.
"""

import hashlib
import itertools
import math
import os
import shutil
import tempfile
import types

PROPERTY = "C28"
LEVEL = "exploration"
ENGINE = "enum"
TECHNIQUE = "exhaustive enumeration of bounded package directories x listing/input permutations + crash-point/torn-write enumeration of update()"
RULE = (
    "every package directory over {1-2 ebuilds} x subsets of {metadata.xml, ChangeLog} x subsets of files/{a.patch, "
    "fix.patch, sub/x.patch} x 0-2 distfiles of 3 x {thick, thin} x 2 checksum sets x {all files empty, distinct "
    "contents}, plus 3 shapes whose files/ entries share a base name in different sub-directories (files/1.0/fix.patch, "
    "files/2.0/fix.patch); Manifest.update() is run on the real directory under a harness-chosen os.listdir order and fetchables "
    "order (identity and reversed for every directory; every permutation of the root listing, of the files/ listing and "
    "of the fetchables for the permutation core), the result is parsed with parse_manifest and compared with sizes and "
    "hashlib checksums computed independently, the bytes must be identical under every order, and a second update() by "
    "a fresh object must return False with zero mutating syscalls. Separately, for every ordered pair of directory "
    "states of a scenario list, the regeneration old->new is re-executed with a crash before every mutating syscall and "
    "a torn write at every open-for-write: the Manifest bytes must be the complete old or the complete new text, and a "
    "following fault-free update() must produce a Manifest that parses back to exactly the files present. A class is "
    "(mode, which entry types occur, order kind, outcome) resp. (crash plan, outcome); distinct_nontrivial counts classes observed."
)
RULE += (
    " Fault variants per scenario: crash before each mutating syscall, crash at the first Python line after each "
    "rename/link/symlink returns, torn write at each open-for-write, and each write()/writelines() call on a file "
    "opened for writing below the scratch root failing after half of its data with OSError(ENOSPC) resp. "
    "KeyboardInterrupt (process alive, the code's own error handling runs; afterwards old-or-new, and a later "
    "fault-free run must give the complete new state)."
)
RULE += (
    " Names: AUX, MISC and DIST names with two- and three-byte UTF-8 characters are part of the alphabet, and the "
    "up-to-date re-run must also leave inode, mtime_ns and size of the Manifest unchanged. Histories on ONE Manifest "
    "object: update(), read distfiles/aux_files/ebuilds/misc, then rounds of (same-size change of an AUX, EBUILD or MISC "
    "file or of a distfile checksum, update() with the Manifest's mtime pinned to one integer second before and after, "
    "read the four properties again through the same object): they must equal the model and a fresh parse_manifest()."
)
ASSUMPTIONS = [
    "Excl: file names containing whitespace (the Manifest format is whitespace separated) and distfile names with a directory part",
    "Excl: files or directories named CVS, .svn or Manifest anywhere below the package (deliberately skipped by update())",
    "Excl: directories other than files/ in the package directory (update() raises ValueError by design)",
    "Excl: two fetchables with the same file name",
    "Excl: thin mode with an existing Manifest and no distfiles (update() leaves the file alone; the statement is silent)",
    "the order of lines in the Manifest is not demanded, only that the text is the same for every listing/input order",
    "GPG-signed Manifests are not covered",
    "crash = process death with completed syscalls durable; loss of un-synced data on power failure is not modelled",
]
BOUNDS = {
    "quick": "64 directory shapes x 7 distfile sets x {thick,thin} x 2 checksum sets x 2 content variants = 3584 states + 37 states with non-ASCII names, 4 orders "
    "each (~14.5k updates, each followed by an up-to-date re-run); all permutations (root listing x files/ listing x fetchables, up to 1440 per directory, ~7.3k "
    "updates) for the 64 shapes with 2 distfiles, the 3 same-base-name shapes and the thick non-ASCII states; 240 one-object histories (3 shapes x thick/thin x "
    "2 checksum sets x <=2 rounds over 4 change kinds); crash sweep: all ordered pairs of 10 directory states incl. 'no Manifest yet' x {thick, thin} = 150 scenarios",
    "thorough": "same product; all permutations for 64 shapes x {0,2 distfiles} x {thick,thin} x 2 content variants; one-object histories of <=3 rounds (1008); crash sweep over 16 states = 416 scenarios",
}

# ---------------------------------------------------------------------------------------------
# alphabet: a package state is a plain dict
#   {"files": [relative names], "variant": 0|1, "dist": [names], "thin": bool, "chfs": index}

EBUILD_SETS = [["p-1.ebuild"], ["p-1.ebuild", "p-2.ebuild"]]
MISC = ["metadata.xml", "ChangeLog"]
AUX = ["files/a.patch", "files/fix.patch", "files/sub/x.patch"]
DISTS = ["d-1.tar.gz", "D-2.zip", "b.tar"]
CHFS = [("size", "md5"), ("size", "blake2b", "sha512")]
CAT_PKG = ("cat", "p")


def _subsets(xs):
    for n in range(len(xs) + 1):
        for c in itertools.combinations(xs, n):
            yield list(c)


def dir_shapes():
    out = []
    for e in EBUILD_SETS:
        for m in _subsets(MISC):
            for a in _subsets(AUX):
                out.append(e + m + a)
    out.sort(key=lambda f: (len(f), f))
    return out  # 64


def dist_sets():
    return [list(c) for n in range(3) for c in itertools.combinations(DISTS, n)]  # 7


def state(files, variant=1, dist=(), thin=False, chfs=0):
    return {"files": list(files), "variant": variant, "dist": list(dist), "thin": thin, "chfs": chfs}


def content(name, variant):
    if variant == 0:
        return b""
    if variant == 1:
        return (name + "\n").encode() * (1 + len(name) % 3)
    return ("changed " + name + "\n").encode()  # variant 2: used by the crash sweep for "file modified"


NONASCII_DISTS = ["naïve-1.tar.gz", "日本.zip"]  # two- and three-byte UTF-8


def file_bytes(st, f):
    """content of a covered file in state st; names in st['flip'] carry a same-length variation (letter case swapped)"""
    data = content(f, st["variant"])
    if f in st.get("flip", ()):
        data = data.swapcase() if data.swapcase() != data else bytes(b ^ 1 for b in data)
    return data


def dist_of(st, name):
    """checksums of a distfile in state st; names in st['flip'] get another hash of the same width, same size"""
    d = dist_chksums(name, CHFS[st["chfs"]])
    if name in st.get("flip", ()):
        d = {k: (v if k == "size" else v ^ 1) for k, v in d.items()}
    return d


def dist_chksums(name, chfs):
    """what the fetcher would have computed for the distfile (arbitrary but fixed; includes 0 and all-ones)"""
    i = (DISTS + NONASCII_DISTS).index(name) % 3
    out = {"size": [0, 12345, 2**40][i]}
    for c in chfs:
        if c == "size":
            continue
        bits = hashlib.new(c).digest_size * 8
        out[c] = [0, 2**bits - 1, int(hashlib.new(c, name.encode()).hexdigest(), 16)][i]
    return out


# ---------------------------------------------------------------------------------------------
# reference model


def model(st, present_files=None):
    """expected parse result [dist, aux, ebuild, misc]; present_files overrides the file list (recovery check)"""
    chfs = CHFS[st["chfs"]]
    dist = {d: dist_of(st, d) for d in st["dist"]}
    aux, ebuild, misc = {}, {}, {}
    if not st["thin"]:
        items = present_files if present_files is not None else {f: file_bytes(st, f) for f in st["files"]}
        for f, data in items.items():
            chk = {"size": len(data)}
            for c in chfs:
                if c != "size":
                    chk[c] = int(hashlib.new(c, data).hexdigest(), 16)
            if f.startswith("files/"):
                aux[f[len("files/") :]] = chk
            elif f.endswith(".ebuild"):
                ebuild[f] = chk
            else:
                misc[f] = chk
    return [dist, aux, ebuild, misc]


# ---------------------------------------------------------------------------------------------
# driving the real code


def pkgdir(data):
    return os.path.join(data, *CAT_PKG)


def build_dir(data, st):
    d = pkgdir(data)
    os.makedirs(d, exist_ok=True)
    for f in st["files"]:
        p = os.path.join(d, f)
        os.makedirs(os.path.dirname(p), exist_ok=True)
        with open(p, "wb") as fh:
            fh.write(file_bytes(st, f))


def change_dir(data, old, new):
    """turn the directory built for `old` into the one for `new`, keeping the Manifest"""
    d = pkgdir(data)
    for f in old["files"]:
        if f not in new["files"]:
            os.unlink(os.path.join(d, f))
    for sub in ("files/sub", "files"):
        p = os.path.join(d, sub)
        if os.path.isdir(p) and not os.listdir(p):
            os.rmdir(p)
    build_dir(data, new)


def fetchables(st, order):
    fs = [types.SimpleNamespace(filename=n, chksums=dist_of(st, n)) for n in st["dist"]]
    return _permute(fs, order)


def _permute(xs, order):
    """order: 'id' | 'rev' | int (index into itertools.permutations of the sorted list)"""
    if order == "id":
        return list(xs)
    if order == "rev":
        return list(reversed(xs))
    n = math.factorial(len(xs))
    return list(next(itertools.islice(itertools.permutations(xs), order % n, None)))


class listing_order:
    """harness-owned directory listing order for os.listdir (what iter_scan uses)"""

    def __init__(self, data, orders):
        self.base = pkgdir(data)
        self.orders = orders  # {"": order for the root, "files": ..., "files/sub": ...}

    def __enter__(self):
        self.real = os.listdir
        real, base, orders = self.real, self.base, self.orders

        def listdir(path="."):
            names = sorted(real(path))
            p = os.fspath(path)
            if isinstance(p, str) and (p == base or p.startswith(base + "/")):
                rel = p[len(base) :].strip("/")
                return _permute(names, orders.get(rel, "id"))
            return names

        os.listdir = listdir
        return self

    def __exit__(self, *a):
        os.listdir = self.real


def run_update(data, st, orders, forder):
    from pkgcore.ebuild import digest

    m = digest.Manifest(os.path.join(pkgdir(data), "Manifest"), thin=st["thin"], allow_missing=True)
    with listing_order(data, orders):
        return m.update(fetchables(st, forder), chfs=CHFS[st["chfs"]])


def manifest_bytes(data):
    try:
        with open(os.path.join(pkgdir(data), "Manifest"), "rb") as f:
            return f.read().decode("utf8", "replace")
    except FileNotFoundError:
        return None


def parse(data):
    from pkgcore.ebuild import digest

    try:
        res = digest.parse_manifest(os.path.join(pkgdir(data), "Manifest"))
    except Exception as e:
        return f"unparseable: {type(e).__name__}: {e}"
    return [{k: dict(v) for k, v in d.items()} for d in res]


def files_present(data):
    """independent walk of the package directory (for the recovery check)"""
    d = pkgdir(data)
    out = {}
    for root, dirs, files in os.walk(d):
        for f in files:
            p = os.path.join(root, f)
            rel = p[len(d) + 1 :]
            if rel == "Manifest":
                continue
            with open(p, "rb") as fh:
                out[rel] = fh.read()
    return out


def _diff(exp, got):
    if isinstance(got, str):
        return got
    names = ["DIST", "AUX", "EBUILD", "MISC"]
    parts = []
    for n, e, g in zip(names, exp, got):
        if e != g:
            miss = sorted(set(e) - set(g))
            extra = sorted(set(g) - set(e))
            bad = sorted(k for k in set(e) & set(g) if e[k] != g[k])
            parts.append(f"{n}: missing {miss} unexpected {extra} wrong {[(k, e[k], g[k]) for k in bad[:1]]}")
    return "; ".join(parts)


def scrub_events(events):
    return [(e[0],) + tuple(str(a)[-40:] for a in e[1]) for e in events]


def order_sets(st, full):
    """list of (orders, forder) under which update() is run"""
    if not full:
        return [({}, "id"), ({"": "rev", "files": "rev"}, "rev"), ({"": "rev"}, "id"), ({"files": "rev"}, "rev")]
    nroot = len([f for f in st["files"] if "/" not in f]) + (1 if any(f.startswith("files/") for f in st["files"]) else 0)
    nfiles = len({f.split("/")[1] for f in st["files"] if f.startswith("files/")})
    out = []
    for r in range(math.factorial(nroot) if not st["thin"] else 1):
        for a in range(math.factorial(nfiles) if nfiles and not st["thin"] else 1):
            for d in range(math.factorial(len(st["dist"]))):
                out.append(({"": r, "files": a}, d))
    return out


def check_state(scr, st, full, only=None):
    """-> (messages, n_updates, class names)"""
    msgs = []
    names = set()
    n = 0
    first = None
    exp = model(st)
    mode = "thin" if st["thin"] else "thick"
    osets = order_sets(st, full)
    scr.reset()
    build_dir(scr.data, st)
    for idx, (orders, forder) in enumerate(osets):
        if only is not None and idx not in (0, only):
            continue
        for f in ("Manifest", ".update.Manifest"):  # same directory, no Manifest yet
            try:
                os.unlink(os.path.join(pkgdir(scr.data), f))
            except FileNotFoundError:
                pass
        n += 1
        tag = f"{mode} {st['files']} dist={st['dist']} chfs={CHFS[st['chfs']]} variant={st['variant']} listing={orders} fetchables={forder}"
        try:
            ret = run_update(scr.data, st, orders, forder)
        except Exception as e:
            msgs.append((idx, f"{tag}: update raised {type(e).__name__}: {e}"))
            continue
        text = manifest_bytes(scr.data)
        if st["thin"] and not st["dist"]:
            names.add("thin-nothing-to-write")
            if ret or text is not None:
                msgs.append((idx, f"{tag}: thin manifest without distfiles: update returned {ret!r}, file {text!r}"))
            continue
        if text is None or not ret:
            msgs.append((idx, f"{tag}: first update returned {ret!r} and Manifest is {'missing' if text is None else 'present'}"))
            continue
        got = parse(scr.data)
        if got != exp:
            msgs.append((idx, f"{tag}: Manifest does not parse back to the covered files: {_diff(exp, got)}"))
        if first is None:
            first = text
        elif text != first:
            msgs.append((idx, f"{tag}: Manifest text depends on the order: {text!r} vs {first!r} under {osets[0]}"))
        # up to date: a fresh object, another order, must not touch anything
        o2, f2 = osets[(idx + 1) % len(osets)]
        st1 = os.stat(os.path.join(pkgdir(scr.data), "Manifest"))
        status, ret2, events = scr.inj.record(lambda: run_update(scr.data, st, o2, f2))
        st2 = os.stat(os.path.join(pkgdir(scr.data), "Manifest"))
        same_file = (st1.st_ino, st1.st_mtime_ns, st1.st_size) == (st2.st_ino, st2.st_mtime_ns, st2.st_size)
        if status != "ok" or ret2 is not False or events or not same_file or manifest_bytes(scr.data) != text:
            msgs.append(
                (
                    idx,
                    f"{tag}: second update of an up-to-date Manifest: status={status} returned {ret2!r}, mutating events {scrub_events(events)!r}, "
                    f"inode/mtime_ns/size unchanged={same_file}, text changed={manifest_bytes(scr.data) != text}",
                )
            )
        names.add(f"{mode}:second-update-noop")
    for i, t in enumerate(exp):
        if t:
            names.add(f"{mode}:has-" + ["DIST", "AUX", "EBUILD", "MISC"][i])
    if any(f.startswith("files/sub/") for f in st["files"]):
        names.add("nested-aux")
    names.add("orders-all-permutations" if full else "orders-id-rev")
    names.add(f"variant-{st['variant']}")
    if any(ord(ch) > 127 for n in st["files"] + st["dist"] for ch in n):
        names.add(f"{mode}:non-ascii-name")
    names.add(f"chfs-{st['chfs']}")
    return msgs, n, names


# histories on ONE Manifest object -----------------------------------------------------------------

HIST_SECOND = 1_000_000_000  # the Manifest's mtime is pinned to this integer second around every update()
HIST_SHAPES = [
    (["p-1.ebuild", "metadata.xml", "files/a.patch"], ["d-1.tar.gz", "b.tar"]),
    (["p-1.ebuild", "p-2.ebuild", "ChangeLog", "files/a.patch", "files/sub/x.patch"], ["D-2.zip"]),
    (["p-1.ebuild", "файл", "files/naïve.patch"], ["日本.zip"]),
]
HIST_CHANGES = ["aux", "ebuild", "misc", "dist"]  # which covered thing gets a same-size change before the next update()


def _hist_target(st, kind):
    if kind == "dist":
        return st["dist"][0]
    for f in st["files"]:
        if (kind == "aux" and f.startswith("files/")) or (kind == "ebuild" and f.endswith(".ebuild")) or (
            kind == "misc" and "/" not in f and not f.endswith(".ebuild")
        ):
            return f
    raise AssertionError(kind)


def check_history(scr, shape, thin, chfs, changes):
    """one Manifest object: update(), read its properties, then rounds of (same-size change of a covered file or of a
    distfile checksum, update() within the same second, read the properties again through the same object); what the
    object reports must equal both the model and a fresh parse of the file. -> (messages, class names)"""
    from pkgcore.ebuild import digest

    files, dist = HIST_SHAPES[shape]
    st = dict(state(files, 1, dist, thin, chfs), flip=[])
    mode = "thin" if thin else "thick"
    names = {f"hist:{mode}"}
    scr.reset()
    build_dir(scr.data, st)
    mpath = os.path.join(pkgdir(scr.data), "Manifest")
    m = digest.Manifest(mpath, thin=thin, allow_missing=True)

    def props():
        return [{k: dict(v) for k, v in d.items()} for d in (m.distfiles, m.aux_files, m.ebuilds, m.misc)]

    def step(tag, expect_write):
        if os.path.exists(mpath):
            os.utime(mpath, (HIST_SECOND, HIST_SECOND))
        ret = m.update(fetchables(st, "id"), chfs=CHFS[chfs])
        os.utime(mpath, (HIST_SECOND, HIST_SECOND))
        if bool(ret) != expect_write:
            return f"{tag}: update() returned {ret!r}, expected {expect_write}"
        exp = model(st)
        fresh = parse(scr.data)
        if fresh != exp:
            return f"{tag}: the Manifest file does not parse back to the covered files: {_diff(exp, fresh)}"
        got = props()
        if got != exp:
            return f"{tag}: the same Manifest object reports stale data after its own update(): {_diff(exp, got)} (a fresh parse of the file is right)"
        return None

    try:
        err = step("initial update", True)
        done = []
        for kind in changes:
            if err:
                break
            done.append(kind)
            target = _hist_target(st, kind)
            st["flip"] = sorted(set(st["flip"]) ^ {target})
            if kind != "dist":
                with open(os.path.join(pkgdir(scr.data), target), "wb") as fh:
                    fh.write(file_bytes(st, target))
            covered = kind == "dist" or not thin
            names.add(f"hist:{mode}:change-{kind}" + ("" if covered else "-not-covered"))
            err = step(f"after same-size change of {kind} {target!r} (history {done})", covered)
    except Exception as e:
        err = f"history {changes}: raised {type(e).__name__}: {e}"
    if err:
        names.add("hist:MISMATCH")
        return [f"{mode} {files} dist={dist} chfs={CHFS[chfs]}, one Manifest object, mtime pinned: {err}"[:900]], names
    return [], names


def hist_space(tier):
    out = []
    depth = 2 if tier == "quick" else 3
    for shape, thin, chfs in itertools.product(range(len(HIST_SHAPES)), (False, True), (0, 1)):
        for d in range(1, depth + 1):
            for changes in itertools.product(HIST_CHANGES, repeat=d):
                out.append((shape, thin, chfs, list(changes)))
    return out


# crash sweep -------------------------------------------------------------------------------


def check_sweep(scr, old, new, only_plan=None):
    """old: state or None (no Manifest yet); new: state. thin/chfs are taken from new."""
    from verif import c24c30_sweep as sw

    def prepare():
        if old is not None:
            o = dict(old, thin=new["thin"], chfs=new["chfs"])
            build_dir(scr.data, o)
            run_update(scr.data, o, {}, "id")
            change_dir(scr.data, o, new)
        else:
            build_dir(scr.data, new)

    def op():
        return run_update(scr.data, new, {}, "id")

    scr.reset()
    prepare()
    old_text = manifest_bytes(scr.data)
    status, value, events = sw.record(scr, prepare, op)
    desc = {"kind": "sweep", "old": old, "new": new}
    if status != "ok":
        return [dict(desc, plan=None, msg=f"fault-free update failed: {status} {value!r}")], {}, 0
    new_text = manifest_bytes(scr.data)
    viol, classes, n = [], {}, 0
    for plan in sw.plans(events, scr.nwrites):
        if only_plan is not None and list(plan) != list(only_plan):
            continue
        n += 1
        status, value, evs = sw.run_plan(scr, prepare, op, plan)
        text = manifest_bytes(scr.data)
        where = sw.describe(events, plan)
        if text == old_text:
            out = "old" if old_text != new_text else "old=new"
        elif text == new_text:
            out = "new"
        else:
            out = "NEITHER"
            viol.append(
                dict(
                    desc,
                    plan=list(plan),
                    what="torn",
                    prefix_of_new=bool(text is not None and new_text.startswith(text)),
                    got_len=None if text is None else len(text),
                    new_len=len(new_text),
                    msg=f"regeneration interrupted at {where}: Manifest is neither the complete old nor the complete new text: "
                    f"{len(text) if text is not None else None} bytes {text[-60:] if text else text!r}; old {len(old_text) if old_text is not None else None} bytes, new {len(new_text)} bytes"[:900],
                )
            )
        if not sw.fired(status):
            viol.append(dict(desc, plan=list(plan), what="engine", msg=f"engine: plan {plan} did not fire ({status})"))
        # recovery: the next regeneration must give a Manifest that parses back to exactly what is there
        try:
            run_update(scr.data, new, {"": "rev", "files": "rev"}, "rev")
            got = parse(scr.data)
            exp = model(new, present_files=files_present(scr.data))
            if got != exp:
                out += "+recovery-bad"
                viol.append(
                    dict(desc, plan=list(plan), what="recovery", msg=f"after an interruption at {where} the next update() writes a Manifest that does not match the files present: {_diff(exp, got)}"[:900])
                )
            elif plan[0] in sw.WRITE_FAULTS and manifest_bytes(scr.data) != new_text:
                out += "+recovery-bad"
                viol.append(
                    dict(desc, plan=list(plan), what="recovery", msg=f"after {where} a later fault-free update() does not produce the complete new text: {manifest_bytes(scr.data)!r}"[:900])
                )
        except Exception as e:
            viol.append(dict(desc, plan=list(plan), what="recovery", msg=f"after an interruption at {where} the next update() raised {type(e).__name__}: {e}"[:900]))
        key = f"sweep:{'thin' if new['thin'] else 'thick'}:{sw.plan_class(events, plan)}:{out}"
        classes[key] = classes.get(key, 0) + 1
    return viol, classes, n


def sweep_states(tier):
    sh = dir_shapes()
    sts = [
        None,
        state(["p-1.ebuild"], 1, []),
        state(["p-1.ebuild"], 2, []),  # content changed
        state(["p-1.ebuild"], 1, ["d-1.tar.gz"]),
        state(["p-1.ebuild", "p-2.ebuild"], 1, ["d-1.tar.gz", "D-2.zip"]),
        state(["p-1.ebuild", "metadata.xml", "files/a.patch"], 1, ["b.tar"]),
        state(["p-1.ebuild", "metadata.xml", "files/a.patch", "files/sub/x.patch"], 2, ["b.tar"]),
        state(["p-1.ebuild", "p-2.ebuild", "metadata.xml", "ChangeLog", "files/a.patch", "files/fix.patch", "files/sub/x.patch"], 1, ["d-1.tar.gz", "b.tar"]),
        state(["p-1.ebuild"], 0, []),  # empty files
        state(["p-1.ebuild", "ChangeLog"], 1, ["D-2.zip"]),
    ]
    if tier == "thorough":
        for i in (5, 17, 29, 41, 53, 63):
            sts.append(state(sh[i], 1 + i % 2, dist_sets()[i % 7]))
    return sts


# ---------------------------------------------------------------------------------------------


def rt_space(tier):
    out = []
    for files, dist, thin, chfs, variant in itertools.product(dir_shapes(), dist_sets(), (False, True), (0, 1), (0, 1)):
        out.append((state(files, variant, dist, thin, chfs), False))
    for st in nonascii_states():
        out.append((st, False))
    return out


def same_name_shapes():
    """files/ entries that share a base name in different sub-directories (a sort on the base name ties on them)"""
    return [
        ["p-1.ebuild", "files/1.0/fix.patch", "files/2.0/fix.patch"],
        ["p-1.ebuild", "metadata.xml", "files/fix.patch", "files/1.0/fix.patch", "files/2.0/fix.patch"],
        ["p-1.ebuild", "files/1.0/a.patch", "files/2.0/a.patch", "files/2.0/b.patch"],
    ]


def nonascii_states():
    """AUX / MISC / DIST names with two- and three-byte UTF-8 characters (character count != byte count)"""
    shapes = [
        ["p-1.ebuild", "files/naïve.patch"],
        ["p-1.ebuild", "файл"],
        ["p-1.ebuild", "metadata.xml", "files/日本.patch", "files/naïve.patch"],
    ]
    dists = [[], ["naïve-1.tar.gz"], ["日本.zip", "d-1.tar.gz"]]
    out = []
    for files, dist, thin, chfs in itertools.product(shapes, dists, (False, True), (0, 1)):
        out.append(state(files, 1, dist, thin, chfs))
    out.append(state(["p-1.ebuild"], 1, ["naïve-1.tar.gz", "日本.zip"], True, 0))
    return out


def perm_space(tier):
    out = []
    for st in nonascii_states():
        if not st["thin"] and st["chfs"] == 0:
            out.append((st, True))
    for files in same_name_shapes():
        for variant in (1, 0):
            out.append((state(files, variant, [], False, 0), True))
    if tier == "quick":
        for files in dir_shapes():
            out.append((state(files, 1, ["d-1.tar.gz", "D-2.zip"], False, 0), True))
    else:
        for files, dist, thin, variant in itertools.product(dir_shapes(), ([], ["d-1.tar.gz", "D-2.zip"]), (False, True), (0, 1)):
            out.append((state(files, variant, dist, thin, 0), True))
    return out


def tasks(tier):
    out = []
    n = len(rt_space(tier))
    for i in range(0, n, 32):
        out.append(("rt", tier, i, min(n, i + 32)))
    n = len(perm_space(tier))
    for i in range(n):
        out.append(("perm", tier, i, i + 1))
    ns = len(sweep_states(tier))
    for thin in (False, True):
        for i in range(ns):
            out.append(("sweep", tier, thin, i))
    n = len(hist_space(tier))
    for i in range(0, n, 20):
        out.append(("hist", tier, i, min(n, i + 20)))
    return out


def work(task):
    from verif import c24c30_sweep as sw

    sw.warm("pkgcore.ebuild.digest")
    base = tempfile.mkdtemp(dir="/dev/shm", prefix=f"verif-C28-{os.getpid()}-")
    evals = 0
    classes, viol, samples = {}, [], []
    counters = {"crash_points": 0, "crash_scenarios": 0, "max_orders_per_directory": 0}
    try:
        scr = sw.Scratch(base)
        if task[0] in ("rt", "perm"):
            space = rt_space(task[1]) if task[0] == "rt" else perm_space(task[1])
            for st, full in space[task[2] : task[3]]:
                msgs, n, names = check_state(scr, st, full)
                evals += n
                counters["max_orders_per_directory"] = max(counters["max_orders_per_directory"], n)
                for idx, m in msgs[:3]:
                    viol.append({"kind": "state", "state": st, "full": full, "order_index": idx, "msg": m[:900]})
                if msgs:
                    names.add("MISMATCH")
                for k in names:
                    classes[k] = classes.get(k, 0) + 1
            samples = [space[task[2]][0]]
        elif task[0] == "hist":
            space = hist_space(task[1])[task[2] : task[3]]
            for shape, thin, chfs, changes in space:
                evals += 1
                msgs, names = check_history(scr, shape, thin, chfs, changes)
                if msgs:
                    viol.append({"kind": "hist", "shape": shape, "thin": thin, "chfs": chfs, "changes": changes, "msg": msgs[0]})
                for k in names:
                    classes[k] = classes.get(k, 0) + 1
            samples = [{"history_shape": HIST_SHAPES[space[0][0]][0], "thin": space[0][1], "changes": space[0][3]}]
        else:
            _, tier, thin, i = task
            sts = sweep_states(tier)
            old = sts[i]
            for new in sts:
                if new is None:
                    continue
                new = dict(new, thin=thin)
                if thin and not new["dist"]:
                    continue  # nothing is written
                v, c, n = check_sweep(scr, old, new)
                evals += n
                counters["crash_points"] += n
                counters["crash_scenarios"] += 1
                viol.extend(v)
                for k, x in c.items():
                    classes[k] = classes.get(k, 0) + x
            samples = [{"sweep_old": old, "thin": thin}]
    finally:
        shutil.rmtree(base, ignore_errors=True)
    # the runner keeps at most 40 candidates per task: put the ones no classifier explains first
    viol.sort(key=lambda v: any(f(v) for f in CLASSIFIERS.values()))
    return {"evals": evals, "classes": classes, "viol": viol, "samples": samples, "counters": counters}


def replay(case):
    from verif import c24c30_sweep as sw

    sw.warm("pkgcore.ebuild.digest")
    base = tempfile.mkdtemp(dir="/dev/shm", prefix=f"verif-C28-{os.getpid()}-")
    try:
        scr = sw.Scratch(base)
        if case["kind"] == "state":
            msgs, _, _ = check_state(scr, case["state"], case["full"], only=case["order_index"])
            return [m for _, m in msgs]
        if case["kind"] == "hist":
            return check_history(scr, case["shape"], case["thin"], case["chfs"], case["changes"])[0]
        v, _, _ = check_sweep(scr, case["old"], case["new"], only_plan=case["plan"])
        return [x["msg"] for x in v if x.get("what") == case.get("what")] or [x["msg"] for x in v]
    finally:
        shutil.rmtree(base, ignore_errors=True)


# ---------------------------------------------------------------------------------------------


def _in_place(case):
    """the Manifest is rewritten in place (open(path, 'w')): a write cut short leaves a proper prefix of the new
    text. True only for torn-write plans whose observed file is a strict prefix of the complete new text."""
    return (
        case.get("kind") == "sweep"
        and case.get("what") == "torn"
        and case.get("plan", [None])[0] == "torn"
        and case.get("prefix_of_new") is True
        and case.get("got_len") is not None
        and case["got_len"] < case["new_len"]
    )


CLASSIFIERS = {"manifest-written-in-place": _in_place}
