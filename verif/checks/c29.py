"""C29 package database updates are crash-consistent.

The real ``vdb.repo_ops`` / ``binpkg.repo_ops`` operations (obtained from ``repo.operations`` and driven the way
``operations.domain`` / ``pmaint copy`` drive them) run on a scratch copy of a small repository under the fault
engine.  For every mutating event k of the fault-free run: crash before k, torn write at every open-for-write,
(thorough) one EIO at k.  After each execution a *fresh* repository object lists the repository and reads every
package's metadata; the result must be exactly the old or exactly the new state of the package.
"""

import bz2
import gc
import os
import shutil
import sys
import tempfile

PROPERTY = "C29"
LEVEL = "fault_enumeration"
ENGINE = "faults"
TECHNIQUE = "audit-hook crash/torn-write/EIO enumeration over every mutating event; fresh-repository listing + metadata read oracle"
RULE = (
    "for each scenario (vdb and binpkg: install into a new category / beside a sibling, replace same version, "
    "vdb replace by a higher version / by a revision bump 1 -> 1-r1 / by a revision drop 1-r1 -> 1, binpkg replace of the "
    "same version rebuilt within the same second (equal integer mtime of old and new tbz2), uninstall the last package of a category / beside a sibling) the fault-free run is "
    "recorded and every mutating event (including each unlink/rmdir inside shutil.rmtree) becomes a crash point; every "
    "open-for-write additionally a torn write; thorough adds one EIO per event. One evaluation = one faulted execution "
    "from a fresh copy of the pre-state followed by a fresh tree(location) listing and a read of every tracked attribute, the "
    "contents (binpkg: with file bytes), environment and ebuild of every listed package. A class is "
    "(repository kind, operation, fault kind, kind of audited call at the fault, outcome old/new/both/partial/neither)."
)
ASSUMPTIONS = [
    "a crash is process death with every completed syscall durable; loss or reordering of un-synced data on power "
    "failure is not modelled (pkgcore issues no fsync)",
    "Excl: for a replace by a *different* version 'both versions listed, each complete' is accepted (the statement names "
    "only 'partially written' and 'neither' as forbidden; no sequence of directory renames can switch two names at once)",
    "Excl: binpkg replace by a different version (only reachable through install_or_replace, which matches the same version)",
    "equal integer mtimes of old and new tbz2 are a scenario of their own (same-second: the harness sets the finished "
    "temp file's mtime into the old file's second before finalization); in the other binpkg scenarios the old tbz2 has "
    "mtime 1000, so there the fresh view always reads the xpak",
    "Excl: binpkg replace by a revision bump: like any binpkg replace by another fullver it leaves the old tbz2 behind "
    "even when it completes, and is only reachable through install_or_replace, which matches the same fullver",
    "the repository lock is the default fake lock; concurrent readers during the update are not modelled, only the "
    "state a fresh process sees after the death of the writer",
    "second generation: every distinct acceptable post-fault state of a scenario (key: old/new/both + the entry and "
    "temporary names present; first and last fault producing it) is a start state from which the merge is run again -- "
    "replace(old, new) while the old entry is still listed, replace(new, new) when only the new one is, install(new) "
    "when neither, uninstall(old) while listed -- under every fault plan again; a re-run that fails cleanly is fine, the "
    "fresh view must stay old / new / both-complete; a re-run that reports success must show the new state",
    "old/new reference states are read once from the fault-free pre/post trees with the same view function and checked "
    "against the hand-written tags, so the view itself is validated",
]
BOUNDS = {
    "quick": "14 scenarios; every mutating event of each (40-110 per vdb scenario, 2-9 per binpkg scenario) as a crash "
    "point + a crash right after every rename/link/symlink + every open-for-write as a torn write; second generation: "
    "the same sweep again from every distinct acceptable post-fault state (about 5-12 start states per scenario)",
    "thorough": "same + one injected EIO at every event (process stays alive, the operation's own error path runs)",
}

SCENARIOS = [
    ("vdb", "install-new-category"),
    ("vdb", "install-beside-sibling"),
    ("vdb", "replace-same-version"),
    ("vdb", "replace-higher-version"),
    ("vdb", "replace-revision-bump"),
    ("vdb", "replace-revision-drop"),
    ("vdb", "uninstall-last-of-category"),
    ("vdb", "uninstall-beside-sibling"),
    ("bin", "install-new-category"),
    ("bin", "install-beside-sibling"),
    ("bin", "replace-same-version"),
    ("bin", "replace-same-version-same-second"),
    ("bin", "uninstall-last-of-category"),
    ("bin", "uninstall-beside-sibling"),
]
SHARDS = {"vdb": 8, "bin": 2}
SHARDS2 = {"vdb": 6, "bin": 1}  # second generation: start states of a scenario are spread over this many tasks

# replace scenarios: name -> (tag of the installed package, tag of the replacing package)
REPLACE = {
    "replace-same-version": ("old", "new"),  # cat/pkg-1 -> cat/pkg-1
    "replace-higher-version": ("old", "hi"),  # cat/pkg-1 -> cat/pkg-2
    "replace-revision-bump": ("old", "r1"),  # cat/pkg-1 -> cat/pkg-1-r1 (same version, other directory name)
    "replace-revision-drop": ("oldr1", "new"),  # cat/pkg-1-r1 -> cat/pkg-1
    "replace-same-version-same-second": ("old", "new"),  # rebuilt within the second the old tbz2 was written in
}


def tasks(tier):
    out = []
    for kind, name in SCENARIOS:
        n = SHARDS[kind]
        for i in range(n):
            out.append((tier, kind, name, i, n))
    for kind, name in SCENARIOS:
        n = SHARDS2[kind]
        for i in range(n):
            out.append((tier, kind, name, i, n, "gen2"))
    return out


# ---------------------------------------------------------------------------------------------
# fixtures (plain files)


def _write_vdb_entry(loc, cat, pf, tag, slot="0"):
    d = os.path.join(loc, cat, pf)
    os.makedirs(d)
    files = {
        "CONTENTS": f"dir /usr\nobj /usr/{tag} d41d8cd98f00b204e9800998ecf8427e 1000\n",
        "DESCRIPTION": f"desc {tag}\n",
        "SLOT": slot + "\n",
        "EAPI": "8\n",
        "KEYWORDS": "amd64\n",
        "RDEPEND": f"dev-libs/{tag}\n",
        "DEPEND": "",
        "USE": f"flag{tag}\n",
        "IUSE": f"flag{tag}\n",
        "LICENSE": "GPL-2\n",
        "repository": "gentoo\n",
        "DEFINED_PHASES": "-\n",
        "CATEGORY": cat + "\n",
        "PF": pf + "\n",
        pf + ".ebuild": f"# ebuild {tag}\nEAPI=8\n",
    }
    for k, v in files.items():
        with open(os.path.join(d, k), "w") as f:
            f.write(v)
    with open(os.path.join(d, "environment.bz2"), "wb") as f:
        f.write(bz2.compress(f"TAG={tag}\n".encode()))


def _image(loc, tag):
    from pkgcore.fs import livefs

    os.makedirs(os.path.join(loc, "usr", "share"))
    with open(os.path.join(loc, "usr", tag), "w") as f:
        f.write(f"data {tag}\n")
    with open(os.path.join(loc, "usr", "share", tag + ".txt"), "w") as f:
        f.write(f"more {tag}\n" * 400)
    os.symlink(tag, os.path.join(loc, "usr", "link-" + tag))
    for dp, dn, fn in os.walk(loc):
        for n in dn + fn:
            os.utime(os.path.join(dp, n), (1000, 1000), follow_symlinks=False)
    return livefs.scan(loc, offset=loc, chksum_types=("md5", "size"))


class _Domain:
    def __init__(self, tmp):
        self.pm_tmpdir = tmp


def _tree(kind, loc):
    if kind == "vdb":
        from pkgcore.vdb import ondisk

        return ondisk.tree(loc, disable_cache=True)
    from pkgcore.binpkg import repository

    return repository.tree(loc)


def view(kind, loc):
    """What a fresh process sees: cpv -> tuple of metadata, or an 'ERR …' string for that cpv / the listing."""
    try:
        t = _tree(kind, loc)
        pkgs = sorted(t, key=lambda p: p.cpvstr)
    except Exception as e:
        return {"<listing>": f"ERR {type(e).__name__}: {e}".replace(loc, "<repo>")}
    out = {}
    for p in pkgs:
        try:
            cont = []
            for x in sorted(p.contents, key=lambda x: x.location):
                data = None
                if kind == "bin" and x.is_reg:
                    data = x.data.bytes_fileobj().read().decode("latin-1")
                cont.append((x.location, type(x).__name__, data))
            rest = []
            for k in sorted(p.tracked_attributes):
                if k in ("contents", "environment", "use", "description", "fullslot", "rdepend"):
                    continue
                v = getattr(p, k)
                rest.append((k, " ".join(sorted(map(str, v))) if isinstance(v, (tuple, list, set, frozenset)) else str(v)))
            out[p.cpvstr] = (
                p.description,
                p.fullslot,
                tuple(sorted(p.use)),
                str(p.rdepend),
                tuple(cont),
                p.environment.bytes_fileobj().read().decode("latin-1"),
                p.ebuild.text_fileobj().read(),
                tuple(rest),
            )
        except Exception as e:
            out[p.cpvstr] = f"ERR {type(e).__name__}: {e}".replace(loc, "<repo>")[:300]
    return out


def _fd_injector(scope):
    from verif.engines import faults

    class FdInjector(faults.Injector):
        """shutil.rmtree removes entries relative to a directory fd; resolve those so they are in scope."""

        def _event(self, name, args, openpath=None, force=False):
            if (
                name in ("os.remove", "os.rmdir", "os.mkdir")
                and len(args) >= 2
                and isinstance(args[0], (str, bytes))
                and type(args[1]) is int
                and args[1] >= 0
            ):
                p = faults._s(args[0])
                if not p.startswith("/"):
                    try:
                        args = (os.path.join(os.readlink(f"/proc/self/fd/{args[1]}"), p), -1)
                    except OSError:
                        pass
            return super()._event(name, args, openpath=openpath, force=force)

    return FdInjector(scope)


class Fixture:
    """Everything one scenario needs; built once per task (or per replay)."""

    def __init__(self, kind, name):
        from pkgcore.ebuild.atom import atom
        from pkgcore.package.mutated import MutatedPkg
        from pkgcore.vdb import ondisk

        self.kind, self.name = kind, name
        self.scratch = tempfile.mkdtemp(dir="/dev/shm", prefix=f"verif-C29-{os.getpid()}-")
        s = self.scratch
        self.run_root = os.path.join(s, "run")
        self.repo = os.path.join(self.run_root, "repo")
        self.tmpl = os.path.join(s, "tmpl")
        src = os.path.join(s, "src")
        for tag, pf in (("old", "pkg-1"), ("sib", "other-1"), ("oldr1", "pkg-1-r1")):
            _write_vdb_entry(os.path.join(src, "a"), "cat", pf, tag)
        _write_vdb_entry(os.path.join(src, "b"), "cat", "pkg-1-r1", "r1", slot="1")
        _write_vdb_entry(os.path.join(src, "b"), "cat", "pkg-1", "new", slot="1")
        _write_vdb_entry(os.path.join(src, "b"), "cat", "pkg-2", "hi", slot="2/2")
        ta = ondisk.tree(os.path.join(src, "a"), disable_cache=True)
        tb = ondisk.tree(os.path.join(src, "b"), disable_cache=True)

        def get(t, a, tag):
            return MutatedPkg(t.match(atom(a))[0], {"contents": _image(os.path.join(s, "img-" + tag), tag)})

        self.pkgs = {
            "old": get(ta, "=cat/pkg-1", "old"),
            "sib": get(ta, "=cat/other-1", "sib"),
            "new": get(tb, "=cat/pkg-1", "new"),
            "hi": get(tb, "=cat/pkg-2", "hi"),
            "r1": get(tb, "=cat/pkg-1-r1", "r1"),
            "oldr1": get(ta, "=cat/pkg-1-r1", "oldr1"),
        }
        pmtmp = os.path.join(s, "pmtmp")
        for pf in ("pkg-1", "pkg-2", "other-1", "pkg-1-r1"):
            d = os.path.join(pmtmp, "cat", pf, "temp")
            os.makedirs(d)
            with open(os.path.join(d, "NEEDED"), "w") as f:
                f.write("/usr/bin/x libc.so.6\n")
        self.domain = _Domain(pmtmp)

        op = name.split("-")[0]
        self.op = op
        pre = []
        self.oldtag = None
        if op == "replace":
            self.oldtag, self.newtag = REPLACE[name]
        else:
            self.oldtag = "old" if op == "uninstall" else None
            self.newtag = "new" if op == "install" else None
        if self.oldtag:
            pre.append(self.oldtag)
        if name.endswith("beside-sibling"):
            pre.append("sib")
        self.same_second = name.endswith("same-second")
        # pre-state template, produced by the real (fault-free) install operation
        os.makedirs(self.tmpl)
        for tag in pre:
            t = _tree(kind, self.tmpl)
            self._install(t, self.pkgs[tag])
        if kind == "bin" and not self.same_second:
            for dp, _dn, fn in os.walk(self.tmpl):
                for n in fn:
                    if n.endswith(".tbz2"):
                        os.utime(os.path.join(dp, n), (1000, 1000))
        self.old_state = view(kind, self.tmpl)
        self.target_old = self.pkgs[self.oldtag].cpvstr if self.oldtag else None
        self.target_new = self.pkgs[self.newtag].cpvstr if self.newtag else None
        self.inj = _fd_injector(self.run_root)
        # fault-free recording
        self.reset()
        st, val, self.events = self.inj.record(self.operation())
        self.new_state = view(kind, self.repo)
        # a fault-free run that does not produce the new state is a violation of the property, not an engine error
        self.ff_problem = None
        if st != "ok":
            self.ff_problem = f"fault-free operation did not complete: {st} {type(val).__name__}: {val}"
        else:
            try:
                self._sanity()
            except RuntimeError as e:
                self.ff_problem = f"fault-free operation: {e}"

    def _install(self, t, pkg):
        op = t.operations.install(pkg)
        if self.kind == "vdb":
            op.add_data(self.domain)
        assert op.finish()

    def _sanity(self):
        want_old = {p: True for p in ([self.target_old] if self.target_old else [])}
        if self.name.endswith("beside-sibling"):
            want_old["cat/other-1"] = True
        if set(self.old_state) != set(want_old):
            raise RuntimeError(f"pre-state lists {sorted(self.old_state)}, wanted {sorted(want_old)}")
        want_new = set(want_old) - {self.target_old}
        if self.target_new:
            want_new.add(self.target_new)
        if set(self.new_state) != want_new:
            raise RuntimeError(f"post-state lists {sorted(self.new_state)}, wanted {sorted(want_new)}")
        for st in (self.old_state, self.new_state):
            for cpv, v in st.items():
                if isinstance(v, str):
                    raise RuntimeError(f"reference state unreadable: {cpv}: {v}")
        if self.target_old and self.old_state[self.target_old][0] != f"desc {self.oldtag}":
            raise RuntimeError("old description")
        if self.target_new:
            v = self.new_state[self.target_new]
            tag = self.newtag
            if v[0] != f"desc {tag}" or v[2] != (f"flag{tag}",) or f"TAG={tag}" not in v[5] or f"ebuild {tag}" not in v[6]:
                raise RuntimeError(f"new state does not carry the new package's data: {v!r}")
            if not any(c[0] == f"/usr/{tag}" for c in v[4]):
                raise RuntimeError("new contents")

    def reset(self):
        shutil.rmtree(self.run_root, ignore_errors=True)
        os.makedirs(self.run_root)
        shutil.copytree(self.tmpl, self.repo, symlinks=True)

    def operation(self):
        """A callable performing the scenario's repository operation on a fresh repository object."""
        return self._op_callable(self.op, self.target_old)

    def _op_callable(self, op, oldcpv):
        from pkgcore.ebuild.atom import atom

        kind = self.kind
        t = _tree(kind, self.repo)
        oldp = t.match(atom("=" + oldcpv))[0] if op in ("replace", "uninstall") else None
        newp = self.pkgs[self.newtag] if self.newtag else None
        domain = self.domain
        inj, same_second = self.inj, self.same_second and oldp is not None
        old_mtime = os.stat(t._get_path(oldp)).st_mtime_ns if same_second else None

        def run():
            if op == "install":
                o = t.operations.install(newp)
            elif op == "replace":
                o = t.operations.replace(oldp, newp)
            else:
                o = t.operations.uninstall(oldp)
            if kind == "vdb" and op != "uninstall":
                o.add_data(domain)
            if same_second:
                # the rebuild finished within the second the old tbz2 was written in: same integer mtime, different
                # fraction.  A clock reading, not an operation of the process: not an event.
                o.add_data()
                inj.bypass = True
                try:
                    ns = old_mtime - old_mtime % 10**9 + (old_mtime % 10**9 + 400_000_000) % 10**9
                    os.utime(o.tmp_path, ns=(ns, ns))
                finally:
                    inj.bypass = False
            return o.finish()

        return run

    # ---- second generation: re-running the interrupted operation -------------------------
    def _names(self):
        """Directory names of the repository two levels deep (which entries and which temporaries exist)."""
        import re

        out = []
        for c in sorted(os.listdir(self.repo)):
            cp = os.path.join(self.repo, c)
            out.append(c)
            if os.path.isdir(cp):
                out += [c + "/" + re.sub(r"^\.tmp\.\d+\.", ".tmp.PID.", n) for n in sorted(os.listdir(cp))]
        return tuple(out)

    def start_states(self, tier):
        """Distinct *acceptable* post-fault states of the scenario: key = (outcome, entry/temporary names present); for
        each key the first and the last fault plan producing it (earliest and most advanced temporary contents)."""
        first, last = {}, {}
        for plan in _plans(self.events, tier):
            _status, outcome, msg = self.execute(plan)
            if msg is not None or outcome not in ("old", "new", "both"):
                continue
            key = (outcome, self._names())
            first.setdefault(key, plan)
            last[key] = plan
        out = []
        for key in first:
            out.append((key, first[key]))
            if last[key] != first[key]:
                out.append((key, last[key]))
        return out

    def rerun_spec(self, state):
        """What re-running the interrupted merge does, given what the repository lists now."""
        listed = set(state)
        if self.op == "uninstall":
            return ("uninstall", self.target_old) if self.target_old in listed else None
        if self.op == "replace" and self.target_old in listed:
            return ("replace", self.target_old)
        if self.target_new in listed:
            return ("replace", self.target_new)
        return ("install", None)

    def prepare_start(self, plan1):
        """Produce the start state of plan1, keep a copy, record the fault-free re-run from it."""
        self.start_dir = os.path.join(self.scratch, "start")
        shutil.rmtree(self.start_dir, ignore_errors=True)
        self.execute(plan1)
        shutil.copytree(self.repo, self.start_dir, symlinks=True)
        self.rerun = self.rerun_spec(view(self.kind, self.start_dir))
        if self.rerun is None:
            self.events2 = []
            return
        self._reset2()
        self.ff2_status, _val, self.events2 = self.inj.record(self._op_callable(*self.rerun))
        del _val
        gc.collect()

    def _reset2(self):
        shutil.rmtree(self.run_root, ignore_errors=True)
        os.makedirs(self.run_root)
        shutil.copytree(self.start_dir, self.repo, symlinks=True)

    def execute2(self, plan2):
        old = sys.unraisablehook
        sys.unraisablehook = lambda u: None if isinstance(u.exc_value, OSError) else old(u)
        try:
            try:
                self._reset2()
                status, _val = self.inj.run(self._op_callable(*self.rerun), plan2)
                del _val
                gc.collect()
                fired = self.inj.crashed_at is not None or self.inj.errored_at is not None
                outcome, msg = self.judge(view(self.kind, self.repo))
                if msg is None and not fired and plan2[0] != "torn" and status == "ok" and outcome != "new":
                    # a re-run may fail cleanly (then any acceptable state is fine); one that reports success must be done
                    msg, outcome = f"re-run reported success but the repository shows the {outcome} state", "complete-not-new"
                return status, outcome, msg
            finally:
                gc.collect()
        finally:
            sys.unraisablehook = old

    def close(self):
        shutil.rmtree(self.scratch, ignore_errors=True)

    # ---- oracle -------------------------------------------------------------------------
    def judge(self, state):
        """(outcome class, message or None).  Plain comparisons of the fresh view with the two reference states."""
        if state == self.old_state:
            return "old", None
        if state == self.new_state:
            return "new", None
        if "<listing>" in state:
            return "listing-error", f"fresh repository cannot be listed: {state['<listing>']}"
        both = dict(self.old_state)
        both.update(self.new_state)
        if self.target_old != self.target_new and self.target_old and self.target_new and state == both:
            return "both", None
        for cpv in sorted(set(self.old_state) & set(self.new_state)):  # bystanders
            if cpv in (self.target_old, self.target_new):
                continue
            if state.get(cpv) != self.old_state[cpv]:
                return "bystander-damaged", f"unrelated package {cpv} changed: {_short(state.get(cpv))}"
        extra = sorted(set(state) - set(both))
        if extra:
            return "unexpected-entry", f"fresh listing shows {extra}"
        targets = [c for c in (self.target_old, self.target_new) if c]
        shown = {c: state[c] for c in targets if c in state}
        if not shown:
            return "neither", f"neither the old nor the new package is listed (listing: {sorted(state)})"
        for cpv, v in shown.items():
            refs = [r[cpv] for r in (self.old_state, self.new_state) if cpv in r]
            if v not in refs:
                what = "old" if cpv == self.target_old and cpv != self.target_new else "listed"
                if isinstance(v, str):
                    return "partial", f"{what} package {cpv} is listed but its metadata cannot be read: {v}"
                diff = [i for i, (a, b) in enumerate(zip(v, refs[0])) if a != b]
                return "partial", f"{what} package {cpv} is listed with metadata that is neither old nor new (fields {diff} differ)"
        return "mixed", f"listing {sorted(state)} is neither the old nor the new state"

    def execute(self, plan):
        """_execute with late clean-up noise (AtomicWriteFile.__del__ hitting an injected or vanished path) kept off stderr."""
        old = sys.unraisablehook
        sys.unraisablehook = lambda u: None if isinstance(u.exc_value, OSError) else old(u)
        try:
            try:
                return self._execute(plan)
            finally:
                gc.collect()
        finally:
            sys.unraisablehook = old

    def _execute(self, plan):
        self.reset()
        status, _val = self.inj.run(self.operation(), plan)
        del _val  # an exception object keeps the operation's frames (and their open temp files) alive
        gc.collect()
        fired = self.inj.crashed_at is not None or self.inj.errored_at is not None
        state = view(self.kind, self.repo)
        outcome, msg = self.judge(state)
        if not fired and plan[0] != "torn":
            # the sanity anchor: nothing injected, must be the new state
            if outcome != "new":
                msg = msg or f"fault-free completion gives outcome {outcome}"
                outcome = "complete-not-new"
            else:
                msg = None
        return status, outcome, msg


def _short(v):
    s = repr(v)
    return s if len(s) < 200 else s[:200] + "…"


def _plans(events, tier):
    from verif.engines import faults
    import errno

    return faults.plans_for(events, crash=True, torn=True, errors=(tier == "thorough"), errnos=(errno.EIO,), after=True)


def _at(events, plan):
    k = plan[1]
    if k >= len(events):
        return "end"
    name, args = events[k]
    p = str(args[0]) if args else ""
    # strip per-process parts so that the label is stable
    import re

    p = re.sub(r"\.tmp\.\d+\.", ".tmp.PID.", p)
    return f"{name} {p}"


_CALL_CLASS = {
    "open": "open", "os.rename": "rename", "os.remove": "unlink", "os.rmdir": "rmdir", "shutil.rmtree": "rmtree",
    "os.mkdir": "mkdir", "os.chmod": "attr", "os.chown": "attr", "os.utime": "attr", "end": "end",
}


def _call_class(at):
    return _CALL_CLASS.get(at.split(" ")[0], "other")


def work(task):
    import logging

    logging.getLogger("pkgcore").setLevel(logging.CRITICAL)  # update_mtime logs every injected EIO
    if len(task) == 6:
        return work2(task)
    tier, kind, name, shard, nshards = task
    fx = Fixture(kind, name)
    evals = 0
    classes = {}
    viol = []
    samples = []
    states = set()
    try:
        plans = _plans(fx.events, tier)
        if fx.ff_problem:
            plans = []
            if shard == 0:
                evals += 1
                classes[f"{kind}:{fx.op}:fault-free:wrong"] = 1
                viol.append({"repo": kind, "scenario": name, "tier": tier, "plan": ["fault-free"], "n_events": len(fx.events),
                             "at": "fault-free", "outcome": "fault-free-wrong", "msg": f"{kind} {name}: {fx.ff_problem}"})
        for i, plan in enumerate(plans):
            if i % nshards != shard:
                continue
            evals += 1
            status, outcome, msg = fx.execute(plan)
            at = _at(fx.events, plan)
            where = "@" + _call_class(at) if plan[0] == "crash" else ""
            key = f"{kind}:{fx.op}:{plan[0]}{where}:{outcome}"
            classes[key] = classes.get(key, 0) + 1
            states.add((name, outcome, at if outcome not in ("old", "new") else ""))
            if msg:
                viol.append(
                    {
                        "repo": kind,
                        "scenario": name,
                        "tier": tier,
                        "plan": list(plan),
                        "n_events": len(fx.events),
                        "at": at,
                        "outcome": outcome,
                        "msg": f"{kind} {name}: {plan[0]} at event {plan[1]}/{len(fx.events)} ({at}): {msg}",
                    }
                )
        if shard == 0:
            samples.append({"scenario": f"{kind} {name}", "events": len(fx.events), "first_events": [_at(fx.events, ("crash", k)) for k in range(min(4, len(fx.events)))]})
    finally:
        fx.close()
    crash_points = len(fx.events) + 1 if shard == 0 else 0
    return {
        "evals": evals,
        "classes": classes,
        "viol": viol,
        "samples": samples,
        "counters": {"crash_points": crash_points, "fault_plans": evals, "distinct_post_states": len(states)},
        "keep_all_viol": True,
    }


def work2(task):
    """Second generation: every distinct acceptable post-fault state is a start state from which the operation is run
    again (what a user re-running the interrupted merge does), with every fault plan again."""
    tier, kind, name, shard, nshards, _gen = task
    fx = Fixture(kind, name)
    evals = 0
    classes = {}
    viol = []
    samples = []
    nstart = 0
    try:
        starts = [] if fx.ff_problem else fx.start_states(tier)
        for i, (key, plan1) in enumerate(starts):
            if i % nshards != shard:
                continue
            fx.prepare_start(plan1)
            if fx.rerun is None:
                continue
            nstart += 1
            rop, rold = fx.rerun
            same_fullver = rop == "replace" and rold == fx.target_new
            for plan2 in _plans(fx.events2, tier):
                evals += 1
                status, outcome, msg = fx.execute2(plan2)
                at = _at(fx.events2, plan2)
                ckey = f"{kind}:{fx.op}:gen2:from-{key[0]}:re-{rop}:{outcome}"
                classes[ckey] = classes.get(ckey, 0) + 1
                if msg:
                    viol.append(
                        {
                            "repo": kind,
                            "scenario": name,
                            "tier": tier,
                            "gen": 2,
                            "plan1": list(plan1),
                            "n_events": len(fx.events),
                            "start": [key[0], list(key[1])],
                            "rerun": [rop, rold],
                            "same_fullver": same_fullver,
                            "plan": list(plan2),
                            "n_events2": len(fx.events2),
                            "at": at,
                            "outcome": outcome,
                            "msg": f"{kind} {name}: after {plan1[0]} at event {plan1[1]} ({key[0]} state, entries {list(key[1])}) "
                            f"the operation is run again ({rop}): {plan2[0]} at event {plan2[1]}/{len(fx.events2)} ({at}): {msg}",
                        }
                    )
            if len(samples) < 2:
                samples.append({"scenario": f"{kind} {name}", "start": [key[0], list(key[1])], "from_plan": list(plan1), "rerun": [rop, rold], "events": len(fx.events2)})
    finally:
        fx.close()
    return {
        "evals": evals,
        "classes": classes,
        "viol": viol,
        "samples": samples,
        "counters": {"second_generation_start_states": nstart, "fault_plans": evals},
        "keep_all_viol": True,
    }


def replay(case):
    import logging

    logging.getLogger("pkgcore").setLevel(logging.CRITICAL)
    fx = Fixture(case["repo"], case["scenario"])
    try:
        if fx.ff_problem:
            return [fx.ff_problem]
        if case["plan"][0] == "fault-free":
            return []
        if len(fx.events) != case["n_events"]:
            raise RuntimeError(f"fault-free run has {len(fx.events)} events, case recorded {case['n_events']}")
        if case.get("gen") == 2:
            fx.prepare_start(tuple(case["plan1"]))
            if fx.rerun is None or list(fx.rerun) != case["rerun"] or len(fx.events2) != case["n_events2"]:
                raise RuntimeError(f"re-run is {fx.rerun} with {len(fx.events2)} events, case recorded {case['rerun']} / {case['n_events2']}")
            plan2 = tuple(case["plan"])
            if _at(fx.events2, plan2) != case["at"]:
                raise RuntimeError(f"event {plan2[1]} of the re-run is {_at(fx.events2, plan2)!r}, case recorded {case['at']!r}")
            _status, _outcome, msg = fx.execute2(plan2)
            return [msg] if msg else []
        plan = tuple(case["plan"])
        at = _at(fx.events, plan)
        if at != case["at"]:
            raise RuntimeError(f"event {plan[1]} is {at!r}, case recorded {case['at']!r}")
        _status, _outcome, msg = fx.execute(plan)
        return [msg] if msg else []
    finally:
        fx.close()


# ---------------------------------------------------------------------------------------------
# narrow classifiers


def _vdb_partial_removal(case):
    """vdb uninstall/replace wipes the *listed* directory in place (shutil.rmtree): stopping inside the wipe leaves the
    old package listed with part of its metadata gone."""
    return (
        case.get("repo") == "vdb"
        and case.get("scenario", "").split("-")[0] in ("uninstall", "replace")
        and case.get("outcome") == "partial"
        and case.get("at", "").startswith(("os.remove /repo/cat/pkg-1/", "os.rmdir /repo/cat/pkg-1"))
    )


def _vdb_replace_neither(case):
    """vdb replace of the *same fullver* swaps two directories with two renames (old -> .tmp.unmerge.*, .tmp.* -> final):
    between them neither is listed.  Applies to the replace-same-version scenario and to second-generation re-runs
    that are a same-fullver replace (the new entry was already listed when the merge was run again)."""
    if not (case.get("repo") == "vdb" and case.get("outcome") == "neither"):
        return False
    if case.get("gen") == 2:
        if not case.get("same_fullver"):
            return False
        pf = case["rerun"][1].split("/", 1)[1]
    elif case.get("scenario") == "replace-same-version":
        pf = "pkg-1"
    else:
        return False
    at, kind = case.get("at", ""), case.get("plan", [""])[0]
    if kind == "crash_after":
        return at == f"os.rename /repo/cat/{pf}"
    return kind in ("crash", "error") and at == f"os.rename /repo/cat/.tmp.{pf}"


CLASSIFIERS = {
    "vdb-entry-wiped-in-place": _vdb_partial_removal,
    "vdb-replace-window-without-entry": _vdb_replace_neither,
}
