"""C30 world-file updates record exactly the requested entries and replace the file atomically.

Seams: pkgcore.scripts.pmerge.update_worldset(WorldFile, atom, remove) (what pmerge does after a merge/unmerge;
flushes after every change) and WorldFile.add/remove/flush used directly.
"""

import os
import shutil
import tempfile

PROPERTY = "C30"
LEVEL = "exploration"
ENGINE = "enum"
TECHNIQUE = "exhaustive enumeration of bounded add/remove sequences over initial world files + crash-point/torn-write enumeration of flush()"
RULE = (
    "every sequence of <=3 add/remove operations (atoms over 2 package names x slots {none, 0, 1, 2, 10, 12, 1.2, a_b, "
    "0.1} in plain, versioned, sub-slotted, use-dep and repo-qualified spelling; length 1 over all 30 atoms, longer "
    "sequences over an 8-atom core) applied to each of 6 initial world files (empty, plain, slotted, with comment/blank/@set "
    "lines, with entries that look like the pieces of a split slot, with versioned and dotted-slot entries) through "
    "pmerge.update_worldset and through WorldFile.add/remove + one flush; after every step the file lines are compared "
    "with a plain set model (entry = name, or name:slot for a slot other than 0; remove of an absent entry changes "
    "nothing) and at the end a fresh WorldFile must parse to the same set. Separately, for every (initial file, "
    "operation) of the core, the flush is re-executed with a crash before every mutating syscall and a torn write at "
    "every open-for-write; the file bytes must be the complete old or the complete new text. A class is (operation, "
    "slot shape, atom spelling, effect on the model) resp. (crash plan, outcome); distinct_nontrivial counts classes observed."
)
RULE += (
    " Fault variants per scenario: crash before each mutating syscall, crash at the first Python line after each "
    "rename/link/symlink returns, torn write at each open-for-write, and each write()/writelines() call on a file "
    "opened for writing below the scratch root failing after half of its data with OSError(ENOSPC) resp. "
    "KeyboardInterrupt (process alive, the code's own error handling runs; afterwards old-or-new, and a later "
    "fault-free run must give the complete new state)."
)
ASSUMPTIONS = [
    "Excl: comment, blank and '@set' lines of an existing world file are not 'entries': flush() rewrites the file from the "
    "parsed atoms (documented: set items 'will be wiped on update'); they are in the initial files but their survival is not demanded",
    "Excl: slot '00' and other spellings of zero (the statement says non-zero slot; only the literal slot 0 is treated as 'no slot')",
    "Excl: blockers, slot operators without a slot (':=', ':*'), world files that do not exist yet",
    "Excl: the order of lines and a trailing newline are not demanded, only the set of non-empty lines and that none repeats",
    "existing entries are spelled canonically (str(atom(line)) == line)",
    "crash = process death with completed syscalls durable; loss of un-synced data on power failure is not modelled",
]
BOUNDS = {
    "quick": "6 initial files x {60 single operations x 2 seams; 16^2 core operation pairs x 2 seams}; 16^3 core triples x 2 initial files (pmerge seam) "
    "= ~12k sequences; crash sweep: 6 initial files x the core operations that change the file (60 scenarios), every crash point and torn write",
    "thorough": "6 initial files x {60 single ops; 60x16 + 16x44 pairs} x 2 seams; 16^3 triples x 6 initial files x 2 seams = ~70k sequences; crash sweep: 6 files x 60 operations (227 scenarios)",
}

# ---------------------------------------------------------------------------------------------
# alphabet

FILES = [
    "",
    "a/p\n",
    "a/p\na/q:2\n",
    "# comment\n\na/p\n@system\nb/n:12\n",
    "a/p\na/p:1\na/p:2\nb/n:1\n",  # entries that coincide with the pieces of a slot split per character
    "=a/v-1.0\na/p:1.2\na/p:12\n",
]
SLOTS = [None, "0", "1", "2", "10", "12", "1.2", "a_b", "0.1"]
FORMS = ["plain", "versioned", "subslot", "use", "repo"]


def atom_text(name, slot, form):
    s = "" if slot is None else ":" + slot
    if form == "plain":
        return name + s
    if form == "versioned":
        return "=" + name + "-1.0" + s
    if form == "subslot":
        assert slot is not None
        return name + s + "/9"
    if form == "use":
        return name + s + "[x]"
    return name + s + "::r"


def all_atoms():
    out = []
    for name in ("a/p", "b/n"):
        for slot in SLOTS:
            out.append((name, slot, "plain"))
    for slot in (None, "0", "12"):
        for form in FORMS[1:]:
            if form == "subslot" and slot is None:
                continue
            out.append(("a/p", slot, form))
    out.append(("a/p", "1.2", "subslot"))
    return out  # 30


def core_atoms():
    return [("a/p", s, "plain") for s in (None, "0", "1", "2", "12", "1.2")] + [("b/n", None, "plain"), ("b/n", "10", "versioned")]


def ops_of(atoms):
    return [[o, n, s, f] for o in ("add", "remove") for (n, s, f) in atoms]


# ---------------------------------------------------------------------------------------------
# reference model


def entry_of(name, slot):
    return name if slot is None or slot == "0" else f"{name}:{slot}"


def initial_entries(text):
    return {l.strip() for l in text.split("\n") if l.strip() and not l.strip().startswith(("#", "@"))}


def model_step(s, op):
    """-> (new set, changed?)"""
    e = entry_of(op[1], op[2])
    if op[0] == "add":
        return s | {e}, True  # pmerge flushes after every add
    if e in s:
        return s - {e}, True
    return s, False


# ---------------------------------------------------------------------------------------------
# driving the real code


def file_lines(path):
    with open(path, encoding="utf8") as f:
        return [l for l in f.read().split("\n") if l]


def apply_op(world, op, mode):
    """-> 'ok' | 'KeyError' | 'raised: ...'"""
    from pkgcore.ebuild.atom import atom

    a = atom(atom_text(op[1], op[2], op[3]))
    try:
        if mode == "pmerge":
            from pkgcore.scripts.pmerge import update_worldset

            update_worldset(world, a, remove=(op[0] == "remove"))
        elif op[0] == "add":
            world.add(a)
        else:
            world.remove(a)
    except KeyError:
        return "KeyError"
    except Exception as e:
        return f"raised {type(e).__name__}: {e}"
    return "ok"


def check_sequence(path, fidx, ops, mode):
    """-> (violation dict or None, class names)"""
    from pkgcore.pkgsets.filelist import WorldFile

    text = FILES[fidx]
    with open(path, "w", encoding="utf8") as f:
        f.write(text)
    world = WorldFile(path, gid=os.getgid())
    s = initial_entries(text)
    flushed = False
    names = set()

    def bad(step, what, got=None, exp=None):
        return {
            "kind": "seq",
            "mode": mode,
            "file": fidx,
            "ops": [list(o) for o in ops],
            "step": step,
            "got": got,
            "exp": exp,
            "msg": f"world file {text!r}, {mode} seam, step {step + 1} of {[o[0] + ' ' + atom_text(*o[1:]) for o in ops]}: {what}"[:900],
        }

    for i, op in enumerate(ops):
        s2, changed = model_step(s, op)
        res = apply_op(world, op, mode)
        slot = op[2]
        shape = "none" if slot is None else "zero" if slot == "0" else "1char" if len(slot) == 1 else "dotted" if "." in slot else "multichar"
        names.add(f"{op[0]}:slot-{shape}:{'changes' if s2 != s else 'noop'}")
        names.add(f"form-{op[3]}")
        # removing an absent entry may raise KeyError (update_worldset swallows it) or do nothing: both leave the set alone
        allowed = ("ok",) if (changed or mode == "pmerge") else ("KeyError", "ok")
        if res not in allowed:
            return bad(i, f"{op[0]} {atom_text(*op[1:])} -> {res}, expected {' or '.join(allowed)}", got=[res], exp=sorted(s2)), names
        s = s2
        mem = sorted(str(a) for a in world)
        if mem != sorted(s):
            return bad(i, f"the set holds {mem!r}, expected exactly {sorted(s)!r}", got=mem, exp=sorted(s)), names
        if mode == "pmerge":
            flushed = flushed or changed
            got = file_lines(path)
            if not flushed:
                # nothing had to change yet: the file may be untouched (comments and all) or rewritten
                got = [l for l in got if not l.startswith(("#", "@"))]
            if sorted(got) != sorted(s):
                return bad(i, f"file holds {got!r}, expected exactly {sorted(s)!r}", got=got, exp=sorted(s)), names
    if mode == "api":
        try:
            world.flush()
        except Exception as e:
            return bad(len(ops) - 1, f"flush raised {type(e).__name__}: {e}", got=[], exp=sorted(s)), names
        got = file_lines(path)
        if sorted(got) != sorted(s):
            return bad(len(ops) - 1, f"after flush the file holds {got!r}, expected exactly {sorted(s)!r}", got=got, exp=sorted(s)), names
    try:
        again = sorted(str(a) for a in WorldFile(path, gid=os.getgid()))
    except Exception as e:
        again = [f"unparseable: {type(e).__name__}"]
    if again != sorted(s):
        return bad(len(ops) - 1, f"a fresh WorldFile parses {again!r}, expected {sorted(s)!r}", got=again, exp=sorted(s)), names
    return None, names


# crash sweep -------------------------------------------------------------------------------


def check_sweep(scr, fidx, op, only_plan=None):
    from verif import c24c30_sweep as sw
    from pkgcore.pkgsets.filelist import WorldFile

    path = os.path.join(scr.data, "world")

    def prepare():
        with open(path, "w", encoding="utf8") as f:
            f.write(FILES[fidx])

    def run():
        return apply_op(WorldFile(path, gid=os.getgid()), op, "pmerge")

    def observe():
        try:
            with open(path, encoding="utf8") as f:
                return f.read()
        except FileNotFoundError:
            return None

    old_text = FILES[fidx]
    status, value, events = sw.record(scr, prepare, run)
    desc = {"kind": "sweep", "file": fidx, "op": list(op)}
    if status != "ok" or value != "ok":
        # the operation itself fails without any fault: that is the sequence part's finding, there is no write to interrupt
        return [], {"sweep:operation-fails-without-fault": 1}, 0
    new_text = observe()
    viol, classes, n = [], {}, 0
    for plan in sw.plans(events, scr.nwrites):
        if only_plan is not None and list(plan) != list(only_plan):
            continue
        n += 1
        status, value, evs = sw.run_plan(scr, prepare, run, plan)
        text = observe()
        where = sw.describe(events, plan)
        if text == old_text:
            out = "old" if old_text != new_text else "old=new"
        elif text == new_text:
            out = "new"
        else:
            out = "NEITHER"
            viol.append(
                dict(desc, plan=list(plan), msg=f"world file {old_text!r}, {op[0]} {atom_text(*op[1:])} interrupted at {where}: file is {text!r}, neither the old text nor the new {new_text!r}"[:900])
            )
        if not sw.fired(status):
            viol.append(dict(desc, plan=list(plan), msg=f"engine: plan {plan} did not fire ({status})"))
        if plan[0] in sw.WRITE_FAULTS:
            # the process survived the failed write: a later fault-free update must give the complete new text
            sw.rerun(run)
            text2 = observe()
            if text2 != new_text:
                out += "+recovery-bad"
                viol.append(dict(desc, plan=list(plan), msg=f"world file {old_text!r}, {op[0]} {atom_text(*op[1:])}: after {where} a later fault-free update leaves {text2!r}, not the new {new_text!r}"[:900]))
        key = f"sweep:{sw.plan_class(events, plan)}:{out}"
        classes[key] = classes.get(key, 0) + 1
    return viol, classes, n


# ---------------------------------------------------------------------------------------------


def seq_space(tier, part):
    """part: ('single'|'pair'|'triple', file index, mode, first-op index) -> list of op lists"""
    kind, fidx, mode, i = part
    core = ops_of(core_atoms())
    full = ops_of(all_atoms())
    if kind == "single":
        return [[o] for o in full]
    if kind == "pair":
        if tier == "quick":
            return [[core[i], o] for o in core]
        return [[full[i], o] for o in core] + [[core[i % len(core)], o] for o in full if i < len(core) and o not in core]
    return [[core[i], o2, o3] for o2 in core for o3 in core]


def tasks(tier):
    out = []
    ncore = len(ops_of(core_atoms()))
    nfull = len(ops_of(all_atoms()))
    for fidx in range(len(FILES)):
        for mode in ("pmerge", "api"):
            out.append(("seq", tier, ("single", fidx, mode, 0)))
            for i in range(ncore if tier == "quick" else nfull):
                out.append(("seq", tier, ("pair", fidx, mode, i)))
    tri_files = (0, 4) if tier == "quick" else range(len(FILES))
    tri_modes = ("pmerge",) if tier == "quick" else ("pmerge", "api")
    for fidx in tri_files:
        for mode in tri_modes:
            for i in range(ncore):
                out.append(("seq", tier, ("triple", fidx, mode, i)))
    for fidx in range(len(FILES)):
        out.append(("sweep", tier, fidx))
    return out


def work(task):
    from verif import c24c30_sweep as sw

    sw.warm("pkgcore.pkgsets.filelist", "pkgcore.scripts.pmerge")
    base = tempfile.mkdtemp(dir="/dev/shm", prefix=f"verif-C30-{os.getpid()}-")
    evals = 0
    classes, viol, samples = {}, [], []
    counters = {"crash_points": 0, "crash_scenarios": 0}
    try:
        if task[0] == "seq":
            _, tier, part = task
            path = os.path.join(base, "world")
            seqs = seq_space(tier, part)
            for ops in seqs:
                evals += 1
                v, names = check_sequence(path, part[1], ops, part[2])
                names.add(f"len-{len(ops)}:{part[2]}")
                if v is not None:
                    viol.append(v)
                    names.add("MISMATCH")
                for k in names:
                    classes[k] = classes.get(k, 0) + 1
            samples = [{"file": FILES[part[1]], "mode": part[2], "ops": seqs[len(seqs) // 2]}]
        else:
            _, tier, fidx = task
            scr = sw.Scratch(base)
            ops = ops_of(core_atoms()) if tier == "quick" else ops_of(all_atoms())
            for op in ops:
                s = initial_entries(FILES[fidx])
                if not model_step(s, op)[1]:
                    continue  # nothing to remove: no flush happens
                v, c, n = check_sweep(scr, fidx, op)
                evals += n
                counters["crash_points"] += n
                counters["crash_scenarios"] += 1
                viol.extend(v)
                for k, x in c.items():
                    classes[k] = classes.get(k, 0) + x
            samples = [{"sweep_file": FILES[fidx], "op": ops[1]}]
    finally:
        shutil.rmtree(base, ignore_errors=True)
    # the runner keeps at most 40 candidates per task: put the ones no classifier explains first
    viol.sort(key=lambda v: any(f(v) for f in CLASSIFIERS.values()))
    return {"evals": evals, "classes": classes, "viol": viol, "samples": samples, "counters": counters}


def replay(case):
    from verif import c24c30_sweep as sw

    sw.warm("pkgcore.pkgsets.filelist", "pkgcore.scripts.pmerge")
    base = tempfile.mkdtemp(dir="/dev/shm", prefix=f"verif-C30-{os.getpid()}-")
    try:
        if case["kind"] == "seq":
            v, _ = check_sequence(os.path.join(base, "world"), case["file"], case["ops"], case["mode"])
            return [v["msg"]] if v else []
        scr = sw.Scratch(base)
        v, _, _ = check_sweep(scr, case["file"], case["op"], only_plan=case["plan"])
        return [x["msg"] for x in v]
    finally:
        shutil.rmtree(base, ignore_errors=True)


# ---------------------------------------------------------------------------------------------


def _slot_split(case):
    """WorldFile._modify iterates the slot *string*: 'a/b:12' is handled as 'a/b:1' and 'a/b:2' (and a '0' character as
    'no slot'). True only if the first diverging step is an operation with a multi-character slot S on package N and
    everything that differs from the expectation is N:S itself, N:<one character of S> or N (for a '0' in S), or the step
    failed on such a piece (invalid atom 'N:.' / nothing to remove)."""
    if case.get("kind") != "seq":
        return False
    op = case["ops"][case["step"]]
    name, slot = op[1], op[2]
    if slot is None or len(slot) < 2:
        return False
    pieces = {f"{name}:{slot}"} | {f"{name}:{c}" for c in slot if c != "0"} | ({name} if "0" in slot else set())
    got, exp = case.get("got") or [], case.get("exp") or []
    if len(got) == 1 and (got[0] in ("KeyError", "ok") or got[0].startswith("raised MalformedAtom")):
        if got[0] in ("KeyError", "ok"):
            return True  # remove: a piece was not there to remove / every piece was there although N:S was not
        return any(f"'{name}:{c}'" in got[0] for c in slot)
    if any(g.startswith(("raised", "unparseable")) for g in got):
        return False
    diff = set(got) ^ set(exp)
    return bool(diff) and diff <= pieces and len(got) == len(set(got))


CLASSIFIERS = {"slot-split-per-character": _slot_split}
