"""C31 the environment handed to the build daemon arrives exactly (E1 against the real bash daemon)."""

import itertools
import os
import shutil
import signal
import subprocess
import tempfile

PROPERTY = "C31"
LEVEL = "exploration"
ENGINE = "enum"
TECHNIQUE = (
    "exhaustive enumeration of environment values over a quoting-hostile character alphabet, each sent to a real "
    "spawned ebuild daemon through the three real transfer paths and read back NUL-delimited from the daemon's shell"
)
RULE = (
    "every string of bounded length over {a, space, ', \", \\, $, `, newline, tab, e-acute, n, !} (incl. the empty string) as a "
    "scalar value and as element 0 of a two-element list value (element 1 = the value at a fixed stride), under names of "
    "the shapes A<i> / _b<i> / Ab1x<i>, alternately exported and listed in PKGCORE_NONEXPORTED_VARS, is handed to a real "
    "EbuildProcessor daemon (a) inline by send_env (start_receiving_env bytes N), (b) by send_env through a file, "
    "(c) by _run_depend_like_phase('gen_metadata', N bytes). Up to 40 values travel in one environment; an environment "
    "that fails is bisected down to a minimal failing sub-environment (a single value unless values interact). The "
    "daemon-side shell then prints name, ${name@a}, element count and elements NUL-separated into a scratch file "
    "(sourced via a second 'start_receiving_env file' in the same phase subshell, resp. as the ebuild sourced by the "
    "depend phase); afterwards 'alive' must be answered inside the phase loop, the phase must finish with "
    "'phases succeeded' and 'alive' must be answered by the main loop. A class is (transport, quoting branch of the "
    "value, observed outcome). Histories: one mapping object (ebd.py hands one self.env to every phase) is transferred "
    "2-3 times over every sequence of {inline, file}; after each transfer values and export attributes are read back as "
    "above and the caller's mapping must be unchanged."
)
ASSUMPTIONS = [
    "the daemon is spawned exactly as EbuildProcessor.__init__ does (its environment holds only BASHRC, BASH_ENV, PATH and the two fd numbers, so bash runs in the POSIX locale); the Python side runs with its default UTF-8 text encoding (PEP 538/540 coercion), as under ./vcheck",
    "Excl: names that collide with the daemon's readonly variables (silently skipped by _generate_env_str by design) and empty lists are not in the alphabet",
    "Excl: values longer than 3 characters, lists longer than 2, characters outside the 12-character alphabet",
    "reading back happens before any phase function / environment save-reload runs (that filtering is C34's subject)",
    "an environment whose transfer raises, is not acknowledged, hangs (every daemon process asleep without CPU use for 30 s while an answer is awaited, or 600 s without answer twice), or leaves the channel unable to answer 'alive' counts as a violation for the minimal sub-environment that reproduces it on a fresh daemon",
    "stdout/stderr of the daemon are pointed at /dev/null (bash diagnostics of broken transfers would flood the log); they are not part of the protocol channel",
]
BOUNDS = {
    "quick": "157 values of length <=2 + 300 length-3 values at a fixed stride = 457 values x {scalar, list} x {inline, file}, "
    "and the 157 length<=2 values x {scalar, list} via gen_metadata; export flag alternates by index; whole environments of 4/63/65/100/300 KiB x {inline, file}",
    "thorough": "all 1885 values of length <=3 x {scalar, list} x {inline, file, gen_metadata} x both export-flag parities; same 12 histories x 3 variable sets; same payload sizes",
}

CHARS = ["a", " ", "'", '"', "\\", "$", "`", "\n", "\t", "é", "n", "!"]
NAME_SHAPES = ["A", "_b", "Ab1x"]
BATCH = 40
TIMEOUT = 600
TRANSPORTS = ("inline", "file", "metadata")


def values_upto(n):
    out = []
    for k in range(n + 1):
        out.extend("".join(t) for t in itertools.product(CHARS, repeat=k))
    return out


def universe(tier):
    if tier == "thorough":
        return values_upto(3)
    base = values_upto(2)
    l3 = ["".join(t) for t in itertools.product(CHARS, repeat=3)]
    pick = [l3[(i * len(l3)) // 300] for i in range(300)]
    return base + pick


def name_for(i):
    return NAME_SHAPES[i % 3] + str(i)


def make_var(u, i, kind, parity):
    """variable descriptor [name, kind, value, exported] for universe index i"""
    exported = (i + parity) % 2 == 0
    if kind == "scalar":
        return [name_for(i), "scalar", u[i], exported]
    return [name_for(i), "list", [u[i], u[(7 * i + 3) % len(u)]], exported]


def suspicious(var, transport):
    """Only steers batching (suspicious values travel alone so that dense failures do not cost a bisection each);
    the verdict never looks at this."""
    vals = [var[2]] if var[1] == "scalar" else var[2]
    for v in vals:
        if transport != "file" and not v.isascii():
            return True
        if var[1] == "list" and any(c in v for c in '$`"\\'):
            return True
        if var[1] == "scalar" and "'" in v and "\\" in v:
            return True
    return False


def tasks(tier):
    u = universe(tier)
    out = []
    n = len(u)
    parities = (0,) if tier == "quick" else (0, 1)
    for transport in TRANSPORTS:
        hi_all = n
        if tier == "quick" and transport == "metadata":
            hi_all = len(values_upto(2))
        for kind in ("scalar", "list"):
            for parity in parities:
                for lo in range(0, hi_all, BATCH):
                    out.append((tier, transport, kind, parity, lo, min(lo + BATCH, hi_all)))
    out += [(tier, "history", i) for i in range(len(histories()))]
    out += [(tier, "size", transport, kb) for transport in ("inline", "file") for kb in SIZES_KB]
    return out


# ------------------------------------------------------------------ daemon handling


class _Timeout(BaseException):
    pass


def _alarm(signum, frame):
    raise _Timeout()


def _group_state(pgid):
    """(states, cpu ticks) of all processes in process group pgid"""
    states, total = [], 0
    for d in os.listdir("/proc"):
        if not d.isdigit():
            continue
        try:
            with open(f"/proc/{d}/stat") as f:
                data = f.read()
        except OSError:
            continue
        fields = data[data.rfind(")") + 2 :].split()
        if int(fields[2]) == pgid:
            states.append(fields[0])
            total += int(fields[11]) + int(fields[12])
    return states, total


class Watchdog:
    """SIGALRM ticker that tells a stuck channel from a starved machine: it fires when every process of the peer's
    process group has been sleeping without consuming any CPU for IDLE seconds while we wait for it (a runnable but
    starved process is in state R, not S), or when the absolute cap is reached."""

    TICK, IDLE = 5, 30

    def __init__(self, pgid_fn, cap):
        self.pgid_fn, self.cap = pgid_fn, cap
        self.elapsed = self.idle = 0
        self.last = None
        self.reason = None

    def __enter__(self):
        self.old = signal.signal(signal.SIGALRM, self.tick)
        signal.setitimer(signal.ITIMER_REAL, self.TICK, self.TICK)
        return self

    def __exit__(self, *exc):
        signal.setitimer(signal.ITIMER_REAL, 0)
        signal.signal(signal.SIGALRM, self.old)
        return False

    def tick(self, signum, frame):
        self.elapsed += self.TICK
        if self.elapsed >= self.cap:
            self.reason = f"no answer within {self.cap}s"
            raise _Timeout()
        pgid = self.pgid_fn()
        if not pgid:
            return
        states, total = _group_state(pgid)
        if states and all(s in "SZ" for s in states) and total == self.last:
            self.idle += self.TICK
        else:
            self.idle = 0
        self.last = total
        if self.idle >= self.IDLE:
            self.reason = f"peer idle for {self.idle}s: every process of the peer sleeps, nobody is going to write"
            raise _Timeout()


class Ctx:
    """one scratch dir + one (lazily respawned) real daemon per work()/replay() call"""

    def __init__(self):
        self.dir = tempfile.mkdtemp(dir="/dev/shm", prefix=f"verif-C31-{os.getpid()}-")
        self.ebp = None
        self.spawns = 0
        self.recovered = 0

    def daemon(self):
        from pkgcore.ebuild import processor

        if self.ebp is None:
            # the constructor's handshake has no timeout of its own (a daemon that is killed from outside in the
            # middle of die() makes chuck_DyingInterrupt read EOF forever): bound it, retry once
            for attempt in (0, 1):
                null = os.open(os.devnull, os.O_RDWR)
                old = signal.signal(signal.SIGALRM, _alarm)
                signal.setitimer(signal.ITIMER_REAL, TIMEOUT, 5)
                try:
                    self.ebp = processor.EbuildProcessor(False, False, fd_pipes={1: null, 2: null})
                    break
                except (_Timeout, processor.ProcessingInterruption, processor.ProcessorError):
                    if attempt:
                        raise RuntimeError("could not spawn an ebuild daemon (engine/environment error)")
                finally:
                    signal.setitimer(signal.ITIMER_REAL, 0)
                    signal.signal(signal.SIGALRM, old)
                    os.close(null)
            processor.active_ebp_list.append(self.ebp)  # so pkgcore's own SIGTERM/atexit handlers reap it
            self.spawns += 1
        return self.ebp

    def defer_kill(self, on):
        """pkgcore answers a daemon-side die() by force-killing the whole daemon (chuck_DyingInterrupt). Spawning a
        daemon is by far the most expensive step here and the known size-prefix defect makes hundreds of transfers die,
        so while a transfer is being judged the kill is only *recorded*; afterwards recover() proves by handshake that
        the (subshell-isolated) main loop is still in sync, else the daemon is killed for real. The verdict of the
        transfer (it raised EbdError) is already fixed at that point."""
        ebp = self.ebp
        if ebp is None:
            return
        if on:
            ebp.shutdown_processor = lambda *a, **kw: None
        else:
            ebp.__dict__.pop("shutdown_processor", None)

    def recover(self):
        """After a failed transfer that did not kill the daemon: bring the channel back to the main loop without a
        respawn (spawning dominates the cost). 'clear_preloaded_eclasses' is only understood by the main loop (the
        phase loop dies on it), so its acknowledgement proves where the daemon is; anything unexpected -> kill."""
        ebp = self.ebp
        if ebp is None:
            return
        ok = False
        old = signal.signal(signal.SIGALRM, _alarm)
        signal.setitimer(signal.ITIMER_REAL, TIMEOUT, 5)
        try:
            try:
                if ebp.is_alive:
                    ebp.write("clear_preloaded_eclasses")
                    for _ in range(20):
                        if ebp.read().rstrip("\n") == "clear_preloaded_eclasses succeeded":
                            ebp.write("alive")
                            ok = ebp.expect("yep!")
                            break
            finally:
                signal.setitimer(signal.ITIMER_REAL, 0)
                signal.signal(signal.SIGALRM, old)
        except (_Timeout, Exception):
            ok = False
        if ok:
            from pkgcore.ebuild import processor

            if ebp not in processor.active_ebp_list:
                processor.active_ebp_list.append(ebp)
            self.recovered += 1
        else:
            self.kill()

    def kill(self):
        from pkgcore.ebuild import processor

        ebp, self.ebp = self.ebp, None
        if ebp is None:
            return
        processor.drop_ebuild_processor(ebp)
        ebp.__dict__.pop("shutdown_processor", None)
        try:
            ebp.shutdown_processor(force=True)
        except Exception:
            pass
        for f in (getattr(ebp, "ebd_write", None), getattr(ebp, "ebd_read", None)):
            try:
                f.close()
            except Exception:
                pass

    def close(self):
        self.kill()
        shutil.rmtree(self.dir, ignore_errors=True)


class _Pkg:
    """the attributes expected_ebuild_env reads from a package"""

    category = "cat"
    PF = P = "pkg-1"
    PN = "pkg"
    PV = "1"
    PR = "r0"
    PVR = "1"

    class ebuild:
        path = None

    def __init__(self, path):
        from pkgcore.ebuild.eapi import get_eapi

        self.eapi = get_eapi("8")
        self.ebuild = type("E", (), {"path": path})


def _probe_text(names, out):
    lines = ["{"]
    for n in names:
        lines.append(f"printf '%s\\0' {n} \"${{{n}@a}}\" \"${{#{n}[@]}}\" \"${{{n}[@]}}\"")
    lines.append(f"}} > '{out}'")
    return "\n".join(lines) + "\n"


def _parse_probe(data, names):
    """{name: (attrs, [elements])} from the NUL-separated probe output; None if malformed"""
    try:
        fields = data.decode("utf-8").split("\0")
    except UnicodeDecodeError:
        fields = data.decode("utf-8", "surrogateescape").split("\0")
    if fields and fields[-1] == "":
        fields.pop()
    res = {}
    i = 0
    try:
        while i < len(fields):
            name, attrs, cnt = fields[i], fields[i + 1], int(fields[i + 2])
            elems = fields[i + 3 : i + 3 + cnt]
            if len(elems) != cnt:
                return None
            res[name] = (attrs, elems)
            i += 3 + cnt
    except (IndexError, ValueError):
        return None
    return res


def build_env(vars_):
    env = {}
    nonexp = []
    for name, kind, val, exported in vars_:
        env[name] = list(val) if kind == "list" else val
        if not exported:
            nonexp.append(name)
    if nonexp:
        env["PKGCORE_NONEXPORTED_VARS"] = " ".join(nonexp)
    return env


def run_env(ctx, transport, vars_, timeout=None, env=None):
    """Send one environment to the real daemon and read it back.
    Returns (env_failure or None, {var index: message}, outcome tag).
    env: the caller's own mapping object (histories hand the same object over several times)."""
    ebp = ctx.daemon()
    assert not any(v[0] in ebp._readonly_vars for v in vars_), "alphabet name collides with a readonly variable"
    if env is None:
        env = build_env(vars_)
    out = os.path.join(ctx.dir, "out")
    probe = os.path.join(ctx.dir, "probe.ebuild")
    if os.path.exists(out):
        os.unlink(out)
    with open(probe, "w") as f:
        f.write(_probe_text([v[0] for v in vars_], out))

    failure = None
    timeout = timeout or TIMEOUT
    ctx.defer_kill(True)
    dog = Watchdog(lambda: ebp.pid, timeout)
    try:
        with dog:
            if transport in ("inline", "file"):
                ebp.write("process_ebuild probe")
                if not ebp.send_env(env, tmpdir=ctx.dir if transport == "file" else None):
                    failure = "send_env was not acknowledged with env_received"
                if failure is None:
                    ebp.write(f"start_receiving_env file {probe}")
                    if not ebp.expect("env_received"):
                        failure = "daemon did not acknowledge the read-back script after the transfer"
                if failure is None:
                    ebp.write("alive")
                    if not ebp.expect("yep!"):
                        failure = "phase loop did not answer 'alive' after the transfer"
                if failure is None:
                    ebp.write("shutdown_daemon")
                    if not ebp.expect("phases succeeded"):
                        failure = "phase did not end with 'phases succeeded'"
            else:
                env["PKGCORE_EBUILD_PHASES"] = ("pkg_setup",)
                env["PKGCORE_METADATA_KEYS"] = ("SLOT",)
                ebp._run_depend_like_phase(
                    "gen_metadata", _Pkg(probe), None, env=env, extra_commands={"key": lambda e, line=None: None}
                )
            if failure is None:
                ebp.write("alive")
                if not ebp.expect("yep!"):
                    failure = "main loop did not answer 'alive' after the transfer"
    except _Timeout:
        failure = (f"channel stuck ({dog.reason})",)
    except Exception as e:
        failure = f"{type(e).__name__}: {str(e).strip()[:160]}"
    ctx.defer_kill(False)
    if failure is not None:
        if isinstance(failure, tuple):
            failure = failure[0]
            ctx.kill()
        else:
            ctx.recover()

    per = {}
    seen = None
    if os.path.exists(out):
        with open(out, "rb") as f:
            seen = _parse_probe(f.read(), [v[0] for v in vars_])
    if seen is None:
        if failure is None:
            failure = "read-back output missing or malformed"
            ctx.recover()
        return failure, per, "transfer-failed"
    for idx, (name, kind, val, exported) in enumerate(vars_):
        want_vals = list(val) if kind == "list" else [val]
        want_attr = ("a" if kind == "list" else "") + ("x" if exported else "")
        got = seen.get(name)
        if got is None:
            per[idx] = f"{name} not reported by the daemon"
            continue
        attrs, elems = got
        if elems != want_vals:
            per[idx] = f"{name}: sent {want_vals!r} daemon has {elems!r}"
        elif "".join(sorted(attrs)) != want_attr:
            per[idx] = f"{name}: attributes {attrs!r} expected {want_attr!r} (exported={exported})"
    tag = "ok"
    if failure is not None:
        tag = "desync-after-transfer"
    elif per:
        tag = "value-differs" if any("sent" in m for m in per.values()) else "attr-differs"
    return failure, per, tag


def branch_of(var):
    if var[1] == "list":
        return "array"
    v = var[2]
    if v.isalnum():
        return "bare"
    if "'" not in v:
        return "squote"
    return "dollar-squote"


def mk_case(transport, vars_, msg):
    return {"transport": transport, "vars": [list(v) for v in vars_], "msg": msg}


def check_group(ctx, transport, vars_, classes, stats):
    """-> list of minimal failing cases inside this group"""
    failure, per, tag = run_env(ctx, transport, vars_)
    stats["envs"] += 1
    if failure is not None and failure.startswith("channel stuck (no answer within"):
        # the absolute cap was hit while the daemon was still busy (a starved machine): only a hang that shows again on
        # a fresh daemon counts. (The usual stuck channel is recognised much earlier: every daemon process idle.)
        failure, per, tag = run_env(ctx, transport, vars_)
        stats["envs"] += 1
        stats["timeouts_retried"] += 1
    if failure is None and not per:
        for v in vars_:
            k = f"{transport}:{branch_of(v)}:ok"
            classes[k] = classes.get(k, 0) + 1
        return []
    if len(vars_) == 1:
        k = f"{transport}:{branch_of(vars_[0])}:{tag}"
        classes[k] = classes.get(k, 0) + 1
        msg = "; ".join(filter(None, [per.get(0), failure]))
        return [mk_case(transport, vars_, f"[{transport}] {msg}")]
    if failure is None:
        # channel intact: the variables that differ are re-judged alone, the others were seen intact
        bad = sorted(per)
        cases = []
        for idx, v in enumerate(vars_):
            if idx not in per:
                k = f"{transport}:{branch_of(v)}:ok"
                classes[k] = classes.get(k, 0) + 1
        alone = []
        for idx in bad:
            alone.extend(check_group(ctx, transport, [vars_[idx]], classes, stats))
        if len(alone) < len(bad):
            # some variable only differs in company: report the group as the minimal reproducer found
            cases.append(mk_case(transport, vars_, f"[{transport}] only in combination: " + "; ".join(per[i] for i in bad)[:300]))
            stats["combination"] += 1
        return cases + alone
    mid = len(vars_) // 2
    left = check_group(ctx, transport, vars_[:mid], classes, stats)
    right = check_group(ctx, transport, vars_[mid:], classes, stats)
    if not left and not right:
        # both halves pass alone: either the values interact, or the failure was an incident of this daemon
        # (killed from outside, starved past the timeout). Only a failure that shows again on a fresh daemon is a case.
        ctx.kill()
        failure2, per2, _ = run_env(ctx, transport, vars_)
        stats["envs"] += 1
        if failure2 is None and not per2:
            stats["transient"] += 1
            return []
        stats["combination"] += 1
        return [mk_case(transport, vars_, f"[{transport}] only in combination: {failure2 or per2}")]
    return left + right


# ------------------------------------------------------------------ histories: the same mapping object sent repeatedly

HIST_VARSETS = [
    [["HA0", "scalar", "plain", True], ["_hb1", "scalar", "x y", False], ["Hc1x2", "list", ["a", "b c"], False], ["HA3", "list", ["q"], True]],
    [["HA0", "scalar", "a'b", False], ["_hb1", "scalar", "", False], ["Hc1x2", "scalar", "n", True]],
    [["HA0", "scalar", "only", False]],
]


def histories():
    return [list(h) for n in (2, 3) for h in itertools.product(("inline", "file"), repeat=n)]


def run_history(ctx, hist, vars_):
    """ebd.py hands one and the same env mapping to run_phase for every phase: transfer the same object along hist;
    after every transfer the daemon must show the reference values and export attributes and the caller's mapping
    must be what it was. -> list of messages"""
    env = build_env(vars_)
    reference = {k: (list(v) if isinstance(v, list) else v) for k, v in env.items()}
    msgs = []
    for step, transport in enumerate(hist):
        failure, per, tag = run_env(ctx, transport, vars_, env=env)
        if failure is not None and failure.startswith("channel stuck (no answer within"):
            failure, per, tag = run_env(ctx, transport, vars_, env=env)
        for i in sorted(per):
            msgs.append(f"transfer {step + 1} ({transport}) of the same mapping: {per[i]}")
        if failure:
            msgs.append(f"transfer {step + 1} ({transport}) of the same mapping: {failure}")
        if env != reference:
            gone = sorted(set(reference) - set(env))
            msgs.append(f"transfer {step + 1} ({transport}) changed the caller's mapping: missing {gone}, now {sorted(env)}")
        if failure:
            break  # the channel is gone; later transfers would only repeat that
    return msgs


def work_history(task):
    tier, _, idx = task
    hist = histories()[idx]
    classes = {}
    viol = []
    ctx = Ctx()
    try:
        for vars_ in HIST_VARSETS:
            msgs = run_history(ctx, hist, vars_)
            k = f"history:len{len(hist)}:{'ok' if not msgs else 'differs'}"
            classes[k] = classes.get(k, 0) + 1
            if msgs:
                viol.append({"transport": "history", "history": hist, "vars": vars_, "msg": "; ".join(msgs)[:500]})
        spawns = ctx.spawns
    finally:
        ctx.close()
    return {
        "evals": len(HIST_VARSETS),
        "classes": classes,
        "viol": viol,
        "keep_all_viol": True,
        "samples": [{"history": hist, "vars": HIST_VARSETS[0]}],
        "counters": {"environments_sent": len(hist) * len(HIST_VARSETS), "daemon_spawns": spawns, "histories": len(HIST_VARSETS)},
    }


SIZES_KB = (4, 63, 65, 100, 300)  # around and well past a pipe's 64 KiB capacity
_SIZE_UNIT = "a b'\"\\$`\n\té!x"


def size_vars(kb):
    n = kb * 1024
    big = (_SIZE_UNIT * (n // len(_SIZE_UNIT) + 1))[:n]
    return [["BIG1", "scalar", big, True], ["SMALL_before", "scalar", "s 1", False], ["BIG2", "list", [big[: n // 2], "x y"], False], ["SMALL_after", "scalar", "t", True]]


def work_size(task):
    tier, _k, transport, kb = task
    classes = {}
    stats = {"envs": 0, "combination": 0, "transient": 0, "timeouts_retried": 0}
    ctx = Ctx()
    try:
        vars_ = size_vars(kb)
        failure, per, tag = run_env(ctx, transport, vars_)
        stats["envs"] += 1
        if failure is not None and failure.startswith("channel stuck (no answer within"):
            failure, per, tag = run_env(ctx, transport, vars_)
            stats["envs"] += 1
        spawns, recovered = ctx.spawns, ctx.recovered
    finally:
        ctx.close()
    viol = []
    k = f"{transport}:payload-{'above' if kb >= 64 else 'below'}-64KiB:{'ok' if failure is None and not per else tag}"
    classes[k] = 1
    if failure is not None or per:
        msg = "; ".join(filter(None, [per.get(i, "")[:200] for i in sorted(per)] + [failure]))
        viol.append({"transport": transport, "size_kb": kb, "msg": f"[{transport}] environment of ~{kb} KiB: {msg}"[:600]})
    return {"evals": len(vars_), "classes": classes, "viol": viol, "keep_all_viol": True, "samples": [],
            "counters": {"environments_sent": stats["envs"], "daemon_spawns": spawns, "daemon_recoveries": recovered}}


def work(task):
    if task[1] == "history":
        return work_history(task)
    if task[1] == "size":
        return work_size(task)
    tier, transport, kind, parity, lo, hi = task
    u = universe(tier)
    classes = {}
    stats = {"envs": 0, "combination": 0, "transient": 0, "timeouts_retried": 0}
    viol = []
    ctx = Ctx()
    try:
        vars_ = [make_var(u, i, kind, parity) for i in range(lo, hi)]
        calm = [v for v in vars_ if not suspicious(v, transport)]
        if calm:
            viol.extend(check_group(ctx, transport, calm, classes, stats))
        for v in vars_:
            if suspicious(v, transport):
                viol.extend(check_group(ctx, transport, [v], classes, stats))
        spawns, recovered = ctx.spawns, ctx.recovered
    finally:
        ctx.close()
    return {
        "evals": len(vars_),
        "classes": classes,
        "viol": viol,
        "keep_all_viol": True,
        "samples": [{"transport": transport, "var": vars_[0]}],
        "counters": {"environments_sent": stats["envs"], "daemon_spawns": spawns, "daemon_recoveries": recovered, "combination_only_cases": stats["combination"], "transient_group_failures": stats["transient"], "timeouts_retried": stats["timeouts_retried"]},
    }


def replay(case):
    if case.get("history"):
        ctx = Ctx()
        try:
            return run_history(ctx, case["history"], [list(v) for v in case["vars"]])
        finally:
            ctx.close()
    ctx = Ctx()
    try:
        vars_ = [tuple(v) for v in (size_vars(case["size_kb"]) if "size_kb" in case else case["vars"])]
        failure, per, tag = run_env(ctx, case["transport"], vars_)
        if failure is not None and failure.startswith("channel stuck (no answer within"):
            failure, per, tag = run_env(ctx, case["transport"], vars_)
    finally:
        ctx.close()
    msgs = [per[i] for i in sorted(per)]
    if failure:
        msgs.append(failure)
    return [f"[{case['transport']}] " + m[:300] for m in msgs]


def SETUP(tier):
    """the depend phase sources .generated/libs/<EAPI>/global (git-ignored build output); build it in scratch trees"""
    root = os.environ.get("VERIF_PKGCORE_ROOT", "/repo")
    ebd = os.path.join(root, "data/lib/pkgcore/ebd")
    if not os.path.exists(os.path.join(ebd, ".generated/libs/8/global")):
        subprocess.run(
            ["make", "-s", "-C", ebd, "PYTHON=/venv/bin/python"], check=True, stdout=subprocess.DEVNULL, stderr=subprocess.DEVNULL
        )


# ------------------------------------------------------------------ known-defect classifiers (narrow)


def _single(case):
    return case["vars"][0] if len(case.get("vars") or ()) == 1 else None


def _vals(var):
    return [var[2]] if var[1] == "scalar" else list(var[2])


def _c_scalar_quote_backslash(case):
    """one scalar whose value holds both a single quote and a backslash: $'..' quoting escapes ' but not \\"""
    v = _single(case)
    return bool(v) and v[1] == "scalar" and "'" in v[2] and "\\" in v[2]


def _c_list_metachar(case):
    """one list with an element holding $, `, \" or \\: elements are only wrapped in double quotes"""
    v = _single(case)
    return bool(v) and v[1] == "list" and any(c in e for e in v[2] for c in '$`"\\')


def _c_nonascii_count(case):
    """byte-counted transports (inline send_env, gen_metadata/gen_ebuild_env) with a non-ASCII value: the announced
    size is a character count, the daemon's read -N counts bytes in its POSIX locale"""
    v = _single(case)
    return bool(v) and case["transport"] in ("inline", "metadata") and any(not e.isascii() for e in _vals(v))


CLASSIFIERS = {
    "scalar-single-quote-with-backslash": _c_scalar_quote_backslash,
    "list-element-shell-metachar": _c_list_metachar,
    "size-prefix-counts-characters": _c_nonascii_count,
}
