"""C32 every IPC helper request gets exactly one truthful single-line reply (real bash __ebd_ipc_cmd <-> real IpcCommand classes)."""

import errno
import os
import shutil
import signal
import stat
import subprocess
import tempfile

PROPERTY = "C32"
LEVEL = "exploration"
ENGINE = "enum"
LEVEL_NOTE = "exploration combined with a single-fault sweep (E3 audit-hook injector): counters fault_points / faulted_sessions / faults_fired report the sweep"
TECHNIQUE = (
    "exhaustive enumeration of helper request shapes, each issued by the real bash __ebd_ipc_cmd over pipes to the real "
    "EbuildProcessor.generic_handler + IpcCommand classes, plus single-errno fault injection (audit hook) on every "
    "filesystem event of the helper; judged by reply framing, image contents and a sentinel request"
)
RULE = (
    "one session = one real bash process that sources exit-handling / ebuild-daemon-lib / isolated-functions / eapi "
    "depend+common (the set pkgcore-ipc-helper sources) and issues, in a subshell each, the request under test, then (for "
    "the install/dir/link helpers, which keep installer state per instance) a plain valid follow-up request to the same "
    "helper, then a sentinel 'dodir /sentinel' through the real __ebd_ipc_cmd (has_version/best_version through their real "
    "eapi/0/phase.bash wrappers; 'script' sessions run the real helpers/common/pkgcore-ipc-helper with the real helper "
    "script instead), ending with 'phases succeeded'. The Python peer is a real EbuildProcessor object bound to the "
    "harness pipes whose real generic_handler dispatches to the 24 real ebd_ipc helper instances (fake op: FakePkg EAPI 8 (EAPI 5 for the unpack absolute-path variants), "
    "image dir/T/DISTDIR on tmpfs, recording observer); an IpcError leaving generic_handler is answered exactly as "
    "run_generic_phase does (ebd.write(e.ret), then the shutdown handshake reads the channel). Enumerated: every helper x "
    "request variant (valid, second valid shape, missing source / no argument, directory without -r, unknown option, "
    "recursive, two sources ...) x nonfatal {true,false} x insoptions/diroptions {absent, -m0644|-m0750, '-m u+x' "
    "(external install fallback), --bogus}, plus image states found in place (the directory to create / to install into "
    "already exists as a file, a symlink to a file, a directory) and obstructed installs (a directory at a file's "
    "destination of a -r request, a file at a symlink's destination on the fallback path) whose follow-ups, after the "
    "obstacle is removed, repeat the recursive / fallback request; then for every fault-free session every mutating filesystem event k of the "
    "request under test fails once with EIO (thorough: also EACCES, and all pairs k1<k2 with EIO). A class is "
    "(helper group, observed outcome, faulted?)."
)
ASSUMPTIONS = [
    "truth oracle: fault-free sessions of variants with a defined effect demand status 0 <=> the image (or work dir / T / helper state / echoed answer) shows exactly the requested entry with the source's bytes (and the mode for -m0644/-m0750); faulted sessions and 'unknown option' variants demand only status 0 => effect present (a fault may leave the effect in place by luck)",
    "Excl: 'directory argument without -r' has no agreed effect for doins-like helpers (PMS silent): only framing, synchronisation and nonfatal/fatal behaviour are judged there",
    "Excl: arguments containing newlines or leading/trailing blanks, a working directory containing blanks (request framing of __ebd_ipc_cmd itself), non-ASCII paths",
    "an IpcInternalError (unexpected exception inside a helper) is answered with a failure reply and the daemon is killed by run_generic_phase for nonfatal requests too; judged only as: one reply, status not 0",
    "fatal failure = the requesting subshell calls die (dying ... dead on the channel) and the Python side leaves generic_handler with the IpcCommandError; nonfatal failure = non-zero status + the message on the helper's stderr, and the sentinel still gets its own reply",
    "faults are injected into the Python helper only (audit events open-for-write, mkdir, symlink, link, chmod, chown, utime, remove, rename, shutil.copyfile under the scratch root); the external install/tar/patch commands are one opaque action",
    "filesystem placement details beyond 'the requested entry exists at the destination the request named' belong to C33",
]
BOUNDS = {
    "quick": "24 helpers (+6 of them again through the real pkgcore-ipc-helper + helper script): 614 fault-free sessions "
    "(request under test incl. image states found in place and obstructed recursive/symlink installs, valid follow-up(s) "
    "to the same helper where it keeps installer state, sentinel) + one EIO on every helper filesystem event of the "
    "request under test of each of them (2242 fault points); ~5.8 k requests answered",
    "thorough": "same sessions + EACCES on every event + every pair k1<k2 of EIO faults",
}

TIMEOUT = 600
FILE_DATA = b"payload-f\n"

# ------------------------------------------------------------------ request alphabet

# install-wrapper helpers taking files: name -> (source file, --dest, destination of the source below ED)
IW = {
    "doins": ("f.txt", "/usr/share/x", "usr/share/x/f.txt"),
    "doexe": ("f.txt", "/opt/bin", "opt/bin/f.txt"),
    "dobin": ("f.txt", "/usr/bin", "usr/bin/f.txt"),
    "dosbin": ("f.txt", "/usr/sbin", "usr/sbin/f.txt"),
    "dolib": ("lib.so", "/usr/lib", "usr/lib/lib.so"),
    "dolib.so": ("lib.so", "/usr/lib", "usr/lib/lib.so"),
    "dolib.a": ("lib.a", "/usr/lib", "usr/lib/lib.a"),
    "doinfo": ("x.info", "/usr/share/info", "usr/share/info/x.info"),
    "dodoc": ("f.txt", "/usr/share/doc/pkg-1", "usr/share/doc/pkg-1/f.txt"),
    "dohtml": ("x.html", "/usr/share/doc/pkg-1/html", "usr/share/doc/pkg-1/html/x.html"),
    "doman": ("x.1", "/usr/share/man", "usr/share/man/man1/x.1"),
    "domo": ("de.mo", "/usr/share/locale", "usr/share/locale/de/LC_MESSAGES/pkg.mo"),
}
RECURSIVE = {
    "doins": "usr/share/x/d/inner.txt",
    "dodoc": "usr/share/doc/pkg-1/d/inner.txt",
    "dohtml": "usr/share/doc/pkg-1/html/d/inner.html",
}
IGNORES_INSOPTIONS = {"dobin", "dosbin"}  # Dobin.parse_install_options replaces the caller's insoptions
OPTMODES = ("absent", "octal", "mux", "bogus")
FILE_OPT = {"octal": "-m0644", "mux": "-m u+x", "bogus": "--bogus", "notarget": "-T"}
DIR_OPT = {"octal": "-m0750", "mux": "-m u+x", "bogus": "--bogus"}
SCRIPT_HELPERS = ("doins", "dodoc", "doexe", "dodir", "keepdir", "dosym")

GROUP = {
    **{h: "install" for h in IW},
    "dodir": "dir",
    "keepdir": "dir",
    "dosym": "link",
    "dohard": "link",
    "has_version": "query",
    "best_version": "query",
    "unpack": "unpack",
    "eapply": "patch",
    "eapply_user": "patch",
    "docompress": "alter",
    "dostrip": "alter",
    "filter_env": "filter",
}


def variants_of(helper):
    """(variant, optmode) combinations enumerated for a helper"""
    out = []
    if helper in IW:
        for om in OPTMODES:
            out.append(("valid", om))
            out.append(("two", om))
        if helper in RECURSIVE:
            for om in OPTMODES:
                out.append(("recursive", om))
        out += [("missing", "absent"), ("dir-no-r", "absent"), ("unknown-option", "absent"), ("missing", "mux")]
        # image states found in place: the directory the file goes into already exists as a file / symlink to a file / dir
        out += [("valid@file", "absent"), ("valid@link", "absent"), ("valid@dir", "absent")]
        if helper in RECURSIVE:
            out.append(("recursive-obstructed", "absent"))
        if helper in RECURSIVE or helper == "doexe":
            out.append(("symlink-obstructed", "mux"))
        if helper in ("doexe", "doinfo", "dolib.a"):
            # several targets through the external fallback (-T is unknown to the native option parser), one of them
            # (a directory) rejected by `install`: sorting before resp. after the target that installs fine
            out += [("fallback-dir-first", "notarget"), ("fallback-dir-last", "notarget")]
    elif helper in ("dodir", "keepdir"):
        for om in OPTMODES:
            out.append(("valid", om))
            out.append(("two", om))
        out += [("no-args", "absent"), ("unknown-option", "absent")]
        # the requested path already exists in the image as a file / symlink to a file / directory
        out += [("valid@file", "absent"), ("valid@link", "absent"), ("valid@dir", "absent"), ("valid@file", "octal")]
    elif helper == "dosym":
        out = [("valid", "absent"), ("relative", "absent"), ("overwrite", "absent"), ("trailing-slash", "absent"), ("no-args", "absent")]
    elif helper == "dohard":
        out = [("valid", "absent"), ("absolute-source", "absent"), ("missing", "absent"), ("no-args", "absent")]
    elif helper in ("has_version", "best_version"):
        out = [("valid", "absent"), ("absent-pkg", "absent"), ("bad-atom", "absent"), ("no-args", "absent"), ("valid-r", "absent")]
    elif helper == "unpack":
        out = [("valid", "absent"), ("missing", "absent"), ("empty-file", "absent"), ("unrecognized", "absent"), ("corrupt", "absent")]
        # the same errors for names without an archive suffix; an absolute path where the EAPI forbids it
        out += [("missing-nosuffix", "absent"), ("empty-nosuffix", "absent"), ("absolute-eapi5", "absent"), ("absolute-tar-eapi5", "absent")]
    elif helper == "eapply":
        out = [("valid", "absent"), ("missing", "absent"), ("does-not-apply", "absent"), ("dir", "absent"), ("empty-dir", "absent")]
    elif helper == "eapply_user":
        out = [("valid", "absent"), ("extra-arg", "absent")]
    elif helper in ("docompress", "dostrip"):
        out = [("valid", "absent"), ("exclude", "absent"), ("no-args", "absent"), ("unknown-option", "absent")]
    elif helper == "filter_env":
        out = [("valid", "absent"), ("missing", "absent"), ("one-file", "absent")]
    return out


def all_sessions():
    """fault-free session specs, simplest first"""
    out = []
    helpers = list(GROUP)
    for helper in helpers:
        for variant, om in variants_of(helper):
            for nonfatal in (True, False):
                out.append({"mode": "ipc", "helper": helper, "variant": variant, "optmode": om, "nonfatal": nonfatal, "fault": None})
    for helper in SCRIPT_HELPERS:
        oms = OPTMODES if helper not in ("dosym", "dodoc") else ("absent",)  # the dodoc script passes no insoptions
        for om in oms:
            variants = ["valid", "missing" if helper not in ("dodir", "keepdir", "dosym") else "no-args"]
            if helper in ("dodir", "keepdir"):
                variants += ["valid@file", "valid@link"]
            for variant in variants:
                if variant != "valid" and om != "absent":
                    continue
                for nonfatal in (True, False):
                    out.append({"mode": "script", "helper": helper, "variant": variant, "optmode": om, "nonfatal": nonfatal, "fault": None})
    return out


def tasks(tier):
    ss = all_sessions()
    keys = []
    for s in ss:
        k = (tier, s["mode"], s["helper"], s["nonfatal"])
        if k not in keys:
            keys.append(k)
    return keys


def build_request(spec):
    """-> dict(cmd, opts, args, env, effect=(kind, ...), expect) describing the request and its reference effect.
    expect: 'ok' (must succeed fault-free), 'fail' (cannot succeed), 'any' (unspecified; one-directional oracle)"""
    h, v, om = spec["helper"], spec["variant"], spec["optmode"]
    v, _, found = v.partition("@")  # "<variant>@<what is found in place in the image>"
    script = spec["mode"] == "script"
    env = {}
    opts = []
    args = []
    effect = ("none",)
    expect = "ok"
    pre = []  # entries put into the image before the session: ("file"|"dir", rel) / ("link", rel, rel target)
    cleanup = None  # shell command run between the request under test and the follow-ups
    fols = None  # follow-up requests replacing the plain one
    eapi = "8"
    if h in IW:
        src, dest, rel = IW[h]
        mode = None
        if om != "absent":
            if script:
                env["EXEOPTIONS" if h == "doexe" else "INSOPTIONS"] = FILE_OPT[om]
            else:
                opts.append(f'--insoptions="{FILE_OPT[om]}"')
            if om == "octal" and h not in IGNORES_INSOPTIONS:
                mode = 0o644
        if script:
            env.update({"PKGCORE_INSDESTTREE": "/usr/share/x", "PKGCORE_EXEDESTTREE": "/opt/bin", "PKGCORE_DOCDESTTREE": ""})
            if h == "doins":
                env.setdefault("INSOPTIONS", "-m0644")  # what the daemon's default environment carries
                mode = 0o644 if om in ("absent", "octal") else None
        else:
            opts.insert(0, f'--dest="{dest}"')
        files = [(rel, src, mode)]
        if v == "valid":
            args = [src]
        elif v == "two":
            src2 = {"x.1": "y.1", "de.mo": "fr.mo", "x.html": "y.html"}.get(src, "g.txt" if src != "x.html" else "y.html")
            rel2 = os.path.join(os.path.dirname(rel), src2)
            if h == "domo":
                rel2 = "usr/share/locale/fr/LC_MESSAGES/pkg.mo"
            args = [src, src2]
            files.append((rel2, src2, mode))
        elif v == "recursive":
            args = ["-r", "d"]
            files = [(RECURSIVE[h], "d/inner.html" if h == "dohtml" else "d/inner.txt", mode)]
        elif v == "missing":
            args = ["nonexistent.txt"]
            files = [(os.path.join(os.path.dirname(rel), "nonexistent.txt"), None, None)]
            expect = "fail"
        elif v == "dir-no-r":
            args = ["d"]
            expect = "unspecified"
            files = []
        elif v == "unknown-option":
            args = ["-Z", src]
            expect = "any"
        elif v in ("fallback-dir-first", "fallback-dir-last"):
            dname = "d" if v == "fallback-dir-first" else "zd"  # destinations are installed in sorted order
            args = [src, dname] if v == "fallback-dir-first" else [dname, src]
            files.append((os.path.join(os.path.dirname(rel), dname), None, None))  # `install` cannot install a directory
            expect = "fail"
        elif v == "recursive-obstructed":
            # a directory sits where a file of the tree has to go; afterwards the obstacle is removed and the same
            # recursive request, then one forced through the external install fallback, must work
            args = ["-r", "d"]
            inner = "d/inner.html" if h == "dohtml" else "d/inner.txt"
            files = [(RECURSIVE[h], inner, mode)]
            pre = [("dir", RECURSIVE[h])]
            expect = "any"
            cleanup = f'rmdir "${{ED}}/{RECURSIVE[h]}"'
            src2 = "y.html" if h == "dohtml" else "g.txt"
            rel2 = os.path.join(os.path.dirname(rel), src2)
            fols = [
                {"cmd": h, "opts": f'--dest="{dest}"', "args": ["-r", "d"], "effect": ("files", [(RECURSIVE[h], inner, None)])},
                {"cmd": h, "opts": f'--dest="{dest}" --insoptions="-m u+x"', "args": [src2], "effect": ("files", [(rel2, src2, None)])},
            ]
        elif v == "symlink-obstructed":
            # a symlink source goes through install_symlinks (external fallback); its destination is occupied
            lnk, target = ("lnk.html", "x.html") if h == "dohtml" else ("lnk.txt", "f.txt")
            lrel = os.path.join(os.path.dirname(rel), lnk)
            args = [lnk]
            files = []
            pre = [("file", lrel)]
            expect = "any"
            cleanup = f'rm -f "${{ED}}/{lrel}"'
            fols = [{"cmd": h, "opts": " ".join(opts), "args": [lnk], "effect": ("symlink", lrel, target)}]
            if h in RECURSIVE:
                inner = "d/inner.html" if h == "dohtml" else "d/inner.txt"
                fols.append({"cmd": h, "opts": f'--dest="{dest}"', "args": ["-r", "d"], "effect": ("files", [(RECURSIVE[h], inner, None)])})
        effect = ("files", files)
        if v == "symlink-obstructed":
            effect = ("symlink", lrel, target)
        if found:
            # the directory the file goes into is found as a regular file / a symlink to one / a directory
            parent = os.path.dirname(rel)
            pre = [{"file": ("file", parent), "link": ("link", parent, "pre/file"), "dir": ("dir", parent)}[found]]
            if found != "dir":
                expect = "fail"
                cleanup = f'rm -f "${{ED}}/{parent}"'  # the plain follow-up goes to the same directory: clear the way
        if om == "bogus" and h not in IGNORES_INSOPTIONS and expect == "ok":
            expect = "fail"  # `install --bogus` cannot install anything
    elif h in ("dodir", "keepdir"):
        mode = None
        if om != "absent":
            if script:
                env["DIROPTIONS"] = DIR_OPT[om]
            else:
                opts.append(f'--diroptions="{DIR_OPT[om]}"')
            if om == "octal":
                mode = 0o750
        dirs = ["var/d1"]
        if v == "valid":
            args = ["/var/d1"]
        elif v == "two":
            args = ["/var/d1", "/var/d2/sub"]
            dirs.append("var/d2/sub")
        elif v == "no-args":
            args = []
            expect = "fail"
        elif v == "unknown-option":
            args = ["-Z", "/var/d1"]
            expect = "any"
        effect = ("dirs", [(d, mode) for d in dirs], h == "keepdir")
        if found:
            pre = [{"file": ("file", "var/d1"), "link": ("link", "var/d1", "pre/file"), "dir": ("dir", "var/d1")}[found]]
            if found != "dir":
                expect = "fail"  # a directory cannot be created where a file is
        if om == "bogus" and expect == "ok":
            expect = "fail"
    elif h == "dosym":
        link = "usr/bin/link"
        if v == "valid":
            args, effect = ["/usr/share/x/f.txt", "/usr/bin/link"], ("symlink", link, "/usr/share/x/f.txt")
        elif v == "relative":
            args, effect = ["-r", "/usr/share/x/f.txt", "/usr/bin/link"], ("symlink", link, "../share/x/f.txt")
        elif v == "overwrite":
            args, effect = ["/new/target", "/pre/oldlink"], ("symlink", "pre/oldlink", "/new/target")
        elif v == "trailing-slash":
            args, effect, expect = ["/usr/share/x/f.txt", "/usr/bin/"], ("symlink", "usr/bin", "/usr/share/x/f.txt"), "fail"
        elif v == "no-args":
            args, effect, expect = [], ("symlink", link, None), "fail"
    elif h == "dohard":
        if v == "valid":
            args, effect = ["pre/file", "/pre/hard"], ("hardlink", "pre/hard", "pre/file")
        elif v == "absolute-source":
            args, effect, expect = ["/pre/file", "/pre/hard"], ("hardlink", "pre/hard", "pre/file"), "any"
        elif v == "missing":
            args, effect, expect = ["pre/nonexistent", "/pre/hard"], ("hardlink", "pre/hard", "pre/file"), "fail"
        elif v == "no-args":
            args, effect, expect = [], ("hardlink", "pre/hard", "pre/file"), "fail"
    elif h in ("has_version", "best_version"):
        a = {"valid": ["cat/inst"], "valid-r": ["-r", ">=cat/inst-1"], "absent-pkg": ["cat/none"], "bad-atom": ["!!not an atom"], "no-args": []}[v]
        args = a
        if h == "has_version":
            effect = ("status-is-answer", v in ("valid", "valid-r"))
            expect = "ok" if v in ("valid", "valid-r") else "fail"
        else:
            effect = ("stdout", "cat/inst-2" if v in ("valid", "valid-r") else "")
            expect = "ok" if v in ("valid", "valid-r", "absent-pkg") else "fail"
    elif h == "unpack":
        args = {
            "valid": ["a.tar"], "missing": ["nonexistent.tar"], "empty-file": ["empty.tar"], "unrecognized": ["plain.bin"],
            "corrupt": ["corrupt.tar"], "missing-nosuffix": ["missing.txt"], "empty-nosuffix": ["empty.txt"],
            "absolute-eapi5": ["/abs/path.txt"], "absolute-tar-eapi5": ["/abs/path.tar"],
        }[v]  # fmt: skip
        effect = ("workfile", "t/u", b"unpacked\n")
        expect = "ok" if v == "valid" else "fail"
        if v.endswith("eapi5"):
            eapi = "5"  # absolute paths are only allowed from EAPI 6 on
        if v == "unrecognized":
            effect, expect = ("none",), "ok"  # PMS: files of an unrecognised type are skipped, not an error
    elif h == "eapply":
        args = {"valid": ["p.patch"], "missing": ["nonexistent.patch"], "does-not-apply": ["bad.patch"], "dir": ["patches"], "empty-dir": ["d"]}[v]
        effect = ("workfile", "target.txt", b"line1\nCHANGED\nline3\n")
        expect = "ok" if v in ("valid", "dir") else "fail"
    elif h == "eapply_user":
        args = [] if v == "valid" else ["surplus"]
        effect = ("tfile", ".user_patches_applied")
        expect = "ok" if v == "valid" else "fail"
    elif h in ("docompress", "dostrip"):
        args = {"valid": ["/usr/share/x"], "exclude": ["-x", "/usr/share/x"], "no-args": [], "unknown-option": ["-Z", "/usr/share/x"]}[v]
        effect = ("helper-set", "excludes" if v == "exclude" else "includes", "/usr/share/x")
        expect = {"valid": "ok", "exclude": "ok", "no-args": "fail", "unknown-option": "any"}[v]
    elif h == "filter_env":
        args = ["-v", "FOO"] + {"valid": ["env.in", "env.out"], "missing": ["nonexistent.in", "env.out"], "one-file": ["env.in"]}[v]
        effect = ("filtered", "env.out", b"BAR=2", b"FOO")
        expect = "ok" if v == "valid" else "fail"
    return {
        "cmd": h, "opts": " ".join(opts), "args": args, "env": env, "effect": effect, "expect": expect,
        "pre": pre, "cleanup": cleanup, "fols": fols, "eapi": eapi,
    }  # fmt: skip


def build_followups(spec, req):
    """valid requests to the *same* helper instance, issued after the request under test (ipc sessions of the helpers
    that keep per-instance installer state): the variant's own list, else one plain request; [] for the others"""
    if spec["mode"] != "ipc":
        return []
    if req["fols"] is not None:
        return list(req["fols"])
    f = build_followup(spec)
    return [f] if f is not None else []


def build_followup(spec):
    h = spec["helper"]
    if h in IW:
        two = build_request(dict(spec, variant="two", optmode="absent"))
        rel2, src2, _ = two["effect"][1][1]
        return {"cmd": h, "opts": f'--dest="{IW[h][1]}"', "args": [src2], "effect": ("files", [(rel2, src2, None)])}
    if h in ("dodir", "keepdir"):
        return {"cmd": h, "opts": "", "args": ["/var/f1"], "effect": ("dirs", [("var/f1", None)], h == "keepdir")}
    if h == "dosym":
        return {"cmd": h, "opts": "", "args": ["/t2", "/usr/bin/link2"], "effect": ("symlink", "usr/bin/link2", "/t2")}
    if h == "dohard":
        return {"cmd": h, "opts": "", "args": ["pre/file", "/pre/hard2"], "effect": ("hardlink", "pre/hard2", "pre/file")}
    return None


# ------------------------------------------------------------------ scratch world

DRIVER = r"""#!/bin/bash
# one session: the requests listed in ${VERIF_SPEC} (NUL separated records: tag mode cmd opts nargs args...), each in
# its own subshell like a helper process, then end of phase
export PKGCORE_EBD_PATH
export PKGCORE_NONFATAL=$1 EBUILD_PHASE=$2
source "${PKGCORE_EBD_PATH}"/exit-handling.bash || exit 97
source "${PKGCORE_EBD_PATH}"/ebuild-daemon-lib.bash || exit 97
source "${PKGCORE_EBD_PATH}"/isolated-functions.bash || exit 97
source "${PKGCORE_EBD_PATH}"/eapi/depend.bash >&2 || exit 97
source "${PKGCORE_EBD_PATH}"/eapi/common.bash >&2 || exit 97
source "${PKGCORE_EBD_PATH}"/eapi/0/phase.bash >&2 || exit 97
cd "${VERIF_CWD}" || exit 98
one() {
	local tag=$1; shift
	(
		"$@"
		echo "${tag} returned $?" >> "${VERIF_STATUS}"
	) >> "${VERIF_STATUS}.${tag}.out" 2>> "${VERIF_STATUS}.${tag}.err"
	grep -q "^${tag} returned" "${VERIF_STATUS}" 2>/dev/null || { echo "${tag} died" >> "${VERIF_STATUS}"; return 1; }
	return 0
}
ipc_helper="${PKGCORE_EBD_PATH}/helpers/common/pkgcore-ipc-helper"
mapfile -d '' -t F < "${VERIF_SPEC}"
i=0
while (( i < ${#F[@]} )); do
	tag=${F[i]} mode=${F[i+1]} cmd=${F[i+2]} opts=${F[i+3]} n=${F[i+4]}
	args=( "${F[@]:i+5:n}" )
	i=$(( i + 5 + n ))
	case ${mode} in
		script)
			if [[ ${tag} == sentinel ]]; then
				DIROPTIONS= one ${tag} "${ipc_helper}" "${PKGCORE_EBD_PATH}/helpers/0/src_install/${cmd}" "${args[@]}"
			else
				one ${tag} "${ipc_helper}" "${PKGCORE_EBD_PATH}/helpers/0/src_install/${cmd}" "${args[@]}"
			fi ;;
		sh) ( eval "${cmd}" ) >/dev/null 2>&1; continue ;;
		fn) one ${tag} "${cmd}" "${args[@]}" ;;
		*) one ${tag} __ebd_ipc_cmd "${cmd}" "${opts}" "${args[@]}" ;;
	esac || exit 0
	:
done
__ebd_write_line "phases succeeded"
exit 0
"""

PATCH = b"--- a/target.txt\n+++ b/target.txt\n@@ -1,3 +1,3 @@\n line1\n-line2\n+CHANGED\n line3\n"
BAD_PATCH = b"--- a/target.txt\n+++ b/target.txt\n@@ -1,3 +1,3 @@\n other1\n-other2\n+CHANGED\n other3\n"


class _Timeout(BaseException):
    pass


def _alarm(signum, frame):
    raise _Timeout()


def _group_state(pgid):
    """(states, cpu ticks) of all processes in process group pgid"""
    states, total = [], 0
    for d in os.listdir("/proc"):
        if not d.isdigit():
            continue
        try:
            with open(f"/proc/{d}/stat") as f:
                data = f.read()
        except OSError:
            continue
        fields = data[data.rfind(")") + 2 :].split()
        if int(fields[2]) == pgid:
            states.append(fields[0])
            total += int(fields[11]) + int(fields[12])
    return states, total


class Watchdog:
    """SIGALRM ticker that tells a stuck channel from a starved machine: it fires when every process of the peer's
    process group has been sleeping without consuming any CPU for IDLE seconds while we wait for it (a runnable but
    starved process is in state R, not S), or when the absolute cap is reached."""

    TICK, IDLE = 5, 30

    def __init__(self, pgid_fn, cap, waiting_fn=None):
        self.pgid_fn, self.cap = pgid_fn, cap
        self.waiting_fn = waiting_fn
        self.elapsed = self.idle = 0
        self.last = None
        self.reason = None

    def __enter__(self):
        self.old = signal.signal(signal.SIGALRM, self.tick)
        signal.setitimer(signal.ITIMER_REAL, self.TICK, self.TICK)
        return self

    def __exit__(self, *exc):
        signal.setitimer(signal.ITIMER_REAL, 0)
        signal.signal(signal.SIGALRM, self.old)
        return False

    def tick(self, signum, frame):
        self.elapsed += self.TICK
        if self.elapsed >= self.cap:
            self.reason = f"no answer within {self.cap}s"
            raise _Timeout()
        if self.waiting_fn is not None and not self.waiting_fn():
            # we are not blocked on the peer (the helper itself is working, e.g. waiting for install/tar/patch):
            # an idle peer means nothing then
            self.idle = 0
            self.last = None
            return
        pgid = self.pgid_fn()
        if not pgid:
            return
        states, total = _group_state(pgid)
        if states and all(s in "SZ" for s in states) and total == self.last:
            self.idle += self.TICK
        else:
            self.idle = 0
        self.last = total
        if self.idle >= self.IDLE:
            self.reason = f"peer idle for {self.idle}s: every process of the peer sleeps, nobody is going to write"
            raise _Timeout()


class Observer:
    def __init__(self):
        self.calls = []

    def __getattr__(self, name):
        def rec(*a, **kw):
            self.calls.append((name, a[0] if a else ""))

        return rec


class World:
    """scratch tree + helper instances for one work()/replay() call"""

    def __init__(self):
        self.base = tempfile.mkdtemp(dir="/dev/shm", prefix=f"verif-C32-{os.getpid()}-")
        self.root = os.environ.get("VERIF_PKGCORE_ROOT", "/repo")
        self.ebd_path = os.path.join(self.root, "data/lib/pkgcore/ebd")
        self.driver = os.path.join(self.base, "driver.sh")
        with open(self.driver, "w") as f:
            f.write(DRIVER)
        self.tmpl = os.path.join(self.base, "tmpl")
        self._make_template()
        self.run_dir = os.path.join(self.base, "run")

    def close(self):
        shutil.rmtree(self.base, ignore_errors=True)

    def _w(self, rel, data, mode=0o644):
        p = os.path.join(self.tmpl, rel)
        os.makedirs(os.path.dirname(p), exist_ok=True)
        with open(p, "wb") as f:
            f.write(data)
        os.chmod(p, mode)

    def _make_template(self):
        for n in ("f.txt", "g.txt", "lib.so", "lib.a", "x.info", "x.html", "y.html", "x.1", "y.1", "de.mo", "fr.mo"):
            self._w("src/" + n, FILE_DATA + n.encode())
        os.symlink("f.txt", os.path.join(self.tmpl, "src/lnk.txt"))
        os.symlink("x.html", os.path.join(self.tmpl, "src/lnk.html"))
        self._w("src/zd/inner.txt", FILE_DATA + b"zinner")
        self._w("src/d/inner.txt", FILE_DATA + b"inner")
        self._w("src/d/inner.html", FILE_DATA + b"innerh")
        self._w("src/target.txt", b"line1\nline2\nline3\n")
        self._w("src/p.patch", PATCH)
        self._w("src/bad.patch", BAD_PATCH)
        self._w("src/patches/01.patch", PATCH)
        self._w("src/env.in", b"FOO=1\nBAR=2\n")
        self._w("image/pre/file", b"prefile\n")
        os.symlink("/old/target", os.path.join(self.tmpl, "image/pre/oldlink"))
        os.makedirs(os.path.join(self.tmpl, "T"))
        os.makedirs(os.path.join(self.tmpl, "dist"))
        os.makedirs(os.path.join(self.tmpl, "tarsrc/t"))
        with open(os.path.join(self.tmpl, "tarsrc/t/u"), "wb") as f:
            f.write(b"unpacked\n")
        subprocess.run(["tar", "-cf", os.path.join(self.tmpl, "dist/a.tar"), "-C", os.path.join(self.tmpl, "tarsrc"), "t"], check=True)
        shutil.rmtree(os.path.join(self.tmpl, "tarsrc"))
        self._w("dist/empty.tar", b"")
        self._w("dist/empty.txt", b"")
        self._w("dist/plain.bin", b"not an archive\n")
        self._w("dist/corrupt.tar", b"this is not a tar archive at all\n" * 40)

    def fresh(self):
        shutil.rmtree(self.run_dir, ignore_errors=True)
        shutil.copytree(self.tmpl, self.run_dir, symlinks=True)
        self.image = os.path.join(self.run_dir, "image")
        self.src = os.path.join(self.run_dir, "src")
        self.T = os.path.join(self.run_dir, "T")
        self.dist = os.path.join(self.run_dir, "dist")
        self.status = os.path.join(self.run_dir, "status")

    def apply_pre(self, pre):
        for op in pre:
            p = os.path.join(self.image, op[1])
            os.makedirs(os.path.dirname(p), exist_ok=True)
            if op[0] == "file":
                with open(p, "wb") as f:
                    f.write(b"in the way\n")
            elif op[0] == "dir":
                os.makedirs(p)
            else:
                os.symlink(os.path.relpath(os.path.join(self.image, op[2]), os.path.dirname(p)), p)

    def make_helpers(self, eapi="8"):
        from pkgcore.ebuild import ebd_ipc
        from pkgcore.test.misc import FakePkg, FakeRepo

        pkg = FakePkg("cat/pkg-1", eapi=eapi, slot="0")

        class Dom:
            all_installed_repos = FakeRepo((FakePkg("cat/inst-1"), FakePkg("cat/inst-2"), FakePkg("cat/other-3")))
            root = "/"

        class Op:
            pass

        op = Op()
        op.pkg, op.observer, op.ED, op.domain, op.userpriv = pkg, Observer(), self.image + "/", Dom(), False
        op.env = {"T": self.T, "DISTDIR": self.dist, "EROOT": "/", "ROOT": "/", "ESYSROOT": "/", "SYSROOT": "/", "EPREFIX": ""}
        names = {
            "doins": "Doins", "dodoc": "Dodoc", "dohtml": "Dohtml", "doinfo": "Doinfo", "dodir": "Dodir", "doexe": "Doexe",
            "dobin": "Dobin", "dosbin": "Dosbin", "dolib": "Dolib", "dolib.so": "Dolib_so", "dolib.a": "Dolib_a",
            "doman": "Doman", "domo": "Domo", "dosym": "Dosym", "dohard": "Dohard", "keepdir": "Keepdir",
            "has_version": "Has_Version", "best_version": "Best_Version", "unpack": "Unpack", "eapply": "Eapply",
            "eapply_user": "Eapply_User", "docompress": "Docompress", "dostrip": "Dostrip", "filter_env": "FilterEnv",
        }  # fmt: skip
        op._ipc_helpers = {k: getattr(ebd_ipc, v)(op) for k, v in names.items()}
        return op


# ------------------------------------------------------------------ one session


def run_session(world, spec, timeout=None):
    """Run one session against the real pair. Returns an observation dict."""
    from pkgcore.ebuild import ebd_ipc, processor
    from verif.engines import faults

    world.fresh()
    req = build_request(spec)
    op = world.make_helpers(req["eapi"])
    world.apply_pre(req["pre"])
    obs = {"replies": [], "events_at_reply": [], "outcome": None, "ipc_error": None, "req": req}

    rq_r, rq_w = os.pipe()  # bash -> python
    rp_r, rp_w = os.pipe()  # python -> bash
    env = {
        "PATH": os.environ.get("PATH", "/usr/bin:/bin"),
        "PKGCORE_EBD_PATH": world.ebd_path,
        "PKGCORE_EBD_READ_FD": str(rp_r),
        "PKGCORE_EBD_WRITE_FD": str(rq_w),
        "VERIF_CWD": world.src,
        "VERIF_STATUS": world.status,
        "ED": world.image + "/",
        "D": world.image + "/",
        "T": world.T,
        "PF": "pkg-1",
        "CATEGORY": "cat",
        "PKGCORE_PREFIX_SUPPORT": "true",
        "PKGCORE_NONFATAL_DIE": "true",
        "NO_COLOR": "1",
        "LC_ALL": "C",
    }
    env.update(req["env"])
    mode = spec["mode"]
    if mode == "ipc" and spec["helper"] in ("has_version", "best_version"):
        mode = "fn"
    fols = build_followups(spec, req)
    records = [("request", mode, req["cmd"], req["opts"], req["args"])]
    if req["cleanup"]:
        records.append(("cleanup", "sh", req["cleanup"], "", []))
    obs["fols"] = {}
    for i, fol in enumerate(fols):
        tag = "followup" if i == 0 else f"followup{i + 1}"
        obs["fols"][tag] = fol
        records.append((tag, "ipc", fol["cmd"], fol["opts"], fol["args"]))
    records.append(("sentinel", "script" if mode == "script" else "ipc", "dodir", "", ["/sentinel"]))
    obs["tags"] = [r[0] for r in records if r[1] != "sh"]
    spec_path = os.path.join(world.run_dir, "session.spec")
    with open(spec_path, "wb") as f:
        for tag, m, cmd, opts, args in records:
            for field in [tag, m, cmd, opts, str(len(args))] + list(args):
                f.write(field.encode() + b"\0")
    env["VERIF_SPEC"] = spec_path
    argv = ["bash", world.driver, "true" if spec["nonfatal"] else "false", "install"]
    proc = subprocess.Popen(argv, env=env, pass_fds=(rp_r, rq_w), stdin=subprocess.DEVNULL, stdout=subprocess.DEVNULL, stderr=subprocess.DEVNULL, start_new_session=True)
    os.close(rp_r)
    os.close(rq_w)

    ebp = processor.EbuildProcessor.__new__(processor.EbuildProcessor)
    ebp.pid = None
    ebp.ebd_write = os.fdopen(rp_w, "w")
    raw_read = os.fdopen(rq_r, "rb")
    waiting = [False]

    class ReadProxy:
        """the request pipe; notes when the python side is blocked waiting for the bash side"""

        def readline(self, *a):
            waiting[0] = True
            try:
                return raw_read.readline(*a)
            finally:
                waiting[0] = False

        def read(self, *a):
            waiting[0] = True
            try:
                return raw_read.read(*a)
            finally:
                waiting[0] = False

        def close(self):
            raw_read.close()

    ebp.ebd_read = ReadProxy()
    ebp._outstanding_expects = []
    ebp.processing_lock = False
    real_write = ebp.write
    inj = faults.Injector(world.run_dir)

    obs["dispatched"] = []

    def counted(name, helper):
        def call(ebd):
            obs["dispatched"].append(name)
            return helper(ebd)

        return call

    handlers = {k: counted(k, h) for k, h in op._ipc_helpers.items()}

    def write(string, *a, **kw):
        obs["replies"].append(str(string))
        obs["events_at_reply"].append(len(inj.events))
        inj.plan = None  # faults are aimed at the request under test only, never at the sentinel
        return real_write(string, *a, **kw)

    ebp.write = write

    def serve():
        try:
            ok = ebp.generic_handler(additional_commands=handlers)
            return "finished" if ok else "finished-false"
        except ebd_ipc.IpcError as e:
            obs["ipc_error"] = [type(e).__name__, e.code, str(e.msg)[:200]]
            ebp.write(e.ret)  # run_generic_phase: notify bash side of IPC error
            if isinstance(e, ebd_ipc.IpcInternalError):
                obs["internal_cause"] = repr(e.__cause__)[:200]
                return "internal-error"
            # run_generic_phase now shuts the processor down; its handshake reads the channel
            try:
                line = ebp.read()
            except processor.EbdError as d:
                obs["die"] = str(d)[:400]
                return "ipc-error:bash-died"
            obs["after_error"] = line[:120]
            return "ipc-error:bash-exited" if line == "" else "ipc-error:bash-carried-on"
        except processor.EbdError as d:
            obs["die"] = str(d)[:400]
            return "bash-died-unprompted"
        except (processor.ProcessingInterruption, processor.ProcessorError) as e:
            return f"protocol-error:{type(e).__name__}:{str(e)[:120]}"

    plan = None
    if spec.get("fault"):
        ks, en = spec["fault"]
        plan = ("errors", set(ks), en) if len(ks) > 1 else ("error", ks[0], en)
    dog = Watchdog(lambda: proc.pid, timeout or TIMEOUT, waiting_fn=lambda: waiting[0])
    try:
        with dog:
            status, value = inj.run(serve, plan)
            obs["outcome"] = value if status == "ok" else f"harness:{status}:{value!r}"[:200]
    except _Timeout:
        obs["outcome"] = "timeout"
        obs["timeout_reason"] = dog.reason
    obs["events"] = list(inj.events)
    obs["errored_at"] = inj.errored_at
    for f in (ebp.ebd_write, ebp.ebd_read):
        try:
            f.close()
        except Exception:
            pass
    try:
        # both pipe ends are closed now, so the bash side runs into EOF/EPIPE and leaves by itself
        proc.wait(timeout=(timeout or TIMEOUT) if obs["outcome"] != "timeout" else 1)
    except subprocess.TimeoutExpired:
        try:
            os.killpg(proc.pid, signal.SIGKILL)
        except OSError:
            pass
        proc.wait()
        obs["bash_killed"] = True
    obs["status_lines"] = _read(world.status).decode("utf-8", "replace").splitlines()
    obs["stdout"] = _read(world.status + ".request.out").decode("utf-8", "replace")
    obs["stderr"] = _read(world.status + ".request.err").decode("utf-8", "replace")
    obs["warns"] = [c for c in op.observer.calls if c[0] == "warn"]
    obs["effect"] = effect_present(world, op, req)
    obs["fol_effects"] = {tag: effect_present(world, op, fol) for tag, fol in obs["fols"].items()}
    return obs


def _read(p):
    try:
        with open(p, "rb") as f:
            return f.read()
    except OSError:
        return b""


def _src_bytes(world, rel):
    return _read(os.path.join(world.tmpl, "src", rel))


def effect_present(world, op, req):
    """independent inspection of the scratch world: does it show the requested effect? (None = nothing requested)"""
    eff = req["effect"]
    kind = eff[0]
    if kind == "files":
        if not eff[1]:
            return None
        for rel, src, mode in eff[1]:
            p = os.path.join(world.image, rel)
            try:
                st = os.lstat(p)
            except OSError:
                return False
            if src is None or not stat.S_ISREG(st.st_mode) or _read(p) != _src_bytes(world, src):
                return False
            if mode is not None and stat.S_IMODE(st.st_mode) != mode:
                return False
        return True
    if kind == "dirs":
        for rel, mode in eff[1]:
            p = os.path.join(world.image, rel)
            if not os.path.isdir(p) or os.path.islink(p):
                return False
            if mode is not None and stat.S_IMODE(os.lstat(p).st_mode) != mode:
                return False
            if eff[2] and not os.path.isfile(os.path.join(p, ".keep_cat_pkg-0")):
                return False
        return True
    if kind == "symlink":
        p = os.path.join(world.image, eff[1])
        return eff[2] is not None and os.path.islink(p) and os.readlink(p) == eff[2]
    if kind == "hardlink":
        p, q = os.path.join(world.image, eff[1]), os.path.join(world.image, eff[2])
        try:
            return os.path.samestat(os.lstat(p), os.lstat(q))
        except OSError:
            return False
    if kind == "workfile":
        return _read(os.path.join(world.src, eff[1])) == eff[2]
    if kind == "filtered":
        data = _read(os.path.join(world.src, eff[1]))
        return eff[2] in data.split(b"\n") and eff[3] not in data
    if kind == "tfile":
        return os.path.isfile(os.path.join(world.T, eff[1]))
    if kind == "helper-set":
        return eff[2] in getattr(op._ipc_helpers[req["cmd"]], eff[1])
    return None


def judge(spec, obs):
    """-> (list of (kind, message), outcome class)"""
    req = obs["req"]
    v = []
    lines = obs["status_lines"]
    st = {}
    for l in lines:
        parts = l.split()
        if len(parts) >= 2:
            st[parts[0]] = parts[1:]
    req_st = st.get("request")
    died = req_st == ["died"]
    status = int(req_st[1]) if req_st and req_st[0] == "returned" else None
    faulted = bool(spec.get("fault"))
    outcome = obs["outcome"]
    nonfatal = spec["nonfatal"]
    expect = req["expect"]
    eff = obs["effect"]
    kind = req["effect"][0]
    tags = obs["tags"]
    ndisp = len(obs["dispatched"])

    if outcome == "timeout" or (isinstance(outcome, str) and outcome.startswith(("harness:", "protocol-error"))):
        v.append(("channel", f"session did not complete: {outcome} {obs.get('timeout_reason', '')}; status file {lines}"))
        return v, "broken-session"
    if req_st is None:
        v.append(("channel", f"request never returned on the bash side; python outcome {outcome}"))
        return v, "broken-session"

    # --- framing: every dispatched request is answered by exactly one single-line reply
    for r in obs["replies"]:
        if "\n" in r:
            v.append(("multi-line-reply", f"reply spans several lines: {r[:120]!r}"))
    if len(obs["replies"]) != ndisp:
        v.append(("reply-count", f"{len(obs['replies'])} replies written for {ndisp} requests: {obs['replies']!r}"[:300]))
    if outcome == "finished" and ndisp != len(tags):
        v.append(("channel", f"phase finished after {ndisp} of {len(tags)} requests were seen by the python side"))
    # which request was being served when the python side left the handler (if it did)
    failing_tag = tags[ndisp - 1] if outcome != "finished" and 0 < ndisp <= len(tags) else None

    # --- truth for the request under test: status 0 <=> the requested effect is there
    success = status == 0 and not died
    legit_nonzero = False
    if kind == "status-is-answer":
        # has_version: the exit status *is* the answer (0 = installed)
        eff = None
        if spec["variant"] == "absent-pkg" and not faulted:
            legit_nonzero = True
            if outcome != "finished" or died or status != 1:
                v.append(("false-answer", f"has_version for a package that is not installed: status {req_st}, python {outcome}"))
    elif kind == "stdout":
        eff = (obs["stdout"].strip() == req["effect"][1]) if success else None
        if eff is False:
            v.append(("false-answer", f"best_version printed {obs['stdout'].strip()!r}, reference {req['effect'][1]!r}"))
            eff = None
    if success and eff is False:
        v.append(("false-success", f"status 0 but the requested effect is absent ({req['effect']!r})"[:300]))
    if not faulted and not legit_nonzero:
        if expect == "ok" and not success:
            v.append(
                (
                    "false-failure",
                    f"a valid request failed (effect present: {eff}): status {'died' if died else status}, python {outcome}, error {obs['ipc_error']}, stderr {obs['stderr'][-160:]!r}",
                )
            )
        if expect == "fail" and success and not any(k == "false-success" for k, _ in v):
            v.append(("false-success", f"a request that cannot be carried out reported status 0 ({req['cmd']} {req['args']})"))

    # --- the request under test: agreement of the two sides, nonfatal / fatal behaviour
    request_ended_phase = failing_tag == "request"
    if not request_ended_phase:
        if died:
            v.append(("channel", "bash side died in the request although the python side answered it and went on"))
        elif not success and not legit_nonzero:
            # failure reported to bash without ending the phase: only legitimate for nonfatal requests
            if not nonfatal:
                v.append(("fatal-not-fatal", f"fatal request returned {status} and the phase carried on"))
            elif not obs["stderr"].strip():
                v.append(("nonfatal-no-message", f"nonfatal failure status {status} without a message"))
    else:
        if outcome == "ipc-error:bash-died":
            # die() inside a nested subshell cannot stop its parents; python kills the daemon on 'dying', so the
            # python side is authoritative here
            if nonfatal:
                v.append(("nonfatal-was-fatal", f"nonfatal request ended the phase: {obs['ipc_error']}"))
        elif outcome in ("ipc-error:bash-carried-on", "ipc-error:bash-exited"):
            v.append(
                (
                    "build-failed-though-status-0" if status == 0 else "channel",
                    f"python side failed the phase with {obs['ipc_error']} (reply {obs['replies'][-1]!r}) but bash got status {status} and carried on",
                )
            )
        elif outcome == "internal-error":
            pass  # one failure reply was written (checked above); success with a missing effect is caught above
        elif outcome == "bash-died-unprompted":
            v.append(("channel", f"bash side died without the python side reporting an error: {obs.get('die', '')[:160]!r}"))

    # --- the requests after it: a plain valid request to the same helper, then the sentinel
    if not request_ended_phase:
        for tag in tags[1:]:
            tst = st.get(tag)
            fol = obs["fols"].get(tag)
            what = "sentinel 'dodir /sentinel'" if tag == "sentinel" else f"valid follow-up request {fol['cmd']} {fol['opts']} {fol['args']}"
            if failing_tag == tag:
                cause = str(obs.get("internal_cause", ""))
                k = f"{tag}-dead-coroutine" if outcome == "internal-error" and cause.startswith("StopIteration") else f"{tag}-failed"
                v.append((k, f"{what} after the request under test failed on the python side: {outcome} {obs['ipc_error']} {cause}"))
                break
            if tst != ["returned", "0"]:
                v.append((f"{tag}-failed", f"{what} did not get its own successful reply: {tst}; replies {obs['replies']!r}"[:300]))
                break
            if tag == "sentinel" and not os.path.isdir(os.path.join(obs["world_image"], "sentinel")):
                v.append(("sentinel-failed", "sentinel status 0 but /sentinel was not created"))
            if tag != "sentinel" and obs["fol_effects"][tag] is not True:
                v.append((f"{tag}-failed", f"{what} returned 0 but its effect is absent"))

    cls = outcome
    if request_ended_phase is False and outcome != "finished":
        cls = "later-request:" + outcome
    if outcome == "finished" or not request_ended_phase:
        cls = "ok" if success else ("answer-false" if legit_nonzero else "nonfatal-failure-reported")
        if outcome != "finished":
            cls += "+later-request-failed"
        if any(w for w in obs["warns"] if "falling back" in str(w[1])):
            cls += "+external-install"
    return v, cls


def check(world, spec):
    obs = run_session(world, spec)
    if (obs["outcome"] == "timeout" and str(obs.get("timeout_reason", "")).startswith("no answer within")) or (
        obs["outcome"] != "timeout" and obs.get("bash_killed")
    ):
        # the absolute cap was hit while the bash side was still busy (a starved machine): only a hang that shows again
        # counts. (The usual stuck channel is recognised much earlier: every process of the bash side idle.)
        obs = run_session(world, spec)
    obs["world_image"] = world.image
    viol, cls = judge(spec, obs)
    return obs, viol, cls


def mk_case(spec, viol):
    c = {k: spec[k] for k in ("mode", "helper", "variant", "optmode", "nonfatal", "fault")}
    c["kinds"] = sorted({k for k, _ in viol})
    c["msg"] = f"{spec['mode']}:{spec['helper']} {spec['variant']} opt={spec['optmode']} nonfatal={spec['nonfatal']} fault={spec['fault']}: " + "; ".join(
        m for _, m in viol
    )[:500]
    return c


def work(task):
    tier, mode, helper, nonfatal = task
    world = World()
    classes = {}
    viol = []
    evals = 0
    counters = {"requests": 0, "fault_free_sessions": 0, "faulted_sessions": 0, "fault_points": 0, "faults_fired": 0}
    samples = []
    try:
        for spec in all_sessions():
            if (spec["mode"], spec["helper"], spec["nonfatal"]) != (mode, helper, nonfatal):
                continue
            obs, vs, cls = check(world, spec)
            evals += 1
            counters["fault_free_sessions"] += 1
            counters["requests"] += len(obs["replies"])
            k = f"{GROUP[helper]}:{'in-place:' if '@' in spec['variant'] or 'obstructed' in spec['variant'] else ''}{cls}"
            classes[k] = classes.get(k, 0) + 1
            if vs:
                viol.append(mk_case(spec, vs))
            if not samples:
                samples.append({"spec": spec, "replies": obs["replies"], "status": obs["status_lines"]})
            # fault points: events of the request under test = those before its reply was written
            n1 = obs["events_at_reply"][0] if obs["events_at_reply"] else 0
            counters["fault_points"] += n1
            plans = [([k], errno.EIO) for k in range(n1)]
            if tier == "thorough":
                plans += [([k], errno.EACCES) for k in range(n1)]
                plans += [([a, b], errno.EIO) for a in range(n1) for b in range(a + 1, n1)]
            for ks, en in plans:
                fspec = dict(spec, fault=[ks, en])
                fobs, fvs, fcls = check(world, fspec)
                evals += 1
                counters["faulted_sessions"] += 1
                counters["requests"] += len(fobs["replies"])
                if fobs["errored_at"] is not None:
                    counters["faults_fired"] += 1
                k = f"{GROUP[helper]}:fault:{fcls}"
                classes[k] = classes.get(k, 0) + 1
                if fvs:
                    viol.append(mk_case(fspec, fvs))
    finally:
        world.close()
    return {"evals": evals, "classes": classes, "viol": viol, "keep_all_viol": True, "samples": samples, "counters": counters}


def replay(case):
    world = World()
    try:
        spec = {k: case[k] for k in ("mode", "helper", "variant", "optmode", "nonfatal", "fault")}
        obs, vs, cls = check(world, spec)
    finally:
        world.close()
    return [f"{k}: {m}" for k, m in vs]


# ------------------------------------------------------------------ known-defect classifier (narrow)

FALLBACK_CAPABLE = (set(IW) - IGNORES_INSOPTIONS) | {"dodir", "keepdir"}
DEAD = {"followup-dead-coroutine", "followup2-dead-coroutine", "sentinel-dead-coroutine"}


def _c_install_status_inverted(case):
    """request whose insoptions/diroptions force the external `install` fallback ('-m u+x', '--bogus'), and the only
    things wrong are the signatures of `if not ret: raise`: success reported although install failed / stopped after
    the first file, or the phase failed on the python side although bash was told status 0 (the exception raised for a
    *successful* install also finishes the installer coroutine, so a later request may find it dead)"""
    own = {"false-success", "build-failed-though-status-0"}
    # consequences for the requests after it: the fallback installer stays selected on the helper instance, so the
    # follow-up / a dodir sentinel run the external command too and hit the same inverted test
    later = DEAD | {"followup-failed", "sentinel-failed"}
    kinds = set(case["kinds"])
    return case["helper"] in FALLBACK_CAPABLE and case["optmode"] in ("mux", "bogus") and bool(kinds & own) and kinds <= own | later


def _c_multiline_message(case):
    """a failure whose message is captured command output (tar via unpack, patch via eapply) is written into the reply
    with its newlines; what is wrong is exactly the multi-line reply and, as its consequence, the sentinel's reply"""
    return (
        case["helper"] in ("unpack", "eapply")
        and case["variant"] in ("corrupt", "does-not-apply")
        and "multi-line-reply" in case["kinds"]
        and set(case["kinds"]) <= {"multi-line-reply", "sentinel-failed"}
    )


def _c_dead_coroutine(case):
    """after a request failed inside one of the helper's installer coroutines (generator-based: an exception finishes
    the generator) the next valid request to the same helper instance dies with StopIteration -> 'internal failure'"""
    return bool(case["kinds"]) and set(case["kinds"]) <= DEAD


CLASSIFIERS = {
    "external-install-status-inverted": _c_install_status_inverted,
    "error-message-newlines-in-reply": _c_multiline_message,
    "helper-unusable-after-failed-request": _c_dead_coroutine,
}
